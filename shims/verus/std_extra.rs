// shim: std functions vstd has no specification for.  ASSUMED from the std documentation.
pub open spec fn spec_is_pow2_u32(x: u32) -> bool {
    x == 1 || x == 2 || x == 4 || x == 8 || x == 16 || x == 32 || x == 64 || x == 128
    || x == 0x100 || x == 0x200 || x == 0x400 || x == 0x800 || x == 0x1000 || x == 0x2000 || x == 0x4000 || x == 0x8000
    || x == 0x1_0000 || x == 0x2_0000 || x == 0x4_0000 || x == 0x8_0000 || x == 0x10_0000 || x == 0x20_0000 || x == 0x40_0000 || x == 0x80_0000
    || x == 0x100_0000 || x == 0x200_0000 || x == 0x400_0000 || x == 0x800_0000 || x == 0x1000_0000 || x == 0x2000_0000 || x == 0x4000_0000 || x == 0x8000_0000
}
pub assume_specification [u32::is_power_of_two] (x: u32) -> (r: bool)
    ensures r == spec_is_pow2_u32(x);
