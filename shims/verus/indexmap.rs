// shim: the subset of indexmap::{IndexMap, IndexSet, map::Entry} that crates/topo uses.
// ASSUMED (written from the indexmap documentation): an IndexMap is an insertion-ordered
// sequence of (key, value) pairs with pairwise distinct keys; `shift_remove` keeps the order of
// the remaining pairs; an IndexSet is an insertion-ordered sequence of distinct elements.
// Mutable access (`get_mut`, `Entry::into_mut`, `or_insert_with`) hands out a reference into the
// map; what is written through it is the new value of that slot (prophecy `final`).

pub struct IndexMap<K, V> { pub m: Vec<(K, V)> }
pub struct IndexSet<T> { pub s: Vec<T> }

pub open spec fn keys_distinct<K, V>(s: Seq<(K, V)>) -> bool {
    forall|i: int, j: int| 0 <= i < j < s.len() ==> s[i].0 != s[j].0
}
pub open spec fn elems_distinct<T>(s: Seq<T>) -> bool {
    forall|i: int, j: int| 0 <= i < j < s.len() ==> s[i] != s[j]
}
pub open spec fn index_of_key<K, V>(s: Seq<(K, V)>, k: K) -> int
    decreases s.len()
{
    if s.len() == 0 { -1 } else if s[s.len() - 1].0 == k { s.len() - 1 } else { index_of_key(s.drop_last(), k) }
}
pub open spec fn has_key<K, V>(s: Seq<(K, V)>, k: K) -> bool {
    exists|i: int| 0 <= i < s.len() && #[trigger] s[i].0 == k
}

impl<K, V> IndexMap<K, V> {
    pub open spec fn view(&self) -> Seq<(K, V)> { self.m@ }
    /// representation invariant of the real container (ASSUMED to hold of every IndexMap)
    pub open spec fn wf(&self) -> bool { keys_distinct(self.m@) }

    #[verifier::external_body]
    pub fn default() -> (r: Self) ensures r@.len() == 0, r.wf() { unimplemented!() }
    #[verifier::external_body]
    pub fn len(&self) -> (r: usize) ensures r == self@.len() { unimplemented!() }
    #[verifier::external_body]
    pub fn is_empty(&self) -> (r: bool) ensures r == (self@.len() == 0) { unimplemented!() }
    #[verifier::external_body]
    pub fn clear(&mut self) ensures final(self)@.len() == 0, final(self).wf() { unimplemented!() }

    // "Remove the key-value pair equivalent to key and return its value.  Like Vec::remove, the
    //  pair is removed by shifting all of the elements that follow it, preserving their
    //  relative order."
    #[verifier::external_body]
    pub fn shift_remove(&mut self, key: &K) -> (r: Option<V>)
        requires old(self).wf()
        ensures final(self).wf(),
            !has_key(old(self)@, *key) ==> r is None && final(self)@ == old(self)@,
            has_key(old(self)@, *key) ==> exists|i: int| 0 <= i < old(self)@.len() && #[trigger] old(self)@[i].0 == *key
                && r == Some(old(self)@[i].1) && final(self)@ == old(self)@.remove(i),
    { unimplemented!() }

    // "Remove the key-value pair equivalent to key ... the pair is removed by swapping it with the
    //  last element of the map and popping it off. This perturbs the position of what used to
    //  be the last element!"
    #[verifier::external_body]
    pub fn swap_remove(&mut self, key: &K) -> (r: Option<V>)
        requires old(self).wf()
        ensures final(self).wf(),
            !has_key(old(self)@, *key) ==> r is None && final(self)@ == old(self)@,
            has_key(old(self)@, *key) ==> exists|i: int| 0 <= i < old(self)@.len() && #[trigger] old(self)@[i].0 == *key
                && r == Some(old(self)@[i].1) && final(self)@ == old(self)@.update(i, old(self)@.last()).drop_last(),
    { unimplemented!() }

    // "Return a mutable reference to the value stored for key, if it is present"
    #[verifier::external_body]
    pub fn get_mut(&mut self, key: &K) -> (r: Option<&mut V>)
        requires old(self).wf()
        ensures
            !has_key(old(self)@, *key) ==> r is None && final(self)@ == old(self)@,
            has_key(old(self)@, *key) ==> exists|i: int| 0 <= i < old(self)@.len() && #[trigger] old(self)@[i].0 == *key
                && r is Some && *r->0 == old(self)@[i].1
                && final(self)@ == old(self)@.update(i, (*key, *final(r->0))),
    { unimplemented!() }

    // "Get the given key's corresponding entry in the map for insertion and/or in-place manipulation"
    #[verifier::external_body]
    pub fn entry<'a>(&'a mut self, key: K) -> (r: Entry<'a, K, V>)
        requires old(self).wf()
        ensures
            has_key(old(self)@, key) <==> r is Occupied,
            r is Occupied ==> *r->Occupied_0.m == *old(self) && r->Occupied_0.key == key && *final(self) == *final(r->Occupied_0.m),
            r is Vacant ==> *r->Vacant_0.m == *old(self) && r->Vacant_0.key == key && *final(self) == *final(r->Vacant_0.m),
    { unimplemented!() }
}

pub struct VacantEntry<'a, K, V> { pub m: &'a mut IndexMap<K, V>, pub key: K }
pub struct OccupiedEntry<'a, K, V> { pub m: &'a mut IndexMap<K, V>, pub key: K }
pub enum Entry<'a, K, V> { Occupied(OccupiedEntry<'a, K, V>), Vacant(VacantEntry<'a, K, V>) }

impl<'a, K, V> VacantEntry<'a, K, V> {
    // "Inserts the entry's key and the given value into the map (at the end)"
    #[verifier::external_body]
    pub fn insert(self, value: V) -> (r: &'a mut V)
        requires self.m.wf(), !has_key(self.m@, self.key)
        ensures *r == value, final(self.m)@ == old(self.m)@.push((self.key, *final(r))),
    { unimplemented!() }
}
impl<'a, K, V> OccupiedEntry<'a, K, V> {
    // "Converts into a mutable reference to the entry's value in the map"
    #[verifier::external_body]
    pub fn into_mut(self) -> (r: &'a mut V)
        requires self.m.wf(), has_key(self.m@, self.key)
        ensures exists|i: int| 0 <= i < old(self.m)@.len() && #[trigger] old(self.m)@[i].0 == self.key
            && *r == old(self.m)@[i].1 && final(self.m)@ == old(self.m)@.update(i, (self.key, *final(r))),
    { unimplemented!() }
}
impl<'a, K, V> Entry<'a, K, V> {
    // "Inserts the result of the call function in the entry if it is vacant and returns a
    //  mutable reference to it. Otherwise a mutable reference to an already existent value"
    #[verifier::external_body]
    pub fn or_insert_with<F: FnOnce() -> V>(self, call: F) -> (r: &'a mut V)
        requires entry_map(self).wf(), call.requires(())
        ensures
            self is Occupied ==> exists|i: int| 0 <= i < entry_map(self)@.len() && #[trigger] entry_map(self)@[i].0 == entry_key(self)
                && *r == entry_map(self)@[i].1 && entry_final(self)@ == entry_map(self)@.update(i, (entry_key(self), *final(r))),
            self is Vacant ==> call.ensures((), *r) && entry_final(self)@ == entry_map(self)@.push((entry_key(self), *final(r))),
    { unimplemented!() }
}
pub open spec fn entry_map<'a, K, V>(e: Entry<'a, K, V>) -> IndexMap<K, V> {
    match e { Entry::Occupied(o) => *o.m, Entry::Vacant(v) => *v.m }
}
#[verifier::prophetic]
pub open spec fn entry_final<'a, K, V>(e: Entry<'a, K, V>) -> IndexMap<K, V> {
    match e { Entry::Occupied(o) => *final(o.m), Entry::Vacant(v) => *final(v.m) }
}
pub open spec fn entry_key<'a, K, V>(e: Entry<'a, K, V>) -> K {
    match e { Entry::Occupied(o) => o.key, Entry::Vacant(v) => v.key }
}

impl<T> IndexSet<T> {
    pub open spec fn view(&self) -> Seq<T> { self.s@ }
    pub open spec fn wf(&self) -> bool { elems_distinct(self.s@) }
    #[verifier::external_body]
    pub fn default() -> (r: Self) ensures r@.len() == 0, r.wf() { unimplemented!() }
    // "Insert the value into the set.  If an equivalent item already exists in the set, it
    //  returns false leaving the original value in the set and without altering its insertion
    //  order.  Otherwise, it inserts the new item (at the end) and returns true."
    #[verifier::external_body]
    pub fn insert(&mut self, value: T) -> (r: bool)
        requires old(self).wf()
        ensures final(self).wf(),
            r == !old(self)@.contains(value),
            r ==> final(self)@ == old(self)@.push(value),
            !r ==> final(self)@ == old(self)@,
    { unimplemented!() }
    #[verifier::external_body]
    pub fn len(&self) -> (r: usize) ensures r == self@.len() { unimplemented!() }
}
// "Access IndexSet values at indexed positions" (iteration order = insertion order)
impl<T> Index<usize> for IndexSet<T> {
    type Output = T;
    #[verifier::external_body]
    fn index(&self, index: usize) -> (r: &T) ensures *r == self@[index as int] { unimplemented!() }
}
impl<T> vstd::std_specs::core::IndexSpecImpl<usize> for IndexSet<T> {
    open spec fn index_req(&self, index: &usize) -> bool { *index < self@.len() }
}
