// shim: Cranelift (external crate).  Everything in this file is ASSUMED, written from the
// Cranelift instruction reference (cranelift-codegen `ir::instructions` docs), not from capy.
//
// Codegen functions do not compute values, they emit instructions.  Every SSA `Value`
// carries a ghost denotation `Den`; every instruction-builder method states the denotation
// of its result and the memory event it appends to the builder's ghost log.
//
// Emission order / footprints: `builder.ins()` appends a *prophesied* event to `log` and
// returns a by-value token; the one instruction method that consumes the token fixes what
// the event was (an `ensures` on the token's ghost field).

pub mod types {
    use vstd::prelude::*;
    #[derive(Clone, Copy, PartialEq, Eq)]
    pub struct Type { pub bits_: u32, pub is_float: bool }
    impl Type {
        pub fn bits(self) -> (r: u32) ensures r == self.bits_ { self.bits_ }
        pub fn bytes(self) -> (r: u32) ensures r == self.bits_ / 8 { self.bits_ / 8 }
        pub fn is_int(self) -> (r: bool) ensures r == !self.is_float { !self.is_float }
    }
    pub const I8: Type = Type { bits_: 8, is_float: false };
    pub const I16: Type = Type { bits_: 16, is_float: false };
    pub const I32: Type = Type { bits_: 32, is_float: false };
    pub const I64: Type = Type { bits_: 64, is_float: false };
    pub const I128: Type = Type { bits_: 128, is_float: false };
    pub const F32: Type = Type { bits_: 32, is_float: true };
    pub const F64: Type = Type { bits_: 64, is_float: true };
}

// ---- mathematical vocabulary ---------------------------------------------------------

pub open spec fn pow2(n: nat) -> nat decreases n { if n == 0 { 1 } else { 2 * pow2((n - 1) as nat) } }
/// signed reading of a `bits`-wide bit pattern
pub open spec fn sint(bits: nat, val: nat) -> int {
    if bits > 0 && val >= pow2((bits - 1) as nat) { val - pow2(bits) } else { val as int }
}
/// two's-complement encoding of an integer in `bits` bits
pub open spec fn tc(bits: nat, v: int) -> nat { (v % (pow2(bits) as int)) as nat }
/// division truncating toward zero (b != 0)
pub open spec fn tdiv(a: int, b: int) -> int {
    if a >= 0 && b > 0 { a / b } else if a < 0 && b > 0 { -((-a) / b) }
    else if a >= 0 && b < 0 { -(a / (-b)) } else { (-a) / (-b) }
}
/// remainder with the sign of the dividend
pub open spec fn trem(a: int, b: int) -> int { a - b * tdiv(a, b) }
pub open spec fn b2n(b: bool) -> nat { if b { 1 } else { 0 } }

/// abstract IEEE value; float arithmetic is uninterpreted
pub ghost struct FloatVal { pub id: int }
pub uninterp spec fn round_int(fbits: nat, v: int) -> FloatVal;       // nearest representable float of an integer
pub uninterp spec fn ftrunc(f: FloatVal) -> int;                       // truncation toward zero (finite f)
pub uninterp spec fn fpromote_s(bits: nat, f: FloatVal) -> FloatVal;
pub uninterp spec fn fdemote_s(bits: nat, f: FloatVal) -> FloatVal;
pub uninterp spec fn f_add(bits: nat, a: FloatVal, b: FloatVal) -> FloatVal;
pub uninterp spec fn f_sub(bits: nat, a: FloatVal, b: FloatVal) -> FloatVal;
pub uninterp spec fn f_mul(bits: nat, a: FloatVal, b: FloatVal) -> FloatVal;
pub uninterp spec fn f_div(bits: nat, a: FloatVal, b: FloatVal) -> FloatVal;
pub uninterp spec fn f_cmp(cc: FloatCC, a: FloatVal, b: FloatVal) -> bool;
pub uninterp spec fn f_bits(bits: nat, f: FloatVal) -> nat;            // IEEE bit pattern
pub uninterp spec fn f_of_bits(bits: nat, v: nat) -> FloatVal;
pub uninterp spec fn bit_and(bits: nat, a: nat, b: nat) -> nat;
pub uninterp spec fn bit_or(bits: nat, a: nat, b: nat) -> nat;
pub uninterp spec fn bit_xor(bits: nat, a: nat, b: nat) -> nat;

pub ghost enum Den {
    Int { bits: nat, val: nat },          // 0 <= val < 2^bits
    Float { bits: nat, f: FloatVal },
    Addr { base: Base, off: int },        // pointer-typed value: an address inside an object
    Blob,                                 // some bytes (bulk copy / memset): no single value
}
pub ghost enum Base { Slot(int), Val(int), Global(int), Unknown }

pub open spec fn den_wf(d: Den) -> bool {
    match d {
        Den::Int { bits, val } => val < pow2(bits),
        _ => true,
    }
}
pub open spec fn is_int_of(d: Den, bits: nat) -> bool { d is Int && d->Int_bits == bits && den_wf(d) }
pub open spec fn is_float_of(d: Den, bits: nat) -> bool { d is Float && d->Float_bits == bits }

#[derive(Clone, Copy)]
pub struct Value { pub id: u32, pub den: Ghost<Den> }

#[derive(Clone, Copy, PartialEq, Eq)]
pub enum IntCC {
    Equal, NotEqual,
    SignedLessThan, SignedGreaterThanOrEqual, SignedGreaterThan, SignedLessThanOrEqual,
    UnsignedLessThan, UnsignedGreaterThanOrEqual, UnsignedGreaterThan, UnsignedLessThanOrEqual,
}
#[derive(Clone, Copy, PartialEq, Eq)]
pub enum FloatCC {
    Ordered, Unordered, Equal, NotEqual, OrderedNotEqual, UnorderedOrEqual,
    LessThan, LessThanOrEqual, GreaterThan, GreaterThanOrEqual,
    UnorderedOrLessThan, UnorderedOrLessThanOrEqual, UnorderedOrGreaterThan, UnorderedOrGreaterThanOrEqual,
}
pub open spec fn icmp_spec(cc: IntCC, bits: nat, a: nat, b: nat) -> bool {
    match cc {
        IntCC::Equal => a == b,
        IntCC::NotEqual => a != b,
        IntCC::SignedLessThan => sint(bits, a) < sint(bits, b),
        IntCC::SignedGreaterThanOrEqual => sint(bits, a) >= sint(bits, b),
        IntCC::SignedGreaterThan => sint(bits, a) > sint(bits, b),
        IntCC::SignedLessThanOrEqual => sint(bits, a) <= sint(bits, b),
        IntCC::UnsignedLessThan => a < b,
        IntCC::UnsignedGreaterThanOrEqual => a >= b,
        IntCC::UnsignedGreaterThan => a > b,
        IntCC::UnsignedLessThanOrEqual => a <= b,
    }
}

// ---- memory events ---------------------------------------------------------------------

pub ghost enum Ev {
    Pure,                                              // no memory effect
    Write { base: Base, lo: int, hi: int, val: Den },   // bytes [lo, hi) of the object `base` written with the value `val`
    Read { base: Base, lo: int, hi: int },
    Call { name: Seq<char>, args: Seq<Den> },      // call of an external function by name
    Trap,
    Control,                                            // jump / brif / switch_to_block / seal
    NewSlot { slot: int, size: int },
}

/// provenance of a pointer-typed value: which object it points into and at which offset.
/// A value without a known provenance is its own object at offset 0.
pub open spec fn ptr_base(v: Value) -> Base {
    match v.den@ { Den::Addr { base, off } => base, _ => Base::Val(v.id as int) }
}
pub open spec fn ptr_off(v: Value) -> int {
    match v.den@ { Den::Addr { base, off } => off, _ => 0 }
}
/// width in bytes of a value as a store writes it
pub open spec fn den_bytes(d: Den) -> int {
    match d { Den::Int { bits, val } => bits as int / 8, Den::Float { bits, f } => bits as int / 8, Den::Addr { .. } => ptr_bytes_spec(), Den::Blob => 0 }
}
pub uninterp spec fn ptr_bytes_spec() -> int;   // 4 or 8 (see target_ok)
pub open spec fn target_ok() -> bool { ptr_bytes_spec() == 4 || ptr_bytes_spec() == 8 }

#[derive(Clone, Copy, PartialEq, Eq)]
pub struct StackSlot { pub id: u32 }
#[derive(Clone, Copy, PartialEq, Eq)]
pub struct Block { pub id: u32 }
#[derive(Clone, Copy)]
pub struct MemFlags { pub _p: u8 }
impl MemFlags {
    pub fn new() -> MemFlags { MemFlags { _p: 0 } }
    pub fn trusted() -> MemFlags { MemFlags { _p: 1 } }
}
#[derive(Clone, Copy, PartialEq, Eq)]
pub enum StackSlotKind { ExplicitSlot, ExplicitDynamicSlot }
pub struct StackSlotData { pub kind: StackSlotKind, pub size: u32, pub align_shift: u8 }
impl StackSlotData {
    pub fn new(kind: StackSlotKind, size: u32, align_shift: u8) -> (r: StackSlotData)
        ensures r.size == size, r.align_shift == align_shift
    { StackSlotData { kind, size, align_shift } }
}

pub struct FunctionBuilder {
    pub log: Ghost<Seq<Ev>>,
    pub slots: Ghost<Map<int, int>>,      // stack slot id -> size in bytes
    // control flow (see clif_cf.rs): the conditions known to hold whenever control is at the
    // current insertion point, and for every emitted event the conditions that held there
    pub facts: Ghost<Seq<Cond>>,
    pub guards: Ghost<Seq<Seq<Cond>>>,
    pub pending: Ghost<Map<int, Seq<Cond>>>,   // block id -> conditions on its (single) incoming edge
    pub blocks: Ghost<Set<int>>,               // ids of the blocks created so far
    pub func: FuncHandle,
}
/// "value v is non-zero" (truth) / "value v is zero" (!truth)
pub ghost struct Cond { pub v: Den, pub truth: bool }
#[derive(Clone, Copy)]
pub struct FuncHandle { pub _p: u8 }

/// b1 is b0 with only value computations (no memory effect, no call, no control flow) added
pub open spec fn pure_ext(b0: FunctionBuilder, b1: FunctionBuilder) -> bool {
    &&& b0.log@.len() <= b1.log@.len()
    &&& b1.guards@.len() - b1.log@.len() == b0.guards@.len() - b0.log@.len()
    &&& forall|i: int| 0 <= i < b0.log@.len() ==> #[trigger] b1.log@[i] == b0.log@[i]
    &&& forall|i: int| 0 <= i < b0.guards@.len() && i < b1.guards@.len() ==> #[trigger] b1.guards@[i] == b0.guards@[i]
    &&& forall|i: int| b0.log@.len() <= i < b1.log@.len() ==> #[trigger] b1.log@[i] is Pure
    &&& b1.facts == b0.facts && b1.pending == b0.pending && b1.blocks == b0.blocks && b1.slots == b0.slots
}
pub struct Ins { pub ev: Ghost<Ev>, pub cur_facts: Ghost<Seq<Cond>>, pub pos: Ghost<int> }
/// what a load of `bits` bits at offset `off` of object `base` returns when it is the
/// `pos`-th event of the function (uninterpreted: memory contents are not modelled; callers
/// state what they rely on, e.g. "a slice holds a length and then a pointer", as preconditions)
pub uninterp spec fn load_den(base: Base, off: int, bits: int, pos: int) -> Den;

impl FunctionBuilder {
    #[verifier::external_body]
    pub fn ins(&mut self) -> (r: Ins)
        ensures final(self).log@ == old(self).log@.push(r.ev@), final(self).slots == old(self).slots,
            final(self).facts == old(self).facts, final(self).pending == old(self).pending, final(self).blocks == old(self).blocks,
            final(self).guards@ == old(self).guards@.push(old(self).facts@),
            r.cur_facts@ == old(self).facts@, r.pos@ == old(self).log@.len(),
    { unimplemented!() }

    #[verifier::external_body]
    pub fn create_sized_stack_slot(&mut self, data: StackSlotData) -> (r: StackSlot)
        ensures
            !old(self).slots@.dom().contains(r.id as int),
            final(self).slots@ == old(self).slots@.insert(r.id as int, data.size as int),
            final(self).log@ == old(self).log@.push(Ev::NewSlot { slot: r.id as int, size: data.size as int }),
            final(self).facts == old(self).facts, final(self).pending == old(self).pending, final(self).blocks == old(self).blocks,
            final(self).guards@ == old(self).guards@.push(old(self).facts@),
    { unimplemented!() }

    // "Optimised memcpy or memmove for small copies": loads `size` bytes from `src` and
    // stores them to `dest` (or calls memcpy/memmove with that size); asserts that the
    // greatest power of two dividing `size` is >= min(src_align, dest_align).
    #[verifier::external_body]
    pub fn emit_small_memory_copy(&mut self, config: TargetFrontendConfig, dest: Value, src: Value, size: u64,
                                  dest_align: u8, src_align: u8, non_overlapping: bool, flags: MemFlags)
        requires size == 0 || size % ((if dest_align < src_align { dest_align } else { src_align }) as u64) == 0
        ensures
            final(self).slots == old(self).slots,
            final(self).log@ == old(self).log@
                .push(Ev::Read { base: ptr_base(src), lo: ptr_off(src), hi: ptr_off(src) + size })
                .push(Ev::Write { base: ptr_base(dest), lo: ptr_off(dest), hi: ptr_off(dest) + size, val: Den::Blob }),
            final(self).facts == old(self).facts, final(self).pending == old(self).pending, final(self).blocks == old(self).blocks,
            final(self).guards@ == old(self).guards@.push(old(self).facts@).push(old(self).facts@),
    { unimplemented!() }
    // "Writes `size` bytes of i8 value `ch` to memory starting at `buffer`"
    #[verifier::external_body]
    pub fn emit_small_memset(&mut self, config: TargetFrontendConfig, buffer: Value, ch: u8, size: u64,
                             buffer_align: u8, flags: MemFlags)
        requires size == 0 || size % (buffer_align as u64) == 0
        ensures
            final(self).slots == old(self).slots,
            final(self).log@ == old(self).log@
                .push(Ev::Write { base: ptr_base(buffer), lo: ptr_off(buffer), hi: ptr_off(buffer) + size, val: Den::Blob }),
            final(self).facts == old(self).facts, final(self).pending == old(self).pending, final(self).blocks == old(self).blocks,
            final(self).guards@ == old(self).guards@.push(old(self).facts@),
    { unimplemented!() }
}

#[derive(Clone, Copy)]
pub struct TargetFrontendConfig { pub _p: u8 }
pub struct Module { pub _p: u8 }
impl Module {
    #[verifier::external_body]
    pub fn target_config(&self) -> (r: TargetFrontendConfig) { unimplemented!() }
}
impl types::Type {
    // "Get an integer type with the requested number of bytes"
    pub fn int_with_byte_size(bytes: u16) -> (r: Option<types::Type>)
        ensures (bytes == 1 || bytes == 2 || bytes == 4 || bytes == 8 || bytes == 16)
            ==> r == Some(types::Type { bits_: (bytes * 8) as u32, is_float: false }),
    {
        if bytes == 1 || bytes == 2 || bytes == 4 || bytes == 8 || bytes == 16 {
            Some(types::Type { bits_: (bytes as u32) * 8, is_float: false })
        } else { None }
    }
}

impl Ins {
    // ---- memory ----
    // "Store x to the stack slot SS at offset": writes the bytes of x
    #[verifier::external_body]
    pub fn stack_store(self, x: Value, slot: StackSlot, off: i32)
        ensures self.ev@ == (Ev::Write { base: Base::Slot(slot.id as int), lo: off as int, hi: off + den_bytes(x.den@), val: x.den@ })
    { unimplemented!() }
    #[verifier::external_body]
    pub fn stack_load(self, ty: types::Type, slot: StackSlot, off: i32) -> (r: Value)
        ensures self.ev@ == (Ev::Read { base: Base::Slot(slot.id as int), lo: off as int, hi: off + ty.bits_ / 8 }),
            den_bytes(r.den@) == ty.bits_ / 8, r.den@ == load_den(Base::Slot(slot.id as int), off as int, ty.bits_ as int, self.pos@),
            ty.is_float ==> is_float_of(r.den@, ty.bits_ as nat), !ty.is_float ==> (r.den@ is Addr || is_int_of(r.den@, ty.bits_ as nat)),
    { unimplemented!() }
    // "Get the address of a stack slot"
    #[verifier::external_body]
    pub fn stack_addr(self, ty: types::Type, slot: StackSlot, off: i32) -> (r: Value)
        ensures self.ev@ is Pure, r.den@ == (Den::Addr { base: Base::Slot(slot.id as int), off: off as int })
    { unimplemented!() }
    // "Store x to memory at p + Offset"
    #[verifier::external_body]
    pub fn store(self, flags: MemFlags, x: Value, p: Value, off: i32)
        ensures self.ev@ == (Ev::Write { base: ptr_base(p), lo: ptr_off(p) + off, hi: ptr_off(p) + off + den_bytes(x.den@), val: x.den@ })
    { unimplemented!() }
    // "Load from memory at p + Offset" -- the loaded value has the requested type
    #[verifier::external_body]
    pub fn load(self, ty: types::Type, flags: MemFlags, p: Value, off: i32) -> (r: Value)
        ensures self.ev@ == (Ev::Read { base: ptr_base(p), lo: ptr_off(p) + off, hi: ptr_off(p) + off + ty.bits_ / 8 }),
            den_bytes(r.den@) == ty.bits_ / 8, r.den@ == load_den(ptr_base(p), ptr_off(p) + off, ty.bits_ as int, self.pos@),
            ty.is_float ==> is_float_of(r.den@, ty.bits_ as nat), !ty.is_float ==> (r.den@ is Addr || is_int_of(r.den@, ty.bits_ as nat)),
    { unimplemented!() }
    // "Load 8 bits from memory at p + Offset" and sign- / zero-extend them to the requested type
    #[verifier::external_body]
    pub fn sload8(self, ty: types::Type, flags: MemFlags, p: Value, off: i32) -> (r: Value)
        requires !ty.is_float, ty.bits_ >= 8
        ensures self.ev@ == (Ev::Read { base: ptr_base(p), lo: ptr_off(p) + off, hi: ptr_off(p) + off + 1 }),
            ({ let b = load_den(ptr_base(p), ptr_off(p) + off, 8, self.pos@);
               b is Int ==> r.den@ == (Den::Int { bits: ty.bits_ as nat, val: tc(ty.bits_ as nat, sint(8, b->Int_val)) }) }),
    { unimplemented!() }
    #[verifier::external_body]
    pub fn uload8(self, ty: types::Type, flags: MemFlags, p: Value, off: i32) -> (r: Value)
        requires !ty.is_float, ty.bits_ >= 8
        ensures self.ev@ == (Ev::Read { base: ptr_base(p), lo: ptr_off(p) + off, hi: ptr_off(p) + off + 1 }),
            ({ let b = load_den(ptr_base(p), ptr_off(p) + off, 8, self.pos@);
               b is Int ==> r.den@ == (Den::Int { bits: ty.bits_ as nat, val: b->Int_val }) }),
    { unimplemented!() }
    // "Add immediate integer": on a pointer it moves the offset inside the same object
    #[verifier::external_body]
    pub fn iadd_imm(self, x: Value, imm: i64) -> (r: Value)
        ensures self.ev@ is Pure,
            x.den@ is Int ==> r.den@ == (Den::Int { bits: x.den@->Int_bits, val: tc(x.den@->Int_bits, x.den@->Int_val + imm) }),
            !(x.den@ is Int) ==> ptr_base(r) == ptr_base(x) && ptr_off(r) == ptr_off(x) + imm && r.den@ is Addr,
    { unimplemented!() }
}

impl Ins {
    // ---- integer arithmetic: "wrapping", i.e. modulo 2^B ----
    #[verifier::external_body]
    pub fn iadd(self, x: Value, y: Value) -> (r: Value)
        requires y.den@ is Int, x.den@ is Int ==> x.den@->Int_bits == y.den@->Int_bits, x.den@ is Int || x.den@ is Addr
        ensures self.ev@ is Pure,
            x.den@ is Int ==> r.den@ == (Den::Int { bits: x.den@->Int_bits, val: tc(x.den@->Int_bits, (x.den@->Int_val + y.den@->Int_val) as int) }),
            // pointer + byte offset stays inside the same object (no wrap-around is assumed
            // for in-bounds offsets)
            x.den@ is Addr ==> r.den@ == (Den::Addr { base: ptr_base(x), off: ptr_off(x) + y.den@->Int_val }),
    { unimplemented!() }
    #[verifier::external_body]
    pub fn isub(self, x: Value, y: Value) -> (r: Value)
        requires x.den@ is Int, y.den@ is Int, x.den@->Int_bits == y.den@->Int_bits
        ensures self.ev@ is Pure,
            r.den@ == (Den::Int { bits: x.den@->Int_bits, val: tc(x.den@->Int_bits, x.den@->Int_val - y.den@->Int_val) })
    { unimplemented!() }
    #[verifier::external_body]
    pub fn imul(self, x: Value, y: Value) -> (r: Value)
        requires x.den@ is Int, y.den@ is Int, x.den@->Int_bits == y.den@->Int_bits
        ensures self.ev@ is Pure,
            r.den@ == (Den::Int { bits: x.den@->Int_bits, val: tc(x.den@->Int_bits, (x.den@->Int_val * y.den@->Int_val) as int) })
    { unimplemented!() }
    // "Signed integer division rounded toward zero ... traps if the divisor is zero, or if
    //  the result is not representable in B bits" -- nothing is said about the trapping cases
    #[verifier::external_body]
    pub fn sdiv(self, x: Value, y: Value) -> (r: Value)
        requires x.den@ is Int, y.den@ is Int, x.den@->Int_bits == y.den@->Int_bits
        ensures self.ev@ is Pure, r.den@ is Int, r.den@->Int_bits == x.den@->Int_bits,
            sint(x.den@->Int_bits, y.den@->Int_val) != 0 ==>
                r.den@->Int_val == tc(x.den@->Int_bits, tdiv(sint(x.den@->Int_bits, x.den@->Int_val), sint(x.den@->Int_bits, y.den@->Int_val)))
    { unimplemented!() }
    #[verifier::external_body]
    pub fn udiv(self, x: Value, y: Value) -> (r: Value)
        requires x.den@ is Int, y.den@ is Int, x.den@->Int_bits == y.den@->Int_bits
        ensures self.ev@ is Pure, r.den@ is Int, r.den@->Int_bits == x.den@->Int_bits,
            y.den@->Int_val != 0 ==> r.den@->Int_val == x.den@->Int_val / y.den@->Int_val
    { unimplemented!() }
    // "Signed integer remainder. The result has the sign of the dividend."
    #[verifier::external_body]
    pub fn srem(self, x: Value, y: Value) -> (r: Value)
        requires x.den@ is Int, y.den@ is Int, x.den@->Int_bits == y.den@->Int_bits
        ensures self.ev@ is Pure, r.den@ is Int, r.den@->Int_bits == x.den@->Int_bits,
            sint(x.den@->Int_bits, y.den@->Int_val) != 0 ==>
                r.den@->Int_val == tc(x.den@->Int_bits, trem(sint(x.den@->Int_bits, x.den@->Int_val), sint(x.den@->Int_bits, y.den@->Int_val)))
    { unimplemented!() }
    #[verifier::external_body]
    pub fn urem(self, x: Value, y: Value) -> (r: Value)
        requires x.den@ is Int, y.den@ is Int, x.den@->Int_bits == y.den@->Int_bits
        ensures self.ev@ is Pure, r.den@ is Int, r.den@->Int_bits == x.den@->Int_bits,
            y.den@->Int_val != 0 ==> r.den@->Int_val == x.den@->Int_val % y.den@->Int_val
    { unimplemented!() }
    // bitwise: also defined on floats (on the IEEE bit pattern)
    #[verifier::external_body]
    pub fn band(self, x: Value, y: Value) -> (r: Value)
        ensures self.ev@ is Pure,
            (x.den@ is Int && y.den@ is Int) ==> r.den@ == (Den::Int { bits: x.den@->Int_bits, val: bit_and(x.den@->Int_bits, x.den@->Int_val, y.den@->Int_val) }),
            (x.den@ is Float && y.den@ is Float) ==> r.den@ == (Den::Float { bits: x.den@->Float_bits,
                f: f_of_bits(x.den@->Float_bits, bit_and(x.den@->Float_bits, f_bits(x.den@->Float_bits, x.den@->Float_f), f_bits(x.den@->Float_bits, y.den@->Float_f))) }),
    { unimplemented!() }
    #[verifier::external_body]
    pub fn bor(self, x: Value, y: Value) -> (r: Value)
        ensures self.ev@ is Pure,
            (x.den@ is Int && y.den@ is Int) ==> r.den@ == (Den::Int { bits: x.den@->Int_bits, val: bit_or(x.den@->Int_bits, x.den@->Int_val, y.den@->Int_val) }),
            (x.den@ is Float && y.den@ is Float) ==> r.den@ == (Den::Float { bits: x.den@->Float_bits,
                f: f_of_bits(x.den@->Float_bits, bit_or(x.den@->Float_bits, f_bits(x.den@->Float_bits, x.den@->Float_f), f_bits(x.den@->Float_bits, y.den@->Float_f))) }),
    { unimplemented!() }
    #[verifier::external_body]
    pub fn bxor(self, x: Value, y: Value) -> (r: Value)
        ensures self.ev@ is Pure,
            (x.den@ is Int && y.den@ is Int) ==> r.den@ == (Den::Int { bits: x.den@->Int_bits, val: bit_xor(x.den@->Int_bits, x.den@->Int_val, y.den@->Int_val) }),
            (x.den@ is Float && y.den@ is Float) ==> r.den@ == (Den::Float { bits: x.den@->Float_bits,
                f: f_of_bits(x.den@->Float_bits, bit_xor(x.den@->Float_bits, f_bits(x.den@->Float_bits, x.den@->Float_f), f_bits(x.den@->Float_bits, y.den@->Float_f))) }),
    { unimplemented!() }
    // shifts: "the shift amount is masked to the size of x"
    #[verifier::external_body]
    pub fn ishl(self, x: Value, y: Value) -> (r: Value)
        requires x.den@ is Int, y.den@ is Int
        ensures self.ev@ is Pure,
            r.den@ == (Den::Int { bits: x.den@->Int_bits, val: tc(x.den@->Int_bits, (x.den@->Int_val * pow2(y.den@->Int_val % x.den@->Int_bits)) as int) })
    { unimplemented!() }
    #[verifier::external_body]
    pub fn ushr(self, x: Value, y: Value) -> (r: Value)
        requires x.den@ is Int, y.den@ is Int
        ensures self.ev@ is Pure,
            r.den@ == (Den::Int { bits: x.den@->Int_bits, val: x.den@->Int_val / pow2(y.den@->Int_val % x.den@->Int_bits) })
    { unimplemented!() }
    #[verifier::external_body]
    pub fn sshr(self, x: Value, y: Value) -> (r: Value)
        requires x.den@ is Int, y.den@ is Int
        ensures self.ev@ is Pure,
            r.den@ == (Den::Int { bits: x.den@->Int_bits,
                val: tc(x.den@->Int_bits, sint(x.den@->Int_bits, x.den@->Int_val) / (pow2(y.den@->Int_val % x.den@->Int_bits) as int)) })
    { unimplemented!() }
    #[verifier::external_body]
    pub fn icmp(self, cc: IntCC, x: Value, y: Value) -> (r: Value)
        requires x.den@ is Int, y.den@ is Int, x.den@->Int_bits == y.den@->Int_bits
        ensures self.ev@ is Pure,
            r.den@ == (Den::Int { bits: 8, val: b2n(icmp_spec(cc, x.den@->Int_bits, x.den@->Int_val, y.den@->Int_val)) })
    { unimplemented!() }
    #[verifier::external_body]
    pub fn icmp_imm(self, cc: IntCC, x: Value, y: i64) -> (r: Value)
        requires x.den@ is Int
        ensures self.ev@ is Pure,
            r.den@ == (Den::Int { bits: 8, val: b2n(icmp_spec(cc, x.den@->Int_bits, x.den@->Int_val, tc(x.den@->Int_bits, y as int))) })
    { unimplemented!() }
    // ---- float arithmetic (uninterpreted) ----
    #[verifier::external_body]
    pub fn fadd(self, x: Value, y: Value) -> (r: Value)
        requires x.den@ is Float, y.den@ is Float
        ensures self.ev@ is Pure, r.den@ == (Den::Float { bits: x.den@->Float_bits, f: f_add(x.den@->Float_bits, x.den@->Float_f, y.den@->Float_f) })
    { unimplemented!() }
    #[verifier::external_body]
    pub fn fsub(self, x: Value, y: Value) -> (r: Value)
        requires x.den@ is Float, y.den@ is Float
        ensures self.ev@ is Pure, r.den@ == (Den::Float { bits: x.den@->Float_bits, f: f_sub(x.den@->Float_bits, x.den@->Float_f, y.den@->Float_f) })
    { unimplemented!() }
    #[verifier::external_body]
    pub fn fmul(self, x: Value, y: Value) -> (r: Value)
        requires x.den@ is Float, y.den@ is Float
        ensures self.ev@ is Pure, r.den@ == (Den::Float { bits: x.den@->Float_bits, f: f_mul(x.den@->Float_bits, x.den@->Float_f, y.den@->Float_f) })
    { unimplemented!() }
    #[verifier::external_body]
    pub fn fdiv(self, x: Value, y: Value) -> (r: Value)
        requires x.den@ is Float, y.den@ is Float
        ensures self.ev@ is Pure, r.den@ == (Den::Float { bits: x.den@->Float_bits, f: f_div(x.den@->Float_bits, x.den@->Float_f, y.den@->Float_f) })
    { unimplemented!() }
    #[verifier::external_body]
    pub fn fcmp(self, cc: FloatCC, x: Value, y: Value) -> (r: Value)
        requires x.den@ is Float, y.den@ is Float
        ensures self.ev@ is Pure, r.den@ == (Den::Int { bits: 8, val: b2n(f_cmp(cc, x.den@->Float_f, y.den@->Float_f)) })
    { unimplemented!() }
    // ---- conversions ----
    // "Convert x to a larger integer type by sign-extending."
    #[verifier::external_body]
    pub fn sextend(self, ty: types::Type, v: Value) -> (r: Value)
        requires v.den@ is Int, !ty.is_float, ty.bits_ > v.den@->Int_bits
        ensures self.ev@ is Pure,
            r.den@ == (Den::Int { bits: ty.bits_ as nat, val: tc(ty.bits_ as nat, sint(v.den@->Int_bits, v.den@->Int_val)) })
    { unimplemented!() }
    // "Convert x to a larger integer type by zero-extending."
    #[verifier::external_body]
    pub fn uextend(self, ty: types::Type, v: Value) -> (r: Value)
        requires v.den@ is Int, !ty.is_float, ty.bits_ > v.den@->Int_bits
        ensures self.ev@ is Pure, r.den@ == (Den::Int { bits: ty.bits_ as nat, val: v.den@->Int_val })
    { unimplemented!() }
    // "Convert x to a smaller integer type by discarding the most significant bits."
    #[verifier::external_body]
    pub fn ireduce(self, ty: types::Type, v: Value) -> (r: Value)
        requires v.den@ is Int, !ty.is_float, ty.bits_ < v.den@->Int_bits
        ensures self.ev@ is Pure, r.den@ == (Den::Int { bits: ty.bits_ as nat, val: v.den@->Int_val % pow2(ty.bits_ as nat) })
    { unimplemented!() }
    #[verifier::external_body]
    pub fn fpromote(self, ty: types::Type, v: Value) -> (r: Value)
        requires v.den@ is Float, ty.is_float, ty.bits_ > v.den@->Float_bits
        ensures self.ev@ is Pure, r.den@ == (Den::Float { bits: ty.bits_ as nat, f: fpromote_s(ty.bits_ as nat, v.den@->Float_f) })
    { unimplemented!() }
    #[verifier::external_body]
    pub fn fdemote(self, ty: types::Type, v: Value) -> (r: Value)
        requires v.den@ is Float, ty.is_float, ty.bits_ < v.den@->Float_bits
        ensures self.ev@ is Pure, r.den@ == (Den::Float { bits: ty.bits_ as nat, f: fdemote_s(ty.bits_ as nat, v.den@->Float_f) })
    { unimplemented!() }
    // "Convert floating point to signed integer as fcvt_to_sint does, but saturates the
    //  input instead of trapping.  NaN -> 0."  Only the in-range case is specified: the result
    //  is the truncation toward zero when that fits the *instruction's* result type.
    #[verifier::external_body]
    pub fn fcvt_to_sint_sat(self, ty: types::Type, v: Value) -> (r: Value)
        requires v.den@ is Float, !ty.is_float, ty.bits_ == 32 || ty.bits_ == 64
        ensures self.ev@ is Pure, is_int_of(r.den@, ty.bits_ as nat),
            -(pow2((ty.bits_ - 1) as nat) as int) <= ftrunc(v.den@->Float_f) < pow2((ty.bits_ - 1) as nat)
                ==> r.den@->Int_val == tc(ty.bits_ as nat, ftrunc(v.den@->Float_f))
    { unimplemented!() }
    #[verifier::external_body]
    pub fn fcvt_to_uint_sat(self, ty: types::Type, v: Value) -> (r: Value)
        requires v.den@ is Float, !ty.is_float, ty.bits_ == 32 || ty.bits_ == 64
        ensures self.ev@ is Pure, is_int_of(r.den@, ty.bits_ as nat),
            0 <= ftrunc(v.den@->Float_f) < pow2(ty.bits_ as nat)
                ==> r.den@->Int_val == ftrunc(v.den@->Float_f)
    { unimplemented!() }
    // "Convert signed integer to floating point ... rounded to nearest, ties to even"; the
    //  x86-64 backend accepts 8..64-bit operands
    #[verifier::external_body]
    pub fn fcvt_from_sint(self, ty: types::Type, v: Value) -> (r: Value)
        requires v.den@ is Int, ty.is_float, v.den@->Int_bits <= 64
        ensures self.ev@ is Pure,
            r.den@ == (Den::Float { bits: ty.bits_ as nat, f: round_int(ty.bits_ as nat, sint(v.den@->Int_bits, v.den@->Int_val)) })
    { unimplemented!() }
    #[verifier::external_body]
    pub fn fcvt_from_uint(self, ty: types::Type, v: Value) -> (r: Value)
        requires v.den@ is Int, ty.is_float, v.den@->Int_bits <= 64
        ensures self.ev@ is Pure,
            r.den@ == (Den::Float { bits: ty.bits_ as nat, f: round_int(ty.bits_ as nat, v.den@->Int_val as int) })
    { unimplemented!() }
    // ---- constants ----
    // "Integer constant ... the immediate is sign-extended/truncated to the type's width"
    #[verifier::external_body]
    pub fn iconst(self, ty: types::Type, imm: i64) -> (r: Value)
        requires !ty.is_float
        ensures self.ev@ is Pure, r.den@ == (Den::Int { bits: ty.bits_ as nat, val: tc(ty.bits_ as nat, imm as int) })
    { unimplemented!() }
}
