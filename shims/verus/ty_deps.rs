// shim: opaque identifiers that `enum Ty` mentions but no contract looks into
// (interner::Key wrappers and source locations from hir::common).
#[derive(Clone, Copy)] pub struct Name(pub u32);
#[derive(Clone, Copy)] pub struct FileName(pub u32);
#[derive(Clone, Copy)] pub struct NaiveLoc(pub u32);
#[derive(Clone, Copy)] pub struct ConcreteLambdaLoc(pub u32);
