// shim: internment::Intern<T> (external crate).  ASSUMED: an Intern is a copyable handle
// to an immutable, canonical T (pointer equality coincides with structural equality).
pub struct Intern<T: 'static>(pub &'static T);
impl<T> Clone for Intern<T> { fn clone(&self) -> (r: Self) ensures r == *self { Intern(self.0) } }
impl<T> Copy for Intern<T> {}
impl<T> Intern<T> {
    pub fn as_ref(&self) -> (r: &T) ensures *r == *self.0 { self.0 }
}
impl<T> core::ops::Deref for Intern<T> {
    type Target = T;
    fn deref(&self) -> (r: &T) ensures *r == *self.0 { self.0 }
}
