// shim: Cranelift control flow and calls (ASSUMED, from the cranelift-frontend documentation).
//
// `facts` are the conditions that hold whenever control is at the current insertion point.
// `brif c, then, else` records `facts + (c != 0)` as the facts of the edge to `then` and
// `facts + (c == 0)` for the edge to `else`; `switch_to_block(b)` makes the recorded edge
// facts of b the current facts.  This is only sound for a block with exactly one incoming
// edge; a block that is branched to a second time loses its facts.  `seal_block` is
// Cranelift's promise that no further predecessor will be added (the builder panics if one
// is), which is why the pattern brif -> switch -> seal used by capy may rely on the facts.

#[derive(Clone, Copy)]
pub enum BlockArg { Value(Value) }
#[derive(Clone, Copy)]
pub struct TrapCode { pub _p: u8 }
pub const TRAP_UNREACHABLE: TrapCode = TrapCode { _p: 1 };
#[derive(Clone, Copy)]
pub struct FuncId { pub id: u32, pub name: Ghost<Seq<char>> }
#[derive(Clone, Copy)]
pub struct FuncRef { pub id: u32, pub name: Ghost<Seq<char>> }
#[derive(Clone, Copy)]
pub struct DataId { pub id: u32 }
#[derive(Clone, Copy)]
pub struct GlobalValue { pub id: u32 }
pub struct AbiParam { pub ty: types::Type }
impl AbiParam {
    pub fn new(ty: types::Type) -> AbiParam { AbiParam { ty } }
}

impl FunctionBuilder {
    #[verifier::external_body]
    pub fn create_block(&mut self) -> (r: Block)
        ensures !old(self).blocks@.contains(r.id as int), final(self).blocks@ == old(self).blocks@.insert(r.id as int),
            final(self).log == old(self).log, final(self).guards == old(self).guards, final(self).slots == old(self).slots,
            final(self).facts == old(self).facts, final(self).pending == old(self).pending,
    { unimplemented!() }
    #[verifier::external_body]
    pub fn set_cold_block(&mut self, b: Block)
        ensures *final(self) == *old(self)
    { unimplemented!() }
    // "After the call to this function, new instructions will be inserted into the designated block"
    #[verifier::external_body]
    pub fn switch_to_block(&mut self, b: Block)
        ensures
            final(self).facts@ == (if old(self).pending@.dom().contains(b.id as int) { old(self).pending@[b.id as int] } else { Seq::<Cond>::empty() }),
            final(self).log == old(self).log, final(self).guards == old(self).guards, final(self).slots == old(self).slots,
            final(self).pending == old(self).pending, final(self).blocks == old(self).blocks,
    { unimplemented!() }
    // "Declares that all the predecessors of this block are known"
    #[verifier::external_body]
    pub fn seal_block(&mut self, b: Block)
        ensures *final(self) == *old(self)
    { unimplemented!() }
}

/// the new edge facts of a branch target: the first edge into a block carries its facts, a
/// second edge erases them
pub open spec fn add_edge(pending: Map<int, Seq<Cond>>, b: int, facts: Seq<Cond>) -> Map<int, Seq<Cond>> {
    if pending.dom().contains(b) { pending.insert(b, Seq::<Cond>::empty()) } else { pending.insert(b, facts) }
}

impl FunctionBuilder {
    // `ins().brif(c, then, &[], else, &[])`: "Conditional branch when cond is non-zero ... else"
    // (a builder-level method here because it updates the edge facts; R4 rewrites
    //  `builder.ins().brif(` to `builder.brif(`)
    #[verifier::external_body]
    pub fn brif(&mut self, c: Value, then_b: Block, then_args: &[BlockArg], else_b: Block, else_args: &[BlockArg])
        requires then_b.id != else_b.id
        ensures
            final(self).log@ == old(self).log@.push(Ev::Control),
            final(self).guards@ == old(self).guards@.push(old(self).facts@),
            final(self).slots == old(self).slots, final(self).facts == old(self).facts, final(self).blocks == old(self).blocks,
            final(self).pending@ == add_edge(add_edge(old(self).pending@, then_b.id as int, old(self).facts@.push(Cond { v: c.den@, truth: true })),
                                             else_b.id as int, old(self).facts@.push(Cond { v: c.den@, truth: false })),
    { unimplemented!() }
}

impl Ins {
    // "Jump. Unconditionally jump to a basic block, passing the specified block arguments."
    #[verifier::external_body]
    pub fn jump(self, b: Block, args: &[BlockArg])
        ensures self.ev@ is Control
    { unimplemented!() }
    // "Direct function call"
    #[verifier::external_body]
    pub fn call(self, f: FuncRef, args: &[Value]) -> (r: u32)
        ensures self.ev@ == (Ev::Call { name: f.name@, args: Seq::new(args@.len(), |i: int| args@[i].den@) })
    { unimplemented!() }
    // "Terminate execution unconditionally"
    #[verifier::external_body]
    pub fn trap(self, code: TrapCode)
        ensures self.ev@ is Trap
    { unimplemented!() }
    // "Compute the value of global GV, which is a symbolic value": the address of a data object
    #[verifier::external_body]
    pub fn symbol_value(self, ty: types::Type, gv: GlobalValue) -> (r: Value)
        ensures self.ev@ is Pure, r.den@ == (Den::Addr { base: Base::Global(gv.id as int), off: 0 })
    { unimplemented!() }
    // "Integer multiplication by an immediate"
    #[verifier::external_body]
    pub fn imul_imm(self, x: Value, imm: i64) -> (r: Value)
        requires x.den@ is Int
        ensures self.ev@ is Pure, r.den@ == (Den::Int { bits: x.den@->Int_bits, val: tc(x.den@->Int_bits, x.den@->Int_val * imm) })
    { unimplemented!() }
    // pointer + byte offset (`iadd` on a pointer-typed value): stays inside the same object
    #[verifier::external_body]
    pub fn iadd_ptr(self, p: Value, off: Value) -> (r: Value)
        requires off.den@ is Int
        ensures self.ev@ is Pure,
            p.den@ is Addr ==> r.den@ == (Den::Addr { base: ptr_base(p), off: ptr_off(p) + off.den@->Int_val }),
            !(p.den@ is Addr) ==> r.den@ == (Den::Addr { base: ptr_base(p), off: off.den@->Int_val as int }),
    { unimplemented!() }
}
impl MemFlags {
    pub fn with_aligned(self) -> MemFlags { self }
}
