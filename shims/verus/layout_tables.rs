// shim: the process-global `LAYOUTS: Mutex<OnceCell<TyLayouts>>` of codegen/src/layout.rs.
//
// Rely/guarantee (DESIGN.md 2.3).  The table content is an uninterpreted function of the
// type: tsize / talign / tstruct / tenum.  ASSUMED (trusted, not proved):
//   T1  a read returns the table content for that key (and panics when the key is absent:
//       panic-freedom of lookups is NOT claimed anywhere);
//   T2  every entry a read returns was written by `calc_single` under the write
//       preconditions below, and is never overwritten (calc_single returns early when the
//       key is present; the extractor checks syntactically that layout.rs contains no other
//       `.insert(` on these tables) -- so a read may assume `entry_ok` of what it returns;
//   T3  an `insert` makes the written value the table content of that key.
// PROVED (unit `layout`): every write satisfies its precondition, i.e. the guarantee.

pub uninterp spec fn pbw() -> u32;                       // pointer bit width of the tables
pub uninterp spec fn tsize(ty: Ty) -> nat;               // LAYOUTS.sizes[ty]
pub uninterp spec fn talign(ty: Ty) -> nat;              // LAYOUTS.alignments[ty]
pub uninterp spec fn tstruct(ty: Ty) -> StructLayoutView; // LAYOUTS.struct_layouts[ty]
pub uninterp spec fn tenum(ty: Ty) -> EnumLayoutView;     // LAYOUTS.enum_layouts[ty]

pub ghost struct StructLayoutView { pub size: nat, pub align: nat, pub offsets: Seq<nat> }
pub ghost struct EnumLayoutView { pub size: nat, pub align: nat, pub discriminant_offset: nat }

pub struct SizeTable { pub _p: u8 }
pub struct AlignTable { pub _p: u8 }
pub struct StructLayoutTable { pub _p: u8 }
pub struct EnumLayoutTable { pub _p: u8 }
pub struct TyLayouts {
    pub pointer_bit_width: u32,
    pub sizes: SizeTable,
    pub alignments: AlignTable,
    pub struct_layouts: StructLayoutTable,
    pub enum_layouts: EnumLayoutTable,
}

// `LAYOUTS.lock().unwrap().get().unwrap()`  (rewritten by R4-idiom, logged)
#[verifier::external_body]
pub fn layouts_ref() -> (r: TyLayouts) ensures r.pointer_bit_width == pbw() { unimplemented!() }
// `LAYOUTS.lock().unwrap().get_mut().unwrap()`
#[verifier::external_body]
pub fn layouts_mut() -> (r: TyLayouts) ensures r.pointer_bit_width == pbw() { unimplemented!() }

impl SizeTable {
    #[verifier::external_body]
    pub fn contains_key(&self, ty: &Intern<Ty>) -> (r: bool)
        ensures r ==> entry_ok(*ty.0)   // T2: a present entry was written under the write preconditions
    { unimplemented!() }
    // `sizes[ty]`
    #[verifier::external_body]
    pub fn at(&self, ty: &Intern<Ty>) -> (r: u32)
        ensures r as nat == tsize(*ty.0), entry_ok(*ty.0)
    { unimplemented!() }
    #[verifier::external_body]
    pub fn insert(&mut self, ty: Intern<Ty>, size: u32)
        requires size_ok(*ty.0, size as nat)
        ensures tsize(*ty.0) == size as nat
    { unimplemented!() }
}
impl AlignTable {
    #[verifier::external_body]
    pub fn at(&self, ty: &Intern<Ty>) -> (r: u32)
        ensures r as nat == talign(*ty.0), entry_ok(*ty.0)
    { unimplemented!() }
    #[verifier::external_body]
    pub fn insert(&mut self, ty: Intern<Ty>, align: u32)
        requires align_ok(*ty.0, align as nat)
        ensures talign(*ty.0) == align as nat
    { unimplemented!() }
}
impl StructLayoutTable {
    #[verifier::external_body]
    pub fn insert(&mut self, ty: Intern<Ty>, l: StructLayout)
        requires struct_layout_ok(*ty.0, l.view())
        ensures tstruct(*ty.0) == l.view()
    { unimplemented!() }
}
impl EnumLayoutTable {
    #[verifier::external_body]
    pub fn insert(&mut self, ty: Intern<Ty>, l: EnumLayout)
        requires enum_layout_ok(*ty.0, l.view())
        ensures tenum(*ty.0) == l.view()
    { unimplemented!() }
}

// `GetLayoutInfo::{size, align, struct_layout, enum_layout}` for `Intern<Ty>`: plain table
// reads in the real code; trusted here (T1, T2).  `stride` and `align_shift` carry
// arithmetic and are extracted and proved, not shimmed.
impl Intern<Ty> {
    #[verifier::external_body]
    pub fn size(&self) -> (r: u32)
        ensures r as nat == tsize(*self.0), entry_ok(*self.0)
    { unimplemented!() }
    #[verifier::external_body]
    pub fn align(&self) -> (r: u32)
        ensures r as nat == talign(*self.0), entry_ok(*self.0)
    { unimplemented!() }
    // looks the layout up under `absolute_intern_ty(true)`; for a type that is itself a
    // struct that is the type itself.
    #[verifier::external_body]
    pub fn struct_layout(&self) -> (r: Option<StructLayout>)
        ensures is_struct_ty(*self.0) ==> r is Some && r->0.view() == tstruct(*self.0)
                    && struct_layout_ok(*self.0, tstruct(*self.0)),
                // through distinct / variant wrappers: the entry of the wrapped struct
                is_struct_ty(spec_abs(*self.0)) ==> r is Some && r->0.view() == tstruct(spec_abs(*self.0))
                    && struct_layout_ok(spec_abs(*self.0), tstruct(spec_abs(*self.0))),
    { unimplemented!() }
    #[verifier::external_body]
    pub fn enum_layout(&self) -> (r: Option<EnumLayout>)
        ensures has_enum_layout(*self.0) ==> r is Some && r->0.view() == tenum(*self.0)
                    && enum_layout_ok(*self.0, tenum(*self.0)),
                // T4 (ASSUMED): the enum-layout table has entries only for tagged types --
                // calc_single inserts one only in its Enum / ErrorUnion / non-pointer Optional arms
                (self.0 is Optional && !has_enum_layout(*self.0)) ==> r is None,
    { unimplemented!() }
}
