// shim: the process-global `FINAL_TYS: Mutex<OnceCell<FinalTys>>` of codegen/src/convert.rs,
// handled rely/guarantee like the layout tables: reads return the table content `tfinal`,
// which `convert::calc_single` (the only writer) wrote under the precondition `final_ok`
// (proved in unit `numeric`).  ASSUMED: F1 reads return the content, F2 entries are written
// once under the write precondition, F3 an insert defines the content.
pub uninterp spec fn tfinal(ty: Ty) -> FinalTy;
pub uninterp spec fn ptr_ty_spec() -> types::Type;    // the target's pointer type

pub struct FinalTable { pub _p: u8 }
pub struct FinalTys { pub ptr_bit_width: u32, pub finals: FinalTable }
#[verifier::external_body]
pub fn finals_ref() -> (r: FinalTys) { unimplemented!() }
#[verifier::external_body]
pub fn finals_mut() -> (r: FinalTys) { unimplemented!() }
impl FinalTable {
    #[verifier::external_body]
    pub fn contains_key(&self, ty: &Intern<Ty>) -> (r: bool)
        ensures r ==> final_ok(*ty.0, tfinal(*ty.0))
    { unimplemented!() }
    #[verifier::external_body]
    pub fn insert(&mut self, ty: Intern<Ty>, f: FinalTy)
        requires final_ok(*ty.0, f)
        ensures tfinal(*ty.0) == f
    { unimplemented!() }
}
impl Intern<Ty> {
    // `GetFinalTy::get_final_ty`: a plain table read (F1, F2)
    #[verifier::external_body]
    pub fn get_final_ty(&self) -> (r: FinalTy)
        ensures r == tfinal(*self.0), final_ok(*self.0, r)
    { unimplemented!() }
}
