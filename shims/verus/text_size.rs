// shim: text_size::TextSize (external crate) is a `u32` newtype whose `<=`, `-`,
// `From<u32>` and `u32::from` are those of the wrapped u32 (its `Sub` is a plain u32
// subtraction, which panics on underflow in debug builds and wraps in release builds --
// the contract below proves it cannot underflow).  ASSUMED: the alias is faithful.
pub type TextSize = u32;

// std: `<[T]>::partition_point`.  ASSUMED from the std documentation: "Returns the index of
// the partition point according to the given predicate (the index of the first element of
// the second partition).  The slice is assumed to be partitioned according to the given
// predicate ... if this slice is not partitioned, the returned result is unspecified".
// `partitioned(s, pred, k)`: pred cannot answer false on s[..k] and cannot answer true on
// s[k..]; then the slice is partitioned and k is its (unique) partition point.
pub open spec fn partitioned<T, P: FnMut(&T) -> bool>(s: Seq<T>, pred: P, k: int) -> bool {
    0 <= k <= s.len()
    && (forall|i: int| 0 <= i < k ==> !#[trigger] pred.ensures((&s[i],), false))
    && (forall|i: int| k <= i < s.len() ==> !#[trigger] pred.ensures((&s[i],), true))
}
/// instantiation hint only (always true)
pub open spec fn pp_hint(k: int) -> bool { true }
pub assume_specification<T, P: FnMut(&T) -> bool>[ <[T]>::partition_point ](s: &[T], pred: P) -> (r: usize)
    requires forall|i: int| 0 <= i < s@.len() ==> #[trigger] pred.requires((&s@[i],)),
    ensures r <= s@.len(), forall|k: int| #[trigger] pp_hint(k) && partitioned(s@, pred, k) ==> r == k;
// `u32::from(TextSize)` / `TextSize::from(u32)`: with the alias both are the reflexive
// `impl<T> From<T> for T`, the identity.
pub assume_specification<T>[ <T as core::convert::From<T>>::from ](x: T) -> (r: T)
    ensures r == x;
