// shim: cranelift `types::Type` only (for units that need no instruction semantics)
pub mod types {
    use vstd::prelude::*;
    #[derive(Clone, Copy, PartialEq, Eq)]
    pub struct Type { pub bits_: u32, pub is_float: bool }
    impl Type {
        pub fn bits(self) -> (r: u32) ensures r == self.bits_ { self.bits_ }
        pub fn bytes(self) -> (r: u32) ensures r == self.bits_ / 8 { self.bits_ / 8 }
        // "Get an integer type with the requested number of bytes": I8 .. I128
        pub fn int_with_byte_size(n: u16) -> (r: Option<Type>)
            ensures (n == 1 || n == 2 || n == 4 || n == 8 || n == 16) ==> r == Some(Type { bits_: (n * 8) as u32, is_float: false }),
                !(n == 1 || n == 2 || n == 4 || n == 8 || n == 16) ==> r is None
        {
            if n == 1 || n == 2 || n == 4 || n == 8 || n == 16 { Some(Type { bits_: (n as u32) * 8, is_float: false }) } else { None }
        }
    }
    pub const I8: Type = Type { bits_: 8, is_float: false };
    pub const I16: Type = Type { bits_: 16, is_float: false };
    pub const I32: Type = Type { bits_: 32, is_float: false };
    pub const I64: Type = Type { bits_: 64, is_float: false };
    pub const I128: Type = Type { bits_: 128, is_float: false };
    pub const F32: Type = Type { bits_: 32, is_float: true };
    pub const F64: Type = Type { bits_: 64, is_float: true };
}
