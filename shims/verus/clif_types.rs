// shim: cranelift `types::Type` only (for units that need no instruction semantics)
pub mod types {
    use vstd::prelude::*;
    #[derive(Clone, Copy, PartialEq, Eq)]
    pub struct Type { pub bits_: u32, pub is_float: bool }
    impl Type {
        pub fn bits(self) -> (r: u32) ensures r == self.bits_ { self.bits_ }
        pub fn bytes(self) -> (r: u32) ensures r == self.bits_ / 8 { self.bits_ / 8 }
    }
}
