// shim: what crates/codegen/src/convert/abi/x86_64.rs needs from cranelift, tinyvec and std (ASSUMED)
pub mod ir { pub use super::types; pub use super::types::Type; }
pub use types::Type;

// tinyvec::ArrayVec<[T; N]>: a vector with a fixed capacity; `push` panics when it is full
pub struct ArrayVec4 { pub v: Vec<Type> }
impl ArrayVec4 {
    pub open spec fn view(&self) -> Seq<Type> { self.v@ }
    pub fn new() -> (r: ArrayVec4) ensures r@.len() == 0 { ArrayVec4 { v: Vec::new() } }
    pub fn push(&mut self, t: Type)
        requires old(self)@.len() < 4
        ensures final(self)@ == old(self)@.push(t)
    { self.v.push(t); }
}

// "Returns the smallest power of two greater than or equal to self" (overflow excluded)
pub open spec fn is_pow2_u16(x: u16) -> bool {
    x == 1 || x == 2 || x == 4 || x == 8 || x == 16 || x == 32 || x == 64 || x == 128 || x == 256 || x == 512
    || x == 1024 || x == 2048 || x == 4096 || x == 8192 || x == 16384 || x == 32768
}
pub assume_specification[u16::next_power_of_two](x: u16) -> (r: u16)
    requires x <= 32768
    ensures is_pow2_u16(r), r >= x, x > 1 ==> r / 2 < x, x <= 1 ==> r == 1;
