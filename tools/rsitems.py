"""Minimal Rust source scanner: locate items by name, match braces, find loops.

This is not a parser.  It is a lexer that knows comments, string / raw string /
byte string / char literals and lifetimes, which is what is needed to match
brackets reliably and to find `fn NAME`, `struct NAME`, `enum NAME`,
`impl HEADER`, `trait NAME`, `const NAME` at a given nesting depth.

Everything here is purely positional: callers get (start, end) byte offsets
into the original text and copy the text verbatim.
"""
import re

IDENT = re.compile(r'[A-Za-z_][A-Za-z0-9_]*')


class ScanError(Exception):
    pass


def lex_mask(src):
    """Return a bytearray-like list `code` with code[i] == 1 iff src[i] is
    ordinary code (not inside a comment, string or char literal)."""
    n = len(src)
    code = bytearray(b'\x01') * n
    i = 0
    while i < n:
        c = src[i]
        if c == '/' and i + 1 < n and src[i + 1] == '/':
            j = src.find('\n', i)
            if j < 0:
                j = n
            for k in range(i, j):
                code[k] = 0
            i = j
        elif c == '/' and i + 1 < n and src[i + 1] == '*':
            depth = 1
            j = i + 2
            while j < n and depth:
                if src.startswith('/*', j):
                    depth += 1
                    j += 2
                elif src.startswith('*/', j):
                    depth -= 1
                    j += 2
                else:
                    j += 1
            for k in range(i, j):
                code[k] = 0
            i = j
        elif c == '"' or (c in 'rb' and _is_str_prefix(src, i)):
            j = _skip_string(src, i)
            for k in range(i, j):
                code[k] = 0
            i = j
        elif c == "'":
            j = _skip_char_or_lifetime(src, i)
            if j is None:
                i += 1  # lifetime: leave as code
            else:
                for k in range(i, j):
                    code[k] = 0
                i = j
        else:
            i += 1
    return code


def _is_str_prefix(src, i):
    # r"..", r#".."#, b"..", br"..", b'x'
    if i > 0 and (src[i - 1].isalnum() or src[i - 1] == '_'):
        return False
    m = re.match(r'(br|rb|r|b)(#*)"', src[i:i + 40])
    if m:
        if 'r' not in m.group(1) and m.group(2):
            return False
        return True
    return False


def _skip_string(src, i):
    m = re.match(r'(br|rb|r|b)?(#*)"', src[i:i + 40])
    prefix, hashes = m.group(1) or '', m.group(2)
    j = i + m.end()
    if 'r' in prefix:
        end = '"' + hashes
        k = src.find(end, j)
        if k < 0:
            raise ScanError('unterminated raw string')
        return k + len(end)
    n = len(src)
    while j < n:
        if src[j] == '\\':
            j += 2
        elif src[j] == '"':
            return j + 1
        else:
            j += 1
    raise ScanError('unterminated string')


def _skip_char_or_lifetime(src, i):
    # returns end offset if a char literal starts at i, else None (lifetime)
    n = len(src)
    if i + 1 >= n:
        return None
    if src[i + 1] == '\\':
        j = i + 2
        while j < n and src[j] != "'":
            j += 1
        return j + 1
    # 'x' (any single char, possibly multibyte) followed by '
    if i + 2 < n and src[i + 2] == "'":
        return i + 3
    return None


OPEN = {'(': ')', '[': ']', '{': '}'}
CLOSE = {')', ']', '}'}


def match_bracket(src, code, i):
    """src[i] is an opening bracket in code; return offset of the matching closer."""
    assert src[i] in OPEN and code[i]
    stack = [OPEN[src[i]]]
    j = i + 1
    n = len(src)
    while j < n:
        if code[j]:
            c = src[j]
            if c in OPEN:
                stack.append(OPEN[c])
            elif c in CLOSE:
                if c != stack[-1]:
                    raise ScanError('mismatched bracket at %d' % j)
                stack.pop()
                if not stack:
                    return j
        j += 1
    raise ScanError('unterminated bracket at %d' % i)


def _leading_attrs_start(src, code, kw_start, floor):
    """Walk backwards from kw_start over whitespace, visibility, qualifiers,
    attributes and doc comments, returning the offset where the item (with its
    attributes and docs) starts.  Never goes before `floor`."""
    # simplest robust approach: go back line by line while the previous line is
    # blank-free attribute / doc comment / part of a multi-line attribute.
    line_start = src.rfind('\n', floor, kw_start) + 1
    if line_start < floor:
        line_start = floor
    start = line_start
    while start > floor:
        prev_end = start - 1
        prev_start = src.rfind('\n', floor, prev_end) + 1
        if prev_start < floor:
            prev_start = floor
        line = src[prev_start:prev_end].strip()
        if line.startswith('///') or line.startswith('#[') or line.startswith('//!'):
            start = prev_start
        elif line.endswith(']') and _inside_attr(src, prev_start, floor):
            start = prev_start
        elif line.startswith('//') and False:
            start = prev_start
        else:
            break
    return start


def _inside_attr(src, pos, floor):
    # crude: multi-line #[...] attributes: look back for a '#[' without closing
    k = src.rfind('#[', floor, pos)
    if k < 0:
        return False
    seg = src[k:pos]
    return seg.count('[') > seg.count(']')


ITEM_KW = re.compile(
    r'\b(fn|struct|enum|impl|trait|const|static|mod|type|macro_rules!)(?=[\s<])')


class Item:
    def __init__(self, kind, name, start, kw, body_open, end, header):
        self.kind = kind        # fn/struct/enum/impl/trait/const/...
        self.name = name        # identifier, or normalised header for impl
        self.start = start      # including attrs/docs
        self.kw = kw            # offset of the keyword
        self.body_open = body_open  # offset of '{' (or None)
        self.end = end          # one past last char (incl. ';' or '}')
        self.header = header

    def __repr__(self):
        return 'Item(%s %s %d..%d)' % (self.kind, self.name, self.start, self.end)


def norm_ws(s):
    return re.sub(r'\s+', ' ', s).strip()


def items_in(src, code, lo, hi):
    """List items directly inside src[lo:hi] (a file, or the inside of an
    impl/trait/mod body)."""
    out = []
    i = lo
    while i < hi:
        m = ITEM_KW.search(src, i, hi)
        if not m:
            break
        k = m.start()
        if not code[k]:
            i = m.end()
            continue
        kind = m.group(1)
        # find end of header: first '{' or ';' at bracket depth 0 (angle brackets ignored)
        j = m.end()
        depth = 0
        body_open = None
        end = None
        while j < hi:
            if code[j]:
                c = src[j]
                if c in '([':
                    j = match_bracket(src, code, j)
                elif c == '{':
                    body_open = j
                    end = match_bracket(src, code, j) + 1
                    break
                elif c == ';':
                    end = j + 1
                    break
            j += 1
        if end is None:
            raise ScanError('item without end at %d' % k)
        if kind == 'const' and body_open is not None:
            # `const X: T = Foo { .. };` -- extend to ';'
            semi = end
            while semi < hi and not (code[semi] and src[semi] == ';'):
                if code[semi] and src[semi] in OPEN:
                    semi = match_bracket(src, code, semi)
                semi += 1
            # but `const fn` is a fn qualifier: handled below
        header = src[m.start():(body_open if body_open is not None else end)]
        if kind == 'const':
            m2 = re.match(r'const\s+(unsafe\s+)?fn\b', src[k:k + 40])
            if m2:
                i = k + 5
                continue
            if body_open is not None:
                end = semi + 1
                body_open = None
        if kind == 'struct' and body_open is None:
            pass
        if kind in ('fn', 'struct', 'enum', 'trait', 'const', 'static', 'mod', 'type'):
            mi = IDENT.match(src, _skip_ws(src, m.end()))
            name = mi.group(0) if mi else '?'
        elif kind == 'macro_rules!':
            mi = IDENT.match(src, _skip_ws(src, m.end()))
            name = mi.group(0) if mi else '?'
            # macro_rules! name { ... }  or ( ... );
            if body_open is None:
                pass
        else:  # impl
            name = norm_ws(header[4:])
            name = re.sub(r'^<[^>]*>\s*', '', name) if name.startswith('<') else name
        start = _leading_attrs_start(src, code, _qual_start(src, k, lo), lo)
        out.append(Item(kind, name, start, k, body_open, end, header))
        i = end
    return out


def _skip_ws(src, i):
    while i < len(src) and src[i].isspace():
        i += 1
    return i


QUALS = re.compile(r'(pub(\s*\([^)]*\))?|async|unsafe|extern(\s*"[^"]*")?|default|const)\s*$')


def _qual_start(src, k, lo):
    """Walk back over `pub(crate) const unsafe` etc. before the keyword at k."""
    while True:
        seg_start = max(lo, k - 60)
        seg = src[seg_start:k]
        m = QUALS.search(seg)
        if not m or not seg[m.start():].strip():
            return k
        nk = seg_start + m.start()
        if nk == k:
            return k
        k = nk


def find_item(src, path):
    """path: e.g. 'fn padding_needed_for', 'struct StructLayout',
    'impl StructLayout::fn new', 'impl GetLayoutInfo for Intern<Ty>::fn stride',
    'impl Ty::fn max'.  Returns (Item, parent Item or None)."""
    code = lex_mask(src)
    parts = path.split('::fn ')
    head = parts[0]
    kind, _, name = head.partition(' ')
    name = norm_ws(name)
    cands = [it for it in items_in(src, code, 0, len(src))
             if it.kind == kind and _name_eq(it, name)]
    if len(parts) == 1:
        if len(cands) != 1:
            raise ScanError('item %r: %d candidates' % (path, len(cands)))
        return cands[0], None
    fname = parts[1].strip()
    found = []
    for parent in cands:
        if parent.body_open is None:
            continue
        for it in items_in(src, code, parent.body_open + 1, parent.end - 1):
            if it.kind == 'fn' and it.name == fname:
                found.append((it, parent))
    if len(found) != 1:
        raise ScanError('item %r: %d candidates' % (path, len(found)))
    return found[0]


def _name_eq(it, name):
    if it.kind == 'impl':
        a = re.sub(r'\s+', '', it.name)
        a = re.sub(r'where.*$', '', a)
        b = re.sub(r'\s+', '', name)
        return a == b
    return it.name == name


def fn_parts(text):
    """For the text of one fn item (attrs + signature + body) return a dict of
    offsets: sig_start (the `fn` kw or qualifiers), params_close, arrow (or None),
    ret_start, ret_end, where (or None), body_open, body_close."""
    code = lex_mask(text)
    m = None
    for mm in re.finditer(r'\bfn\b', text):
        if code[mm.start()]:
            m = mm
            break
    if not m:
        raise ScanError('no fn keyword')
    j = m.end()
    # generics
    while text[j] != '(' or not code[j]:
        if text[j] == '<' and code[j]:
            j = _match_angle(text, code, j)
        j += 1
    params_open = j
    params_close = match_bracket(text, code, j)
    j = params_close + 1
    body_open = None
    arrow = None
    where = None
    k = j
    while k < len(text):
        if code[k]:
            if text.startswith('->', k) and arrow is None and where is None:
                arrow = k
                k += 2
                continue
            if text[k] in '([':
                k = match_bracket(text, code, k)
            elif text[k] == '<':
                k = _match_angle(text, code, k)
            elif text[k] == '{':
                body_open = k
                break
            elif text[k] == ';':
                break
            elif re.match(r'\bwhere\b', text[k:k + 6]) and (k == 0 or not (text[k - 1].isalnum() or text[k - 1] == '_')):
                where = k
                k += 5
                continue
        k += 1
    res = dict(fn_kw=m.start(), params_open=params_open, params_close=params_close,
               arrow=arrow, where=where, body_open=body_open,
               body_close=(match_bracket(text, code, body_open) if body_open is not None else None))
    if arrow is not None:
        rs = _skip_ws(text, arrow + 2)
        re_ = where if where is not None else (body_open if body_open is not None else k)
        while re_ > rs and text[re_ - 1].isspace():
            re_ -= 1
        res['ret_start'] = rs
        res['ret_end'] = re_
    return res


def _match_angle(text, code, i):
    depth = 0
    j = i
    while j < len(text):
        if code[j]:
            c = text[j]
            if c == '<':
                depth += 1
            elif c == '>' and text[j - 1] != '-' and text[j - 1] != '=':
                depth -= 1
                if depth == 0:
                    return j
            elif c in '([':
                j = match_bracket(text, code, j)
            elif c in '{;':
                raise ScanError('unbalanced <')
        j += 1
    raise ScanError('unbalanced <')


LOOP_KW = re.compile(r'\b(for|while|loop)\b')


def loops_in(text, lo, hi, code=None):
    """Return [(kw_offset, kind, body_open_offset)] for the loops in text[lo:hi]
    in textual order.  `for<'a>` HRTB and `impl X for Y` never occur inside fn
    bodies we handle; guarded anyway by requiring a body brace."""
    if code is None:
        code = lex_mask(text)
    out = []
    for m in LOOP_KW.finditer(text, lo, hi):
        k = m.start()
        if not code[k]:
            continue
        if k > 0 and (text[k - 1] == '.' or text[k - 1] == "'"):
            continue
        kind = m.group(1)
        j = m.end()
        if kind == 'for':
            nxt = _skip_ws(text, j)
            if text[nxt] == '<':
                continue
        body = None
        in_kw = None
        while j < hi:
            if code[j]:
                c = text[j]
                if c in '([':
                    j = match_bracket(text, code, j)
                elif c == '{':
                    body = j
                    break
                elif c == ';':
                    break
                elif kind == 'for' and in_kw is None and text.startswith('in', j) \
                        and text[j - 1].isspace() and text[j + 2].isspace():
                    in_kw = j
            j += 1
        if body is not None:
            out.append((k, kind, body, in_kw))
    return out
