"""Runner for bounded stand-ins that need the whole compiler: the `capy` binary is built from
the tree under check (cargo, offline), generated Capy programs are compiled and run with it,
and what they print is compared with what an oracle (written from the property statement)
says they must print.  Labelled *bounded* in the evidence, never counted as proved.

A unit supplies `cases(tier) -> [(name, source_text, expected_lines)]`.
"""
import os
import shutil
import subprocess
import tempfile
import time

VERIF = os.path.dirname(os.path.dirname(os.path.abspath(__file__)))


def build_capy(repo, scratch):
    """-> (path of the capy binary, None) or (None, reason)"""
    tdir = os.path.join(scratch, 'target-capy')
    if os.path.abspath(repo) == '/repo' and os.environ.get('VERIF_NO_CACHE') != '1':
        tdir = os.path.join(VERIF, '.cache', 'target-capy')
    os.makedirs(tdir, exist_ok=True)
    env = dict(os.environ, CARGO_NET_OFFLINE='true', CARGO_TARGET_DIR=tdir)
    b = subprocess.run(['cargo', 'build', '--offline', '-p', 'capy'], cwd=repo, env=env, capture_output=True, text=True)
    if b.returncode != 0:
        return None, 'the compiler does not build from this tree: %s' % b.stderr[-600:]
    exe = os.path.join(tdir, 'debug', 'capy')
    if not os.path.exists(exe):
        return None, 'no capy binary after the build'
    return exe, None


def run_program(exe, repo, name, text, timeout=180):
    """-> (status, lines) with status in ok / rejected / crashed / timeout"""
    d = tempfile.mkdtemp(prefix='capy-exec.')
    try:
        path = os.path.join(d, name + '.capy')
        with open(path, 'w') as f:
            f.write(text)
        try:
            p = subprocess.run([exe, 'run', name + '.capy', '--mod-dir', os.path.abspath(repo)], cwd=d,
                               capture_output=True, text=True, timeout=timeout)
        except subprocess.TimeoutExpired:
            return 'timeout', []
        out = p.stdout
        k = out.find('Running')
        if k < 0:
            al = (out + p.stderr).splitlines()
            import re as _re
            plain = [_re.sub(r'\x1b\[[0-9;]*m', '', ln) for ln in al]
            errs = [ln for ln in plain if ln.startswith('error')][:20]
            return ('rejected' if errs or 'error' in (out + p.stderr).lower() else 'crashed'), errs + plain[-12:]
        body = out[k:].split('\n', 1)[1] if '\n' in out[k:] else ''
        lines = [ln for ln in body.splitlines()]
        # the trailer `Process exited with ...`
        end = None
        for i in range(len(lines) - 1, -1, -1):
            if lines[i].startswith('Process exited with'):
                end = i
                break
        status = 'ok'
        if end is not None:
            if 'exit status: 0' not in lines[end]:
                status = 'crashed'
            lines = lines[:end]
        lines = [ln for ln in lines if ln.strip() != '']
        return status, lines
    finally:
        shutil.rmtree(d, ignore_errors=True)


def run_cases(unit, prop, repo, scratch, tier, cases, function, what, bound, rejection_violates=None):
    t0 = time.time()
    r = dict(unit=unit.name, kind='bounded', status='ok', undecided=[], failures=[], per_fn=[], samples=[],
             obligations=0, discharged=0, assumption_texts=[], bounded=[], wall_s=0.0)
    exe, why = build_capy(repo, scratch)
    if exe is None:
        r['status'] = 'undecided'
        r['undecided'].append(why)
        return r
    n_cases = 0
    n_checks = 0
    bad = None
    for name, text, expected in cases:
        n_cases += 1
        status, lines = run_program(exe, repo, name, text)
        if status == 'rejected' and rejection_violates is not None and rejection_violates(lines):
            # the property itself demands that this program is accepted (the unit says which
            # diagnostics count): the rejection is the violation
            r['status'] = 'fail'
            r['wall_s'] = time.time() - t0
            r['bounded'].append(dict(unit=unit.name, function=function, bound=bound, summary=dict(programs=n_cases), backend='the real compiler built from the tree'))
            r['failures'].append(dict(unit=unit.name, function=function, kind='bounded-check', clause=what, site=None,
                                      id='%s::%s::bounded-check' % (unit.name, function), primary=None, secondary=[],
                                      message='bounded check failed', rendered='program %s is rejected: %s' % (name, ' | '.join(lines)[-600:]),
                                      witness=dict(kind='concrete-input', input='program %s (rejected)' % name, program=text, output=lines,
                                                   cmd='capy run %s.capy --mod-dir <tree>' % name,
                                                   note='a program the property requires to be accepted is rejected by the compiler built from the tree')))
            return r
        if status in ('rejected', 'timeout') or (status == 'crashed' and not lines):
            # the generated program is not accepted (or the compiler crashed): the stand-in
            # cannot decide with it -- never an alarm
            r['status'] = 'undecided'
            r['undecided'].append('program %s: %s: %s' % (name, status, ' | '.join(lines)[-400:]))
            r['wall_s'] = time.time() - t0
            return r
        n_checks += len(expected)
        if lines != expected and bad is None:
            k = 0
            while k < min(len(lines), len(expected)) and lines[k] == expected[k]:
                k += 1
            # the section the first difference falls into (sections start with `# <id>`)
            sec = ''
            for ln in expected[:k + 1][::-1]:
                if ln.startswith('# '):
                    sec = ln[2:]
                    break
            bad = dict(program=name, section=sec, at_line=k, expected=expected[max(0, k - 3):k + 4], printed=lines[max(0, k - 3):k + 4], text=text)
    summ = dict(programs=n_cases, lines=n_checks)
    r['checker_cmd'] = 'cargo build --offline -p capy (tree %s) ; capy run <generated program> for %d programs' % (repo, n_cases)
    r['bounded'].append(dict(unit=unit.name, function=function, bound=bound, summary=summ, backend='the real compiler built from the tree, generated programs executed, oracle from the property statement'))
    r['samples'].append(dict(bounded_check=function, summary=summ))
    r['wall_s'] = time.time() - t0
    if bad:
        r['status'] = 'fail'
        r['failures'].append(dict(unit=unit.name, function=function, kind='bounded-check', clause=what, site=None,
                                  id='%s::%s::bounded-check' % (unit.name, function), primary=None, secondary=[],
                                  message='bounded check failed', rendered='section %s: expected %r, printed %r' % (bad['section'], bad['expected'], bad['printed']),
                                  witness=dict(kind='concrete-input', input='section %s of program %s' % (bad['section'], bad['program']),
                                               program=bad['text'], expected=bad['expected'], printed=bad['printed'],
                                               cmd='capy run %s.capy --mod-dir <tree>' % bad['program'],
                                               note='failing program found by running the real compiler built from the tree')))
    return r


def build_program(exe, repo, name, text, workdir, timeout=300):
    """compile one program with `capy build`; -> path of the binary or (None, output)"""
    path = os.path.join(workdir, name + '.capy')
    with open(path, 'w') as f:
        f.write(text)
    p = subprocess.run([exe, 'build', name + '.capy', '--mod-dir', os.path.abspath(repo)], cwd=workdir, capture_output=True, text=True, timeout=timeout)
    binp = os.path.join(workdir, 'out', name)
    if not os.path.exists(binp):
        return None, (p.stdout + p.stderr)[-600:]
    return binp, None


def run_arg_cases(unit, prop, repo, scratch, tier, name, text, runs, function, what, bound):
    """One program compiled once and run once per entry of `runs` = [(n_extra_args, judge, label)];
    judge(exit_code, lines) -> None when the run is what the property demands, else a text."""
    t0 = time.time()
    r = dict(unit=unit.name, kind='bounded', status='ok', undecided=[], failures=[], per_fn=[], samples=[],
             obligations=0, discharged=0, assumption_texts=[], bounded=[], wall_s=0.0)
    exe, why = build_capy(repo, scratch)
    if exe is None:
        r['status'] = 'undecided'
        r['undecided'].append(why)
        return r
    d = tempfile.mkdtemp(prefix='capy-exec.')
    try:
        binp, why = build_program(exe, repo, name, text, d)
        if binp is None:
            r['status'] = 'undecided'
            r['undecided'].append('program %s is not accepted: %s' % (name, why))
            return r
        bad = None
        for nargs, judge, label in runs:
            try:
                p = subprocess.run([binp] + ['x'] * nargs, cwd=d, capture_output=True, text=True, timeout=60)
                code, lines = p.returncode, [ln for ln in (p.stdout + p.stderr).splitlines() if ln.strip()]
            except subprocess.TimeoutExpired:
                code, lines = -999, ['<timeout>']
            verdict = judge(code, lines)
            if verdict is not None and bad is None:
                bad = dict(label=label, nargs=nargs, verdict=verdict, code=code, lines=lines[:12])
    finally:
        shutil.rmtree(d, ignore_errors=True)
    summ = dict(runs=len(runs))
    r['checker_cmd'] = 'cargo build --offline -p capy (tree %s) ; capy build %s.capy ; the binary run %d times' % (repo, name, len(runs))
    r['bounded'].append(dict(unit=unit.name, function=function, bound=bound, summary=summ, backend='the real compiler built from the tree, one generated program executed once per case'))
    r['samples'].append(dict(bounded_check=function, summary=summ))
    r['wall_s'] = time.time() - t0
    if bad:
        r['status'] = 'fail'
        r['failures'].append(dict(unit=unit.name, function=function, kind='bounded-check', clause=what, site=None,
                                  id='%s::%s::bounded-check' % (unit.name, function), primary=None, secondary=[],
                                  message='bounded check failed', rendered='%s: %s (exit %s, output %r)' % (bad['label'], bad['verdict'], bad['code'], bad['lines']),
                                  witness=dict(kind='concrete-input', input=bad['label'], program=text, args=bad['nargs'], exit_code=bad['code'], output=bad['lines'],
                                               cmd='capy build %s.capy --mod-dir <tree> ; out/%s %s' % (name, name, ' '.join(['x'] * bad['nargs'])),
                                               note='failing run found by executing the program compiled by the real compiler')))
    return r
