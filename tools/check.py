#!/usr/bin/env python3
"""./check <PROPERTY> [--tier quick|thorough] [--repo /repo] [--keep] [--replay FILE]

Exit 0: every obligation of every unit serving the property was discharged (known
        findings excepted, each printed as a KNOWN-FINDING line).
Exit 1: at least one expected obligation failed for a semantic reason; one line
        `VIOLATION property=<id> replay=<path>` per failed obligation.
Exit 2: undecided (lost anchor, unsupported construct, resource limit, vacuous contract).
"""
import argparse
import importlib.util
import json
import os
import re
import shutil
import sys
import tempfile
import time

HERE = os.path.dirname(os.path.abspath(__file__))
VERIF = os.path.dirname(HERE)
sys.path.insert(0, VERIF)

from tools import unitapi, verus_run, rsitems  # noqa: E402
from tools.unitapi import ExtractError  # noqa: E402


def load_units():
    units = []
    base = os.path.join(VERIF, 'units')
    for name in sorted(os.listdir(base)):
        p = os.path.join(base, name, 'unit.py')
        if not os.path.exists(p):
            continue
        mod = unitapi.sibling(name)
        for u in getattr(mod, 'UNITS', [getattr(mod, 'UNIT', None)]):
            if u is not None:
                u.module = mod
                units.append(u)
    return units


def norm(s):
    return re.sub(r'\s+', ' ', s or '').strip()


def add_canaries(unit, gen_text, linemap):
    """Replace the /*@BODY:key*/ and /*@LOOP:key:n*/ markers the extractor left at the start
    of every extracted function body and loop body by `assert(false);` (for the functions
    expected to verify).  Returns the new text and the list of canaries."""
    inserts = []

    def rep(m):
        key = m.group(2)
        if key not in unit.expected:
            return m.group(0)
        what = 'entry' if m.group(1) == 'BODY' else 'loop' + (m.group(3) or '')
        inserts.append((m.start(), key, what))
        return ' assert(false); /*CANARY %s %s*/ ' % (key, what)
    out = re.sub(r'/\*@(BODY|LOOP):([A-Za-z0-9_.]+)(:\d+)?\*/', rep, gen_text)
    return out, inserts


def _fix_loop_canary(text):
    return text


ASSUME_RX = re.compile(r'\b(assume\s*\(|admit\s*\(|external_body|assume_specification|verifier::external\b|external_fn_specification|external_type_specification)')


def scan_assumptions(gen_text, linemap):
    """Every assume/admit/external_body in the generated file, by origin."""
    found = []
    code = rsitems.lex_mask(gen_text)
    lines = gen_text.split('\n')
    pos = 0
    for i, ln in enumerate(lines):
        for m in ASSUME_RX.finditer(ln):
            if not code[pos + m.start()]:
                continue
            origin, oline, tag = linemap[i] if i < len(linemap) else (None, 0, None)
            # name: next `fn NAME` at or after this line
            name = None
            for j in range(i, min(i + 6, len(lines))):
                mm = re.search(r'\bfn\s+([A-Za-z_0-9]+)', lines[j])
                if mm:
                    name = mm.group(1)
                    break
                mm = re.search(r'assume_specification.*\[\s*([^\]]+)\]', lines[j])
                if mm:
                    name = norm(mm.group(1))
                    break
            what = m.group(1).rstrip('( ')
            if '/*@CASE_CUT*/' in ln:
                what = 'case-split-cut'      # assume(false) in a copy whose arm is proved in a sibling copy
            found.append(dict(what=what, tag=tag, origin=origin, line=oline, name=name))
        pos += len(ln) + 1
    return found


def attribute(fail, linemap, repo, gen_lines=None):
    """Attach unit function key + source location to a failure from verus_run."""
    def loc(span):
        if not span:
            return None
        i = span['line_start'] - 1
        if 0 <= i < len(linemap):
            origin, oline, tag = linemap[i]
        else:
            origin, oline, tag = None, 0, None
        if tag and tag.startswith(('spec:', 'shim:')) and gen_lines is not None:
            # a lemma / ghost function of a spec file: name it by its enclosing `fn`
            j = min(i, len(gen_lines) - 1)
            while j >= 0:
                mm = re.search(r'\bfn\s+([A-Za-z_0-9]+)', gen_lines[j])
                if mm and linemap[j][2] == tag:
                    tag = mm.group(1)
                    break
                j -= 1
        if origin is None:
            # spliced line inside an item: walk to the nearest original line above
            j = i
            while j >= 0 and linemap[j][0] is None and linemap[j][2] == tag:
                j -= 1
            near = linemap[j] if j >= 0 else (None, 0, None)
            return dict(tag=tag, spliced=True, near_file=_rel(near[0], repo), near_line=near[1],
                        text=norm(span['text']), gen_line=span['line_start'])
        return dict(tag=tag, spliced=False, file=_rel(origin, repo), line=oline,
                    text=norm(span['text']), gen_line=span['line_start'])
    p = loc(fail['primary'])
    secs = [loc(s) for s in fail['secondary']]
    kind = fail['kind']
    fn = p['tag'] if p else None
    clause = None
    site = None
    if kind == 'postcondition':
        clause = p['text'] if p else None
        for s, raw in zip(secs, fail['secondary']):
            if raw.get('label') and 'exit' in raw['label'] or 'end of the function' in (raw.get('label') or ''):
                site = s['text'][:160]
                if s.get('tag'):
                    fn = s['tag']
    elif kind == 'precondition-at-call':
        site = p['text'][:160] if p else None
        for s, raw in zip(secs, fail['secondary']):
            if raw.get('label') and 'precondition' in raw['label']:
                clause = s['text']
    else:
        clause = p['text'] if p else None
        site = None
    return dict(function=fn, kind=kind, clause=clause, site=site, primary=p, secondary=secs,
                message=fail['message'], rendered=fail['rendered'])


def _rel(path, repo):
    if path is None:
        return None
    for base in (repo, VERIF):
        if path.startswith(base.rstrip('/') + '/'):
            return ('' if base == repo else '/verif/') + os.path.relpath(path, base)
    return path


def load_known():
    p = os.path.join(VERIF, 'known_findings.json')
    if not os.path.exists(p):
        return dict(findings=[], fixed=[])
    with open(p) as f:
        return json.load(f)


def matches_known(prop, unit, ob, known):
    for k in known.get('findings', []):
        if k.get('property') != prop or k.get('unit') != unit.name:
            continue
        if k.get('function') != ob['function'] or k.get('kind') != ob['kind']:
            continue
        if norm(k.get('clause')) != norm(ob['clause']):
            continue
        if 'site' in k and norm(k.get('site')) != norm(ob['site']):
            continue
        return k
    return None


def run_unit(unit, prop, repo, scratch, tier, keep):
    """Returns dict(status, obligations..., failures, ...).  status in ok/fail/undecided."""
    r = dict(unit=unit.name, status='ok', undecided=[], failures=[], functions=[], rewrites=[],
             assumptions=[], canary={}, wall_s=0.0, smt_ms=0, verified=0, errors=0)
    t0 = time.time()
    try:
        gen, linemap, log, items = unit.generate(repo)
    except ExtractError as e:
        r['status'] = 'undecided'
        r['undecided'].append('extraction: %s' % e)
        return r
    r['rewrites'] = log
    r['items'] = items
    d = os.path.join(scratch, unit.name)
    os.makedirs(d, exist_ok=True)
    path = os.path.join(d, unit.name + '.rs')
    with open(path, 'w') as f:
        f.write(gen)
    r['generated'] = path
    r['generated_lines'] = gen.count('\n')
    res = verus_run.run(path, rlimit=unit.rlimit, extra=unit.extra_verus_args)
    r['retries'] = []
    if not res['tool_errors'] and res['resource'] and not res['failures']:
        # the solver gave up somewhere and reported no failed obligation: that decides
        # nothing.  Ask again a few times with other solver settings; a run in which every
        # obligation is discharged is a proof, a run that names a failed obligation is a
        # refutation attempt the report can use, anything else stays undecided.
        ladder = [dict(rlimit=unit.rlimit * 3, multiple_errors=1, extra=[]),
                  dict(rlimit=unit.rlimit * 3, multiple_errors=1, extra=['--smt-option', 'smt.random_seed=1', '--smt-option', 'sat.random_seed=1']),
                  dict(rlimit=unit.rlimit * 3, multiple_errors=1, extra=['--smt-option', 'smt.random_seed=2', '--smt-option', 'sat.random_seed=2'])]
        for cfg in ladder:
            res2 = verus_run.run(path, rlimit=cfg['rlimit'], extra=list(unit.extra_verus_args) + cfg['extra'],
                                 multiple_errors=cfg['multiple_errors'])
            outcome = ('tool-error' if res2['tool_errors'] else 'failed-obligation' if res2['failures']
                       else 'resource-limit' if res2['resource'] else 'all-discharged')
            r['retries'].append(dict(cmd=res2['cmd'], outcome=outcome, wall_s=round(res2['wall_s'], 1)))
            if outcome in ('failed-obligation', 'all-discharged'):
                res = res2
                if outcome == 'failed-obligation':
                    res['resource'] = []      # the named obligation is what is reported
                break
    r['checker_cmd'] = res['cmd']
    r['verus_version'] = res.get('verus_version')
    r['wall_s'] = res['wall_s']
    r['smt_ms'] = res.get('smt_ms', 0)
    r['verified'] = res.get('verified', 0)
    r['errors'] = res.get('errors', 0)
    r['function_results'] = res.get('functions', {})
    if res['tool_errors']:
        r['status'] = 'undecided'
        r['undecided'] += ['verus front end: ' + e for e in res['tool_errors'][:8]]
        r['raw'] = res.get('raw_stderr', '')[-6000:]
        return r
    if res['resource']:
        r['status'] = 'undecided'
        r['undecided'] += ['resource limit: ' + e for e in res['resource'][:8]]
    gen_lines = gen.split('\n')
    obs = [attribute(f, linemap, repo, gen_lines) for f in res['failures']]
    for ob in obs:
        ob['unit'] = unit.name
        ob['id'] = '%s::%s::%s' % (unit.name, ob['function'], ob['kind'])
    r['failures'] = obs
    # expected functions must have been seen by the verifier (vacuity guard a)
    seen = set(k.split('::')[-1] for k in r['function_results'])
    missing = [k for k in unit.expected if k.split('.')[-1] not in seen]
    if missing and not obs:
        r['status'] = 'undecided'
        r['undecided'].append('expected functions not seen by the verifier: %s' % missing)
    # obligations that failed in functions that are not expected to verify are "undecided"
    unexpected = [ob for ob in obs if ob['function'] not in unit.expected]
    if unexpected:
        r['status'] = 'undecided'
        r['undecided'] += ['failed obligation outside the expected set: %s (%s)' % (ob['id'], ob['clause']) for ob in unexpected]
    if [ob for ob in obs if ob['function'] in unit.expected]:
        r['status'] = 'fail'
    # assumption scan (vacuity guard c)
    r['assumptions'] = scan_assumptions(gen, linemap)
    bad = [a for a in r['assumptions'] if not (a['tag'] or '').startswith(('shim:', 'spec:')) and a['what'] in ('assume', 'admit')]
    if bad:
        r['status'] = 'undecided'
        r['undecided'].append('assume/admit outside shims: %s' % bad)
    # canary (vacuity guard b): only meaningful when the real run is green
    if r['status'] in ('ok', 'fail') and not r['undecided']:
        cgen, inserts = add_canaries(unit, gen, linemap)
        cpath = os.path.join(d, unit.name + '_canary.rs')
        with open(cpath, 'w') as f:
            f.write(cgen)
        cres = verus_run.run(cpath, rlimit=unit.rlimit, extra=unit.extra_verus_args, multiple_errors=50)
        fired = {}
        for f_ in cres['failures']:
            if f_['kind'] == 'assertion' and f_['primary'] and 'assert(false)' in f_['primary']['text']:
                m = re.search(r'/\*CANARY (\S+) (\S+)\*/', f_['primary']['text'])
                if m:
                    fired.setdefault(m.group(1), set()).add(m.group(2))
        want = {}
        for off, key, what in inserts:
            want.setdefault(key, set()).add(what)
        vac = []
        for key, whats in want.items():
            if key in unit.canary_exempt:
                continue
            if 'entry' not in fired.get(key, set()):
                vac.append(key)
        r['canary'] = dict(inserted=len(inserts), functions=len(want),
                           fired=sum(len(v) for v in fired.values()),
                           vacuous=vac, wall_s=cres['wall_s'],
                           tool_errors=cres['tool_errors'][:3])
        if cres['tool_errors']:
            r['status'] = 'undecided'
            r['undecided'].append('canary run failed in the front end: %s' % cres['tool_errors'][:3])
        elif vac:
            r['status'] = 'undecided'
            r['undecided'].append('vacuous contract (assert(false) at entry was provable) in: %s' % vac)
        r['wall_s'] += cres['wall_s']
    r['total_wall_s'] = time.time() - t0
    return r


def main():
    ap = argparse.ArgumentParser()
    ap.add_argument('property')
    ap.add_argument('--tier', default=os.environ.get('VERIF_TIER', 'quick'))
    ap.add_argument('--repo', default=os.environ.get('VERIF_REPO', '/repo'))
    ap.add_argument('--keep', action='store_true')
    ap.add_argument('--replay')
    ap.add_argument('--unit', action='append')
    ap.add_argument('--no-evidence', action='store_true')
    args = ap.parse_args()
    prop = args.property
    if args.replay:
        with open(args.replay) as f:
            rp = json.load(f)
        print(json.dumps(rp, indent=1)[:4000])
        wit = rp.get('witness')
        if wit and wit.get('cmd'):
            print('re-running witness: %s' % wit['cmd'])
            rc = os.system(wit['cmd'])
            sys.exit(1 if rc else 0)
        sys.exit(0)
    seed = int(os.environ.get('VERIF_SEED', '0') or 0)
    t0 = time.time()
    units = [u for u in load_units() if prop in u.props]
    if args.unit:
        units = [u for u in units if u.name in args.unit]
    if not units:
        print('no unit serves %s' % prop)
        sys.exit(2)
    known = load_known()
    scratch = tempfile.mkdtemp(prefix='capy-verif.')
    results = []
    try:
        for u in units:
            if getattr(u, 'tier', 'quick') == 'thorough' and args.tier != 'thorough':
                continue
            runner = getattr(u, 'runner', None)
            if runner is not None:
                results.append(runner(u, prop, args.repo, scratch, args.tier))
            else:
                results.append(run_unit(u, prop, args.repo, scratch, args.tier, args.keep))
        rc = report(prop, args, units, results, known, seed, t0, scratch)
    finally:
        if args.keep:
            print('scratch kept at %s' % scratch)
        else:
            shutil.rmtree(scratch, ignore_errors=True)
    sys.exit(rc)


def report(prop, args, units, results, known, seed, t0, scratch):
    unit_by_name = {u.name: u for u in units}
    violations, knowns, undecided = [], [], []
    rdir = os.environ.get('VERIF_REPLAY_DIR') or os.path.join(VERIF, 'replays')
    os.makedirs(rdir, exist_ok=True)
    for r in results:
        u = unit_by_name[r['unit']]
        for msg in r['undecided']:
            undecided.append('%s: %s' % (r['unit'], msg))
        for ob in r['failures']:
            if ob['function'] not in u.expected:
                continue
            if prop not in getattr(u, 'fn_props', {}).get(ob['function'], u.props):
                # the unit serves several properties; this function carries another one
                print('NOTE property=%s obligation %s failed but belongs to %s' % (
                    prop, ob['id'], ','.join(u.fn_props[ob['function']])))
                continue
            k = matches_known(prop, u, ob, known)
            if k:
                knowns.append((ob, k))
                continue
            violations.append((u, ob, r))
    # witness search + replay files
    out_lines = []
    wit_cache = {}
    for u, ob, r in violations:
        wit = None
        finder = getattr(u.module, 'find_witness', None)
        ck = (u.name, ob['function'])
        if ob.get('witness'):
            wit = ob['witness']       # bounded checks carry their failing input
        elif ck in wit_cache:
            wit = wit_cache[ck]
        elif finder:
            try:
                wit = finder(u, ob, args.repo, scratch)
            except Exception as e:  # witness search is best effort
                wit = None
                ob['witness_error'] = repr(e)
            wit_cache[ck] = wit
        name = re.sub(r'[^A-Za-z0-9_.-]+', '_', '%s-%s-%s' % (prop, ob['id'], (ob['clause'] or '')[:40]))
        rpath = os.path.join(rdir, name + '.json')
        with open(rpath, 'w') as f:
            json.dump(dict(property=prop, obligation=ob['id'], unit=u.name, function=ob['function'],
                           kind=ob['kind'], clause=ob['clause'], site=ob['site'],
                           source=ob['primary'], secondary=ob['secondary'],
                           verifier_output=ob['rendered'], checker_cmd=r.get('checker_cmd'),
                           witness=wit,
                           note=None if wit else 'no failing input found by the concretiser; the obligation was discharged on the pinned tree and fails on this one'),
                      f, indent=1)
        line = 'VIOLATION property=%s replay=%s obligation=%s' % (prop, rpath, ob['id'])
        if not wit:
            line += ' no-failing-input-found'
        if line not in out_lines:      # the same obligation can fail at several exits
            out_lines.append(line)
    for ob, k in knowns:
        print('KNOWN-FINDING: property=%s %s %s' % (prop, ob['id'], k.get('what', '')))
    for line in out_lines:
        print(line)
    for msg in undecided:
        print('UNDECIDED property=%s %s' % (prop, msg))
    # evidence
    if not args.no_evidence:
        write_evidence(prop, args, units, results, violations, knowns, undecided, seed, t0)
    if violations:
        return 1
    if undecided:
        return 2
    tot = sum(r.get('verified', 0) for r in results)
    print('OK property=%s units=%s obligations=%d wall=%.1fs' % (prop, ','.join(r['unit'] for r in results), tot, time.time() - t0))
    return 0


GLOBAL_TRUST = [
    'Verus 0.2026.09.13 + Z3 (verifier and solver soundness), rustc front end',
    'extraction rewrites R1-R8 listed under coverage.rewrites (each pattern must match an exact number of times)',
]


def write_evidence(prop, args, units, results, violations, knowns, undecided, seed, t0):
    obligations = 0
    discharged = 0
    per_fn = []
    rewrites = []
    assumptions = []
    functions = []
    samples = []
    smt_ms = 0
    cmds = []
    bounded = []
    for r in results:
        if r.get('kind') in ('kani', 'bounded'):
            obligations += r.get('obligations', 0)
            discharged += r.get('discharged', 0)
            per_fn += r.get('per_fn', [])
            cmds.append(r.get('checker_cmd', ''))
            assumptions += r.get('assumption_texts', [])
            samples += r.get('samples', [])
            bounded += r.get('bounded', [])
            continue
        u = [x for x in units if x.name == r['unit']][0]
        fr = r.get('function_results', {})
        failed_fns = set(ob['function'] for ob in r['failures'])
        n_ok = r.get('verified', 0)
        n_err = r.get('errors', 0)
        # functions whose every failed obligation is a listed known finding are reported
        # separately (coverage.known_findings), not as obligations claimed to hold
        known_fns = set(ob['function'] for ob, k in knowns if ob.get('unit') == r['unit'])
        other_failed = set(ob['function'] for ob in r['failures']) - known_fns
        n_known = min(n_err, len(known_fns - other_failed))
        obligations += n_ok + n_err - n_known
        discharged += n_ok
        smt_ms += r.get('smt_ms', 0)
        cmds.append(r.get('checker_cmd', ''))
        for it in r.get('items', []):
            if prop not in getattr(u, 'fn_props', {}).get(it['key'], u.props):
                continue
            if (it.get('contract') or it.get('lifted')) and not it.get('stub_of'):
                functions.append(dict(unit=r['unit'], function=it['key'], file=it['file'],
                                      lines=[it['line_start'], it['line_end']], sha256=it['sha256'],
                                      lifted=it.get('lifted'),
                                      proved=(it['key'] in u.expected and it['key'] not in failed_fns and r['status'] in ('ok',))))
        for name, d in sorted(fr.items()):
            per_fn.append(dict(unit=r['unit'], query=name, backend='verus/z3', ok=d['success'],
                               smt_us=d['time_us'], rlimit=d['rlimit'], mode=d.get('mode')))
        for lg in r.get('rewrites', []):
            rewrites.append(dict(unit=r['unit'], **{k: v for k, v in lg.items() if k in ('rule', 'where', 'matches', 'why', 'pattern')}))
        seen = set()
        for a in r.get('assumptions', []):
            key = (a['what'], a['tag'], a['name'])
            if key in seen:
                continue
            seen.add(key)
            assumptions.append('%s: %s %s (%s)' % (r['unit'], a['what'], a['name'] or '?', a['tag']))
        assumptions += ['%s: %s' % (r['unit'], t) for t in u.trusted]
        if r.get('canary'):
            samples.append(dict(unit=r['unit'], canary=r['canary']))
        for ob in r['failures'][:5]:
            samples.append(dict(failed_obligation=ob['id'], clause=ob['clause'], site=ob['site']))
    proved_fns = [f for f in functions if f['proved']]
    for f in proved_fns[:6]:
        samples.append(dict(obligation='%s::%s' % (f['unit'], f['function']), file=f['file'], lines=f['lines'], status='discharged'))
    ev = dict(
        property_id=prop, tier=args.tier if args.tier in ('quick', 'thorough') else 'quick', seed=seed,
        level='proof',
        coverage=dict(
            obligations=obligations, discharged=discharged,
            checker_cmd=' ; '.join(c for c in cmds if c),
            trusted_base=GLOBAL_TRUST + sorted(set(assumptions)),
            functions_under_contract=functions,
            functions_proved=len(proved_fns),
            queries=per_fn,
            solver_time_ms=smt_ms,
            rewrites=rewrites,
            bounded=bounded,
            units=[dict(unit=r['unit'], status=r['status'], verified=r.get('verified'), errors=r.get('errors'),
                        canary=r.get('canary'), wall_s=round(r.get('wall_s', 0), 2), retries=r.get('retries', [])) for r in results],
            known_findings=[dict(obligation=ob['id'], clause=ob['clause'], what=k.get('what')) for ob, k in knowns],
            undecided=undecided,
            samples=samples or [dict(note='no samples')],
            explanation='obligations = proof queries Verus generated for the unit files (one per exec/proof/spec-termination function and loop); discharged = those Z3 proved',
        ),
        assumptions=GLOBAL_TRUST + sorted(set(assumptions)),
        wall_s=round(time.time() - t0, 2),
        violations=len(violations),
    )
    if obligations == 0:
        ev['level'] = 'other'
        ev['coverage']['explanation'] = 'no obligations were generated (undecided run): ' + '; '.join(undecided)[:500]
    os.makedirs(os.path.join(VERIF, 'evidence'), exist_ok=True)
    with open(os.path.join(VERIF, 'evidence', prop + '.json'), 'w') as f:
        json.dump(ev, f, indent=1)


if __name__ == '__main__':
    main()
