"""Bounded stand-in on real text: named items of one /repo file, plus every function of that
file they (transitively) call, are copied verbatim into a single Rust file together with a
driver `main` from /verif/drivers and compiled by the ordinary toolchain (rustc, std only).
Used where a refactoring takes a function out of the Verus dialect: the proof becomes
undecided, the bounded check still decides (labelled bounded)."""
import os
import re
import subprocess
import time

from . import rsitems

VERIF = os.path.dirname(os.path.dirname(os.path.abspath(__file__)))


def collect(src, roots):
    code = rsitems.lex_mask(src)
    top = rsitems.items_in(src, code, 0, len(src))
    by_name = {}
    for it in top:
        by_name.setdefault((it.kind, it.name), it)
    fns = {it.name: it for it in top if it.kind == 'fn'}
    chosen = []
    seen = set()
    work = list(roots)
    while work:
        kind, name = work.pop()
        if (kind, name) in seen:
            continue
        seen.add((kind, name))
        cands = [it for it in top if it.kind == kind and (it.name == name or (kind == 'impl' and it.name.replace(' ', '') == name.replace(' ', '')))]
        if not cands:
            raise KeyError('%s %s' % (kind, name))
        for it in cands:
            chosen.append(it)
            text = src[it.start:it.end]
            for m in re.finditer(r'\b([a-z_][a-z0-9_]*)\s*\(', text):
                if m.group(1) in fns and ('fn', m.group(1)) not in seen:
                    work.append(('fn', m.group(1)))
    chosen.sort(key=lambda it: it.start)
    return chosen


def run(unit, prop, repo, scratch, tier, file, roots, prelude, driver_main, args_quick, args_thorough, function, what):
    t0 = time.time()
    r = dict(unit=unit.name, kind='bounded', status='ok', undecided=[], failures=[], per_fn=[], samples=[],
             obligations=0, discharged=0, assumption_texts=[], bounded=[], wall_s=0.0)
    try:
        with open(os.path.join(repo, file)) as f:
            src = f.read()
        items = collect(src, roots)
    except (OSError, KeyError, rsitems.ScanError) as e:
        r['status'] = 'undecided'
        r['undecided'].append('text driver: anchor lost: %s' % e)
        return r
    d = os.path.join(scratch, 'textdriver_' + unit.name)
    os.makedirs(d, exist_ok=True)
    with open(os.path.join(VERIF, 'drivers', driver_main)) as f:
        main = f.read()
    body = prelude + '\n' + '\n\n'.join(src[it.start:it.end] for it in items) + '\n\n' + main
    path = os.path.join(d, 'driver.rs')
    with open(path, 'w') as f:
        f.write('#![allow(dead_code, unused)]\n' + body)
    exe = os.path.join(d, 'driver')
    b = subprocess.run(['rustc', '--edition', '2021', '-O', '-o', exe, path], capture_output=True, text=True)
    if b.returncode != 0:
        r['status'] = 'undecided'
        r['undecided'].append('text driver does not compile against this tree: %s' % b.stderr[-600:])
        return r
    args = args_thorough if tier == 'thorough' else args_quick
    p = subprocess.run([exe] + [str(a) for a in args], capture_output=True, text=True, timeout=1200)
    out = p.stdout
    m = re.search(r'SUMMARY (.*)', out)
    summ = dict(kv.split('=') for kv in m.group(1).split()) if m else {}
    r['checker_cmd'] = 'rustc -O driver.rs (real text of %s: %s + drivers/%s) ; driver %s' % (
        file, ', '.join(it.kind + ' ' + it.name for it in items), driver_main, ' '.join(str(a) for a in args))
    r['bounded'].append(dict(unit=unit.name, function=function, bound=what, summary=summ,
                             items=[it.kind + ' ' + it.name for it in items],
                             backend='concrete exhaustive enumeration (rustc, real function text)'))
    r['samples'].append(dict(bounded_check=function, summary=summ))
    r['wall_s'] = time.time() - t0
    mm = re.search(r'MISMATCH (.*)', out)
    if mm:
        r['status'] = 'fail'
        r['failures'].append(dict(unit=unit.name, function=function, kind='bounded-check', clause=what, site=None,
                                  id='%s::%s::bounded-check' % (unit.name, function), primary=None, secondary=[],
                                  message='bounded check failed', rendered=out[-1500:],
                                  witness=dict(kind='concrete-input', input=mm.group(1),
                                               note='failing input found on the real function text by exhaustive enumeration')))
    elif p.returncode != 0 or not m:
        r['status'] = 'undecided'
        r['undecided'].append('text driver exited %d without a summary: %s' % (p.returncode, (out + p.stderr)[-400:]))
    return r
