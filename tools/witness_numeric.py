"""Concretiser for unit `numeric` (C08/C09): search a boundary grid for an input on which the
REAL compiler (built from the tree under check) disagrees with a big-integer oracle of the
property text.  Used to attach a replayable witness to a failed obligation, and (thorough
tier) as an empirical cross-check of the Cranelift shim.

The generated program prints one number per line; floats are printed as IEEE bit patterns
(core.mem.f32_to_bits / f64_to_bits) so that the float formatter plays no part.
"""
import os
import struct
import subprocess
from fractions import Fraction

INTS = [('i8', 8, True), ('i16', 16, True), ('i32', 32, True), ('i64', 64, True),
        ('u8', 8, False), ('u16', 16, False), ('u32', 32, False), ('u64', 64, False)]
FLOATS = [('f32', 32), ('f64', 64)]


def grid(bits, signed):
    if signed:
        lo, hi = -(1 << (bits - 1)), (1 << (bits - 1)) - 1
    else:
        lo, hi = 0, (1 << bits) - 1
    vals = {0, 1, lo, hi, lo + 1, hi - 1, hi // 2, hi // 2 + 1}
    if signed:
        vals |= {-1, -2}
    for k in (7, 8, 15, 16, 23, 24, 31, 32, 52, 53, 62, 63):
        for d in (-1, 0, 1):
            v = (1 << k) + d
            if lo <= v <= hi:
                vals.add(v)
            if signed and lo <= -v <= hi:
                vals.add(-v)
    return sorted(vals)


def wrap(v, bits, signed):
    v &= (1 << bits) - 1
    if signed and v >= 1 << (bits - 1):
        v -= 1 << bits
    return v


def round_to_float_bits(v, fbits):
    """bit pattern of the float nearest to integer v (round to nearest, ties to even)"""
    if fbits == 64:
        return struct.unpack('<Q', struct.pack('<d', float(v)))[0]  # Python int->float is correctly rounded
    # f32: exact rounding by hand
    if v == 0:
        return 0
    sign = 0x80000000 if v < 0 else 0
    a = abs(v)
    e = a.bit_length() - 1
    if e <= 23:
        mant = a << (23 - e)
    else:
        shift = e - 23
        mant = a >> shift
        rem = a & ((1 << shift) - 1)
        half = 1 << (shift - 1)
        if rem > half or (rem == half and (mant & 1)):
            mant += 1
            if mant == 1 << 24:
                mant >>= 1
                e += 1
    return sign | ((e + 127) << 23) | (mant & 0x7fffff)


BITS = {n: b for n, b, _ in INTS}


def lit(v, name, signed):
    """a capy expression of integer type `name` with value v (negative literals via 0 - x;
    MIN as 0 - MAX - 1 because the literal MAX+1 does not fit the type)"""
    if v >= 0:
        return '%d' % v
    if -v > (1 << (BITS[name] - 1)) - 1:
        return '(0 - %d - 1)' % (-v - 1)
    return '(0 - %d)' % (-v)


def build_capy(repo):
    r = subprocess.run(['cargo', 'build', '-p', 'capy', '--offline'], cwd=repo, capture_output=True, text=True)
    if r.returncode != 0:
        return None
    return os.path.join(repo, 'target', 'debug', 'capy')


def run_prog(capy, repo, scratch, name, src):
    d = os.path.join(scratch, 'witness')
    os.makedirs(d, exist_ok=True)
    p = os.path.join(d, name + '.capy')
    with open(p, 'w') as f:
        f.write(src)
    r = subprocess.run([capy, 'run', p, '--mod-dir', repo], cwd=d, capture_output=True, text=True, timeout=300)
    out = r.stdout
    lines = []
    seen = False
    for ln in out.splitlines():
        if ln.startswith('Running'):
            seen = True
            continue
        if seen:
            s = ln.strip()
            if s.lstrip('-').isdigit():
                lines.append(int(s))
    return lines, out[-2000:], p


def cast_cases():
    cases = []
    for fn, fb, fs in INTS:
        for tn, tb, ts in INTS:
            if fn == tn:
                continue
            for v in grid(fb, fs):
                cases.append(dict(kind='ii', frm=fn, to=tn, v=v, want=wrap(v, tb, ts)))
        for tn, tb in FLOATS:
            for v in grid(fb, fs):
                cases.append(dict(kind='if', frm=fn, to=tn, v=v, want=round_to_float_bits(v, tb)))
    for fname, fb in FLOATS:
        for tn, tb, ts in INTS:
            lo = -(1 << (tb - 1)) if ts else 0
            hi = (1 << (tb - 1)) - 1 if ts else (1 << tb) - 1
            for v in grid(tb, ts):
                # only values exactly representable in the float and fitting the target
                bits = round_to_float_bits(v, fb)
                back = bits_to_int(bits, fb)
                if back is None or not (lo <= back <= hi) or back != v:
                    continue
                cases.append(dict(kind='fi', frm=fname, to=tn, v=v, want=v, fbits=bits))
    return cases


def bits_to_int(bits, fb):
    if fb == 64:
        f = struct.unpack('<d', struct.pack('<Q', bits))[0]
    else:
        f = struct.unpack('<f', struct.pack('<I', bits))[0]
    if f != f or f in (float('inf'), float('-inf')):
        return None
    if Fraction(f).denominator != 1:
        return None
    return int(f)


def gen_cast_program(cases):
    fns = {}
    body = []
    for i, c in enumerate(cases):
        key = (c['frm'], c['to'])
        fname = 'c_%s_%s' % key
        if key not in fns:
            fns[key] = '%s :: (x: %s) -> %s { %s.(x) }\n' % (fname, c['frm'], c['to'], c['to'])
        if c['kind'] == 'fi':
            conv = 'core.mem.%s_from_bits(%d)' % (c['frm'], c['fbits'])
            body.append('    core.println(%s(%s));' % (fname, conv))
        else:
            arg = 'a%d' % i
            body.append('    %s : %s = %s;' % (arg, c['frm'], lit(c['v'], c['frm'], True)))
            if c['kind'] == 'if':
                body.append('    core.println(core.mem.%s_to_bits(%s(%s)));' % (c['to'], fname, arg))
            else:
                body.append('    core.println(%s(%s));' % (fname, arg))
    return 'core :: #mod("core");\n' + ''.join(fns.values()) + 'main :: () {\n' + '\n'.join(body) + '\n}\n'


def find_cast_witness(repo, scratch, limit=None):
    capy = build_capy(repo)
    if capy is None:
        return None
    cases = cast_cases()
    # split by (frm, to) pair groups to keep programs small
    chunk = 400
    checked = 0
    for k in range(0, len(cases), chunk):
        part = cases[k:k + chunk]
        got, tail, path = run_prog(capy, repo, scratch, 'casts_%d' % k, gen_cast_program(part))
        if len(got) != len(part):
            return dict(kind='harness', note='program printed %d lines, expected %d' % (len(got), len(part)), tail=tail, program=path)
        for c, g in zip(part, got):
            checked += 1
            if g != c['want']:
                src = 'core :: #mod("core");\nf :: (x: %s) -> %s { %s.(x) }\nmain :: () {\n' % (c['frm'], c['to'], c['to'])
                if c['kind'] == 'fi':
                    src += '    core.println(f(core.mem.%s_from_bits(%d)));\n}\n' % (c['frm'], c['fbits'])
                elif c['kind'] == 'if':
                    src += '    a : %s = %s;\n    core.println(core.mem.%s_to_bits(f(a)));\n}\n' % (c['frm'], lit(c['v'], c['frm'], True), c['to'])
                else:
                    src += '    a : %s = %s;\n    core.println(f(a));\n}\n' % (c['frm'], lit(c['v'], c['frm'], True))
                return dict(kind='cast', frm=c['frm'], to=c['to'], value=c['v'], expected=c['want'], got=g,
                            program=src, checked=checked,
                            note='%s.(%s %d) gives %d, the language semantics give %d%s' % (
                                c['to'], c['frm'], c['v'], g, c['want'], ' (IEEE bit patterns)' if c['kind'] == 'if' else ''))
        if limit and checked >= limit:
            break
    return dict(kind='none', checked=checked)
