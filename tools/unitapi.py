"""Unit description + mechanical extraction of real function text into one Verus file.

A *unit* names items of /repo (by name, never by line), the fixed rewrite rules it
needs (DESIGN.md 2.1, R1..R8), and the contracts to splice in.  `Unit.generate(repo)`
re-reads /repo on every call and returns the Verus file text together with a line map
(generated line -> origin) and a log of every rewrite that was applied.

Nothing here edits an expression of the extracted code except through a logged rewrite
whose pattern must match exactly the stated number of times; anything else raises
ExtractError, which the caller reports as exit 2 (undecided), never as a violation.
"""
import hashlib
import os
import re

from . import rsitems
from .rsitems import ScanError


class ExtractError(Exception):
    pass


VERIF = os.path.dirname(os.path.dirname(os.path.abspath(__file__)))


class Chunk:
    __slots__ = ('text', 'origin', 'lines', 'tag')

    def __init__(self, text, origin=None, line0=0, tag=None, lines=None):
        self.text = text
        self.origin = origin  # path of the file the text came from, or None (glue)
        n = text.count('\n')
        if lines is None:
            lines = [line0 + k if origin else 0 for k in range(n)]
        assert len(lines) == n, (len(lines), n)
        self.lines = lines    # per output line: 1-based line in origin, 0 = spliced/glue
        self.tag = tag        # item key for extracted code / 'shim:<f>' / 'spec'


def splice_with_map(text, line_start, splices):
    """Insert splices [(offset, ins_text)] into text; return (out, lines) where
    lines[k] is the original line number of output line k (0 if that output line
    holds only inserted text)."""
    splices = sorted(splices, key=lambda s: s[0])
    segs = []
    cur = 0
    for off, ins in splices:
        if off < cur:
            raise ExtractError('overlapping splices')
        segs.append((text[cur:off], True))
        segs.append((ins, False))
        cur = off
    segs.append((text[cur:], True))
    out = []
    lines = []
    orig_line = line_start
    cur_origin = 0
    for seg, is_orig in segs:
        parts = seg.split('\n')
        for k, part in enumerate(parts):
            if k > 0:
                lines.append(cur_origin)
                cur_origin = 0
                if is_orig:
                    orig_line += 1
            if part.strip() and is_orig and cur_origin == 0:
                cur_origin = orig_line
        out.append(seg)
    res = ''.join(out)
    if not res.endswith('\n'):
        res += '\n'
        lines.append(cur_origin)
    return res, lines


class Rewrite:
    def __init__(self, rule, pattern, repl, count=1, why='', flags=0, literal=False):
        self.rule = rule
        self.pattern = pattern
        self.repl = repl
        self.count = count  # exact number of matches required; None = any (>=0); '+' = >=1
        self.why = why
        self.flags = flags
        self.literal = literal

    def apply(self, text, where, log):
        if self.literal:
            pat = re.escape(self.pattern)
            repl = self.repl.replace('\\', '\\\\')
        else:
            pat = self.pattern
            repl = self.repl
        rx = re.compile(pat, self.flags)
        n = len(rx.findall(text))
        if self.count == '+':
            ok = n >= 1
        elif self.count is None:
            ok = True
        else:
            ok = n == self.count
        if not ok:
            raise ExtractError('rewrite %s (%s) in %s: expected %s match(es) of %r, found %d'
                               % (self.rule, self.why, where, self.count, self.pattern, n))

        def sub(m):
            new = m.expand(repl) if not callable(repl) else repl(m)
            # keep the line count stable so that line maps stay valid
            d = m.group(0).count('\n') - new.count('\n')
            if d < 0:
                raise ExtractError('rewrite %s adds lines in %s' % (self.rule, where))
            return new + '\n' * d
        out = rx.sub(sub, text)
        if n:
            log.append(dict(rule=self.rule, where=where, pattern=self.pattern,
                            matches=n, why=self.why))
        return out


# --- R1: attributes / docs -------------------------------------------------

_R1_ATTR = re.compile(r'^[ \t]*#\[(allow|inline|track_caller|must_use|cfg_attr|doc)[^\]]*\][ \t]*$', re.M)
_R1_DERIVE = re.compile(r'^([ \t]*)#\[derive\(([^)]*)\)\][ \t]*$', re.M)
_R1_DOC = re.compile(r'^[ \t]*///.*$', re.M)


def r1_strip(text, keep_derives, where, log):
    n = [0]

    def blank(m):
        n[0] += 1
        return ''
    text = _R1_DOC.sub(blank, text)
    text = _R1_ATTR.sub(blank, text)

    def derive(m):
        n[0] += 1
        kept = [d.strip() for d in m.group(2).split(',') if d.strip() in keep_derives]
        if not kept:
            return ''
        return '%s#[derive(%s)]' % (m.group(1), ', '.join(kept))
    text = _R1_DERIVE.sub(derive, text)
    if n[0]:
        log.append(dict(rule='R1', where=where, matches=n[0],
                        why='doc comments / lint+inline attributes stripped; derives reduced to %s' % sorted(keep_derives)))
    return text


_R4_VIS = re.compile(r'\bpub\s*\(\s*(crate|super)\s*\)')


def r4_widen(text, where, log):
    n = len(_R4_VIS.findall(text))
    if n:
        log.append(dict(rule='R4', where=where, matches=n, why='pub(crate) widened to pub'))
    return _R4_VIS.sub('pub', text)


def contract_of(unit, key):
    """the contract text another unit proves for the item with this key (for STUB reuse)"""
    for kind, it in unit.parts:
        if kind == 'item' and it.key == key and not it.kw.get('stub'):
            return it.kw['contract']
    raise KeyError(key)


def sibling(name):
    """import units/<name>/unit.py (so that one unit can reuse the contracts another proves)"""
    import importlib.util
    import sys
    key = 'unit_' + name
    if key in sys.modules:
        return sys.modules[key]
    spec = importlib.util.spec_from_file_location(key, os.path.join(VERIF, 'units', name, 'unit.py'))
    mod = importlib.util.module_from_spec(spec)
    sys.modules[key] = mod
    spec.loader.exec_module(mod)
    return mod


class ItemSpec:
    def __init__(self, file, path, **kw):
        self.file = file
        self.path = path
        self.kw = kw

    @property
    def key(self):
        return self.kw.get('key') or self.path.split('::fn ')[-1].split(' ')[-1]


class Unit:
    def __init__(self, name, props, title=''):
        self.name = name
        self.props = props
        self.title = title
        self.parts = []           # ('shim', relpath) | ('spec', relpath) | ('item', ItemSpec) | ('raw', text)
        self.rewrites = []        # unit-level rewrites applied to every extracted item
        self.expected = []        # function keys that must verify on the pinned tree
        self.canary_exempt = set()
        self.trusted = []         # free-text assumptions specific to this unit
        self.rlimit = 30
        self.dir = os.path.join(VERIF, 'units', name)
        self.sole_writer_checks = []  # (file, regex, max_count, why)
        self.extra_verus_args = []

    # ---- description API ----
    def shim(self, rel):
        self.parts.append(('shim', os.path.join(VERIF, 'shims', 'verus', rel)))

    def spec(self, rel='spec.rs'):
        self.parts.append(('spec', os.path.join(self.dir, rel)))

    def raw(self, text):
        self.parts.append(('raw', text))

    def extract(self, file, path, **kw):
        """kw:
          contract  : text spliced between signature and body (R2)
          ret       : name for the return value (default 'res'); None = leave unnamed
          loops     : {ordinal: text} spliced between loop header and loop body (R2)
          inserts   : [(anchor, 'before'|'after', text)] proof blocks / hints (R2)
          rewrites  : [Rewrite] item-local
          wrap      : (prefix, suffix) text put around the item (e.g. 'impl X {', '}')
          keep_derives: set of derive names to keep (default Clone, Copy)
          expect    : True (default for fns with a contract) -> must verify
          lift      : dict(anchor=..., sig=..., ) R5 lifting of a block into a fn
          mode      : 'exec' default
          key       : obligation key override
        """
        it = ItemSpec(file, path, **kw)
        self.parts.append(('item', it))
        is_fn = '::fn ' in path or path.startswith('fn ') or 'lift' in kw
        if is_fn and not kw.get('stub') and kw.get('expect', ('contract' in kw)):
            self.expected.append(it.key)
        return it

    def rewrite(self, *a, **kw):
        self.rewrites.append(Rewrite(*a, **kw))

    # ---- generation ----
    def generate(self, repo):
        log = []
        chunks = [Chunk('// GENERATED by /verif/tools/unitapi.py for unit %s -- do not edit\n'
                        '#![allow(unused_imports, unused_variables, dead_code, unused_mut, unused_parens, non_snake_case, unreachable_code, unused_assignments, unreachable_patterns)]\n'
                        'use vstd::prelude::*;\nverus! {\n' % self.name)]
        items_meta = []
        for kind, val in self.parts:
            if kind in ('shim', 'spec'):
                with open(val) as f:
                    text = f.read()
                if not text.endswith('\n'):
                    text += '\n'
                chunks.append(Chunk('// ---- %s: %s ----\n' % (kind, os.path.relpath(val, VERIF))))
                chunks.append(Chunk(text, origin=val, line0=1, tag='%s:%s' % (kind, os.path.relpath(val, VERIF))))
            elif kind == 'raw':
                chunks.append(Chunk(val if val.endswith('\n') else val + '\n'))
            else:
                cs, meta = self._extract_item(repo, val, log)
                chunks.append(Chunk('// ---- extracted: %s :: %s (lines %d-%d, sha256 %s) ----\n'
                                    % (val.file, val.path, meta['line_start'], meta['line_end'], meta['sha256'][:16])))
                chunks.extend(cs)
                items_meta.append(meta)
        chunks.append(Chunk('\n} // verus!\nfn main() {}\n'))
        # assemble + line map
        out = []
        linemap = []  # index = gen line-1 -> (origin, line, tag)
        for c in chunks:
            out.append(c.text)
            for ln in c.lines:
                linemap.append((c.origin if ln else None, ln, c.tag))
            if not c.text.endswith('\n'):
                raise ExtractError('internal: chunk without trailing newline')
        for file, rx, maxc, why in self.sole_writer_checks:
            with open(os.path.join(repo, file)) as f:
                n = len(re.findall(rx, f.read()))
            if n > maxc:
                raise ExtractError('sole-writer check failed in %s: %r occurs %d times (max %d): %s'
                                   % (file, rx, n, maxc, why))
        return ''.join(out), linemap, log, items_meta

    def _extract_item(self, repo, spec, log):
        kw = spec.kw
        path = os.path.join(repo, spec.file)
        try:
            with open(path) as f:
                src = f.read()
        except OSError as e:
            raise ExtractError('anchor file missing: %s (%s)' % (spec.file, e))
        try:
            item, parent = rsitems.find_item(src, spec.path)
        except ScanError as e:
            raise ExtractError('anchor lost: %s in %s: %s' % (spec.path, spec.file, e))
        text = src[item.start:item.end]
        line_start = src.count('\n', 0, item.start) + 1
        line_end = src.count('\n', 0, item.end) + 1
        sha = hashlib.sha256(text.encode()).hexdigest()
        where = '%s::%s' % (spec.file, spec.path)
        meta = dict(file=spec.file, item=spec.path, key=spec.key, line_start=line_start,
                    line_end=line_end, sha256=sha, contract=bool(kw.get('contract')))
        # leading newline alignment: item.start is at a line start
        lifted = None
        if 'lift' in kw:
            text, line_start, lifted = self._lift(text, line_start, kw['lift'], where, log)
            meta['lifted'] = kw['lift'].get('why', 'R5 lifted block')
        if 'expand_macro' in kw:
            text = expand_local_macro(text, kw['expand_macro'], where, log)
        text = r1_strip(text, kw.get('keep_derives', {'Clone', 'Copy'}), where, log)
        if kw.get('widen', True):
            text = r4_widen(text, where, log)
        if kw.get('pub_fields'):
            n_before = len(re.findall(r'^(\s+)([a-z_]\w*)\s*:', text, re.M))
            text = re.sub(r'^(\s+)([a-z_]\w*)\s*:', r'\1pub \2:', text, flags=re.M)
            log.append(dict(rule='R4', where=where, matches=n_before, why='private struct fields widened to pub (Verus spec accessors need it)'))
        for rw in list(kw.get('rewrites', [])) + self.rewrites:
            text = rw.apply(text, where, log)
        for anchor, repl_expr, why in kw.get('elide', []):
            # R8: the block that follows `anchor` (a match-arm pattern, `=> {` included or
            # not) is replaced by `{ repl_expr }`; pattern and guard stay.  The elided arm is
            # *unknown* to the proof: contracts can only be stated for inputs that provably
            # do not reach it.
            n_ = text.count(anchor)
            if n_ != 1:
                raise ExtractError('%s: elide anchor %r found %d times' % (where, anchor, n_))
            code_e = rsitems.lex_mask(text)
            j = text.index(anchor) + len(anchor)
            while j < len(text) and text[j].isspace():
                j += 1
            if j < len(text) and text[j] == '{' and code_e[j]:
                close = rsitems.match_bracket(text, code_e, j)
            else:
                # an expression arm: up to (not including) the `,` that ends it
                close = j
                while close < len(text):
                    if code_e[close]:
                        if text[close] in '([{':
                            close = rsitems.match_bracket(text, code_e, close)
                        elif text[close] == ',':
                            break
                        elif text[close] in ')]}':
                            raise ExtractError('%s: elide: expression arm without terminating comma' % where)
                    close += 1
                close -= 1
            body = text[j:close + 1]
            text = text[:j] + '{ ' + repl_expr + ' }' + '\n' * body.count('\n') + text[close + 1:]
            log.append(dict(rule='R8', where=where, anchor=anchor, matches=1,
                            why='arm body outside the Verus dialect elided (%s): %d lines replaced by an unspecified value' % (why, body.count('\n') + 1)))
        if kw.get('desugar_for'):
            text = desugar_for_loops(text, kw['desugar_for'], where, log)
        # splice points are computed on the rewritten text; all splices are insertions
        splices = []  # (offset, text)
        is_fn = spec.path.startswith('fn ') or '::fn ' in spec.path or 'lift' in kw
        if kw.get('stub'):
            # modular use of a callee: signature + contract only, body dropped.  The contract
            # is the one proved in the unit named by kw['stub'] (same text object in Python).
            try:
                fp0 = rsitems.fn_parts(text)
            except ScanError as e:
                raise ExtractError('cannot parse fn %s: %s' % (where, e))
            body = text[fp0['body_open']:fp0['body_close'] + 1]
            text = (text[:fp0['body_open']] + '{ unimplemented!() }' + '\n' * body.count('\n')
                    + text[fp0['body_close'] + 1:])
            kfn = text.rfind('\n', 0, fp0['fn_kw']) + 1
            text = text[:kfn] + '#[verifier::external_body] ' + text[kfn:]
            meta['stub_of'] = kw['stub']
            log.append(dict(rule='STUB', where=where,
                            why='callee used through its contract only; the contract is discharged in unit `%s`' % kw['stub']))
        if lifted is not None:
            sig, tail, stmt = lifted
            c = kw.get('contract', '').strip('\n')
            # `open`: text put between the opening brace of the new function and the lifted
            # range (with `tail` after it), for a range that is an expression or contains a
            # `break` of the enclosing loop: `loop { let v = <range>; return Some(v); } None`
            pre = (sig + ('\n' + c + '\n' if c else ' ') + ('{ ' if stmt else '')
                   + (('/*@BODY:%s*/' % spec.key) if stmt else '') + kw['lift'].get('open', ''))
            splices.append((0, pre))
            if kw.get('loops'):
                code = rsitems.lex_mask(text)
                loops = rsitems.loops_in(text, 0, len(text), code)
                for ordinal, inv in kw['loops'].items():
                    if ordinal >= len(loops):
                        raise ExtractError('%s: loop #%d not found (%d loops)' % (where, ordinal, len(loops)))
                    self._loop_splice(splices, loops[ordinal], inv, where)
        elif is_fn:
            try:
                fp = rsitems.fn_parts(text)
            except ScanError as e:
                raise ExtractError('cannot parse fn %s: %s' % (where, e))
            if fp['body_open'] is None:
                raise ExtractError('fn %s has no body' % where)
            ret = kw.get('ret', 'res')
            if fp.get('arrow') is not None and ret and (kw.get('contract') or kw.get('name_ret')):
                splices.append((fp['ret_start'], '(%s: ' % ret))
                splices.append((fp['ret_end'], ')'))
            if kw.get('contract'):
                c = kw['contract'].strip('\n')
                splices.append((fp['body_open'], '\n' + c + '\n'))
            if kw.get('loops'):
                code = rsitems.lex_mask(text)
                loops = rsitems.loops_in(text, fp['body_open'], fp['body_close'], code)
                for ordinal, inv in kw['loops'].items():
                    if ordinal >= len(loops):
                        raise ExtractError('%s: loop #%d not found (%d loops)' % (where, ordinal, len(loops)))
                    self._loop_splice(splices, loops[ordinal], inv, where)
                meta['loops'] = len(loops)
                if kw.get('loop_count') is not None and kw['loop_count'] != len(loops):
                    raise ExtractError('%s: expected %d loops, found %d' % (where, kw['loop_count'], len(loops)))
        # markers used by the vacuity canary (comments; replaced by assert(false) in the canary run)
        if is_fn:
            code_m = rsitems.lex_mask(text)
            if lifted is not None:
                lo_m, hi_m = 0, len(text)
                if not lifted[2]:
                    splices.append((1, '/*@BODY:%s*/' % spec.key))
                # (statement ranges: the marker is part of the prefix built above)
            else:
                lo_m, hi_m = fp['body_open'], fp['body_close']
                splices.append((lo_m + 1, '/*@BODY:%s*/' % spec.key))
            for n_, lp in enumerate(rsitems.loops_in(text, lo_m, hi_m, code_m)):
                splices.append((lp[2] + 1, '/*@LOOP:%s:%d*/' % (spec.key, n_)))
        for anchor, pos, ins in kw.get('inserts', []):
            optional = anchor.startswith('?')
            if optional:
                # an optional hint: when its anchor is gone the hint is dropped (the proof that
                # relied on it then fails on its own merits instead of the extraction failing)
                anchor = anchor[1:]
                probe = anchor[len('@after_stmt:'):] if anchor.startswith('@after_stmt:') else (None if anchor.startswith('@') else anchor)
                if probe is not None and text.count(probe) != 1:
                    log.append(dict(rule='R2', where=where, matches=0, why='optional hint dropped: anchor %r not found' % anchor))
                    continue
            if anchor.startswith('@'):
                # structural anchors: '@loop_end:N' (after the closing brace of loop N),
                # '@loop_start:N' (just inside loop N's body), '@body_start'
                code = rsitems.lex_mask(text)
                if lifted is not None:
                    lo_, hi_ = 0, len(text)
                else:
                    lo_, hi_ = fp['body_open'], fp['body_close']
                if anchor == '@body_start':
                    splices.append((lo_ if (lifted is not None and lifted[2]) else lo_ + 1, ins))
                    continue
                if anchor == '@body_end':
                    # just before the closing brace of the function body (only meaningful
                    # when the body ends with a statement, not with a tail expression)
                    splices.append((hi_, ins))
                    continue
                if anchor.startswith('@arm:'):
                    # at the head of the match arm whose pattern text is given (unique): inside
                    # its block, or -- for an expression arm -- the expression is wrapped in
                    # `{ INS expr }` (same value, same effects)
                    pat_ = anchor[len('@arm:'):]
                    if text.count(pat_) != 1:
                        raise ExtractError('%s: %s: arm pattern found %d times' % (where, anchor, text.count(pat_)))
                    j = text.index(pat_) + len(pat_)
                    while j < len(text) and not (code[j] and text.startswith('=>', j)):
                        j += 1
                    if j >= len(text):
                        raise ExtractError('%s: %s: no `=>` after the pattern' % (where, anchor))
                    j += 2
                    while j < len(text) and text[j].isspace():
                        j += 1
                    if text[j] == '{':
                        splices.append((j + 1, ins))
                    else:
                        e = j
                        while e < len(text):
                            if code[e]:
                                if text[e] in '([{':
                                    e = rsitems.match_bracket(text, code, e)
                                elif text[e] == ',' or text[e] == '}':
                                    break
                            e += 1
                        splices.append((j, '{ ' + ins))
                        splices.append((e, ' }'))
                    continue
                if anchor.startswith('@arm_end:'):
                    # just before the closing brace of the block of the match arm whose pattern
                    # text is given (block arms only); a `;` is put first so that a tail
                    # expression of type () becomes a statement
                    pat_ = anchor[len('@arm_end:'):]
                    if text.count(pat_) != 1:
                        raise ExtractError('%s: %s: arm pattern found %d times' % (where, anchor, text.count(pat_)))
                    j = text.index(pat_) + len(pat_)
                    while j < len(text) and not (code[j] and text.startswith('=>', j)):
                        j += 1
                    j += 2
                    while j < len(text) and text[j].isspace():
                        j += 1
                    if j >= len(text) or text[j] != '{':
                        raise ExtractError('%s: %s: not a block arm' % (where, anchor))
                    splices.append((rsitems.match_bracket(text, code, j), '; ' + ins))
                    continue
                if anchor.startswith('@after_stmt:'):
                    # after the `;` that ends the statement beginning with the given text
                    head = anchor[len('@after_stmt:'):]
                    if text.count(head) != 1:
                        raise ExtractError('%s: %s: statement head found %d times' % (where, anchor, text.count(head)))
                    j = text.index(head)
                    while j < len(text):
                        if code[j]:
                            if text[j] in '([{':
                                j = rsitems.match_bracket(text, code, j)
                            elif text[j] == ';':
                                break
                        j += 1
                    splices.append((j + 1, ins))
                    continue
                kind_, _, ord_ = anchor[1:].partition(':')
                loops = rsitems.loops_in(text, lo_, hi_, code)
                if int(ord_) >= len(loops):
                    raise ExtractError('%s: %s: no such loop' % (where, anchor))
                body = loops[int(ord_)][2]
                if kind_ == 'loop_end':
                    splices.append((rsitems.match_bracket(text, code, body) + 1, ins))
                elif kind_ == 'loop_start':
                    splices.append((body + 1, ins))
                elif kind_ == 'loop_body_end':
                    splices.append((rsitems.match_bracket(text, code, body), '; ' + ins))
                else:
                    raise ExtractError('%s: unknown structural anchor %s' % (where, anchor))
                continue
            n = text.count(anchor)
            if n != 1:
                raise ExtractError('%s: insert anchor %r found %d times' % (where, anchor, n))
            k = text.index(anchor)
            splices.append((k if pos == 'before' else k + len(anchor), ins))
        # build chunks
        if lifted is not None:
            splices.append((len(text), ('\n' + lifted[1] + '\n}\n') if lifted[2] else '\n'))
        out, lines = splice_with_map(text, line_start, splices)
        chunks = []
        prefix, suffix = kw.get('wrap', ('', ''))
        if kw.get('case_split'):
            # CASE SPLIT (proof engineering, no effect on the code under proof): the function is
            # emitted once per marker.  Every marker is a one-line ghost statement that an
            # `inserts` entry put at the head of a distinct `match` arm; in copy i the arms of
            # all OTHER markers are cut with `assume(false)`, so copy i proves the paths through
            # arm i (and every path through no marked arm); the copies together prove every
            # path.  Callers see a contract-only stub, which the copies discharge.
            # a case is one marker or a group of markers (an arm head plus the hints inside
            # the loops of that arm: isolated loops are queries of their own and are cut too)
            groups = [[g_] if isinstance(g_, str) else list(g_) for g_ in kw['case_split']]
            for g_ in groups:
                for m_ in g_:
                    if out.count(m_) < 1 or '\n' in m_:
                        raise ExtractError('%s: case_split marker %r not found (or spans lines)' % (where, m_))
            markers = groups
            kw_stub = dict((k_, v_) for k_, v_ in kw.items() if k_ not in ('case_split', 'inserts', 'loops', 'desugar_for', 'expect'))
            kw_stub['stub'] = 'case-split copies in unit `%s`' % self.name
            stub_chunks, _ = self._extract_item(repo, ItemSpec(spec.file, spec.path, **kw_stub), log)
            for c_ in stub_chunks:
                if c_.tag == spec.key:
                    c_.tag = spec.key + '#stub'
            chunks.extend(stub_chunks)
            for i_, keep in enumerate(markers):
                t_ = out
                for g_ in markers:
                    if g_ is not keep:
                        for m_ in g_:
                            t_ = t_.replace(m_, 'proof { assume(false); /*@CASE_CUT*/ }')
                chunks.append(Chunk('pub mod %s__case%d { use super::*;\n' % (spec.key, i_)))
                if prefix:
                    chunks.append(Chunk(prefix.rstrip('\n') + '\n'))
                chunks.append(Chunk(t_, origin=path, lines=lines, tag=spec.key))
                if suffix:
                    chunks.append(Chunk(suffix.rstrip('\n') + '\n'))
                chunks.append(Chunk('}\n'))
            meta['case_split'] = len(markers)
            log.append(dict(rule='CASE', where=where, matches=len(markers),
                            why='function emitted %d times, one per marked match arm; in each copy the other marked arms are cut by assume(false) (they are proved in their own copy)' % len(markers)))
            return chunks, meta
        if prefix:
            chunks.append(Chunk(prefix.rstrip('\n') + '\n'))
        chunks.append(Chunk(out, origin=path, lines=lines, tag=spec.key))
        if suffix:
            chunks.append(Chunk(suffix.rstrip('\n') + '\n'))
        return chunks, meta

    @staticmethod
    def _loop_splice(splices, loop, inv, where):
        """inv is the invariant text, or (ghost_iterator_name, invariant text) for a
        `for` loop: Verus' `for x in NAME: expr` names the ghost iterator (R2, like naming
        the return value; no executable meaning)."""
        kw_off, kind, body, in_kw = loop
        if isinstance(inv, tuple):
            name, inv = inv
            if kind != 'for' or in_kw is None:
                raise ExtractError('%s: ghost iterator name on a non-for loop' % where)
            splices.append((in_kw + 3, name + ': '))
        splices.append((body, '\n' + inv.strip('\n') + '\n'))

    def _lift(self, text, line_start, lift, where, log):
        """R5: turn a block of a function into a function of its own.
        lift = dict(anchor=<text occurring exactly once>, sig=<one-line signature>,
                    stmt=<bool>, tail=<text appended inside the new fn after the block>)
        Without `stmt` the new body is the brace-matched block that starts at the first
        '{' at or after the end of the anchor.  With `stmt` the new body is the text
        from the start of the anchor to the end of that block (a whole statement such
        as `if let .. { .. }`), wrapped in braces.  Returns
        (body_text, first_line, (prefix_splice, suffix_splice))."""
        if 'start_after' in lift or 'start_at' in lift:
            # statement range: from just after `start_after` (or from `start_at`) up to and
            # including the first occurrence of `end_at` after it
            key = 'start_after' if 'start_after' in lift else 'start_at'
            anchor = lift[key]
            n = text.count(anchor)
            if n != 1:
                raise ExtractError('%s: lift anchor %r found %d times' % (where, anchor, n))
            a = text.index(anchor) + (len(anchor) if key == 'start_after' else 0)
            endk = 'end_at' if 'end_at' in lift else 'end_before'
            e = text.find(lift[endk], a)
            if e < 0:
                raise ExtractError('%s: lift end %r not found after start' % (where, lift[endk]))
            if endk == 'end_at':
                e += len(lift[endk])
            body = text[a:e]
            # the range must be balanced, or it is not a statement sequence
            code = rsitems.lex_mask(body)
            depth = 0
            for k, ch in enumerate(body):
                if code[k]:
                    if ch in '([{':
                        depth += 1
                    elif ch in ')]}':
                        depth -= 1
                        if depth < 0:
                            raise ExtractError('%s: lifted range is not balanced' % where)
            if depth != 0:
                raise ExtractError('%s: lifted range is not balanced' % where)
            sig = ' '.join(lift['sig'].split())
            log.append(dict(rule='R5', where=where, anchor=anchor,
                            why=lift.get('why', 'statement range lifted into a function; path condition becomes an assumed precondition')))
            first = line_start + text.count('\n', 0, a)
            return body, first, (sig, lift.get('tail', ''), True)
        anchor = lift['anchor']
        n = text.count(anchor)
        if n != 1:
            raise ExtractError('%s: lift anchor %r found %d times' % (where, anchor, n))
        a = text.index(anchor)
        code = rsitems.lex_mask(text)
        j = a + len(anchor)
        if anchor.rstrip().endswith('{'):
            j = a + len(anchor.rstrip()) - 1
        while j < len(text) and not (code[j] and text[j] == '{'):
            j += 1
        if j >= len(text):
            raise ExtractError('%s: no block after lift anchor' % where)
        close = rsitems.match_bracket(text, code, j)
        sig = ' '.join(lift['sig'].split())
        log.append(dict(rule='R5', where=where, anchor=anchor,
                        why=lift.get('why', 'block lifted into a function; path condition becomes an assumed precondition')))
        if lift.get('stmt'):
            body = text[a:close + 1]
            first = line_start + text.count('\n', 0, a)
            return body, first, (sig, lift.get('tail', ''), True)
        body = text[j:close + 1]
        first = line_start + text.count('\n', 0, j)
        return body, first, (sig, '', False)


def expand_local_macro(text, name, where, log):
    """R3: expand a single-arm macro_rules! `name` defined inside the item, whose
    parameters are all `$x:expr`, by token substitution at every `name!(args);` call."""
    code = rsitems.lex_mask(text)
    m = re.search(r'macro_rules!\s*' + re.escape(name) + r'\s*\{', text)
    if not m:
        raise ExtractError('%s: macro %s not found' % (where, name))
    open_ = m.end() - 1
    close = rsitems.match_bracket(text, code, open_)
    inner = text[open_ + 1:close]
    arms = re.findall(r'=>', inner)
    mm = re.match(r'\s*\(([^)]*)\)\s*=>\s*\{', inner)
    if not mm:
        raise ExtractError('%s: macro %s: unsupported matcher' % (where, name))
    params = [p.strip() for p in mm.group(1).split(',') if p.strip()]
    names = []
    for p in params:
        pm = re.match(r'\$([A-Za-z_][A-Za-z0-9_]*)\s*:\s*expr$', p)
        if not pm:
            raise ExtractError('%s: macro %s: only $x:expr parameters supported' % (where, name))
        names.append(pm.group(1))
    icode = rsitems.lex_mask(inner)
    bopen = mm.end() - 1
    bclose = rsitems.match_bracket(inner, icode, bopen)
    rest = inner[bclose + 1:].strip().rstrip(';').strip()
    if rest:
        raise ExtractError('%s: macro %s has more than one arm' % (where, name))
    body = inner[bopen + 1:bclose]
    # remove the definition (keep line count)
    defn_end = close + 1
    if text[defn_end:defn_end + 1] == ';':
        defn_end += 1
    defn = text[m.start():defn_end]
    text = text[:m.start()] + '\n' * defn.count('\n') + text[defn_end:]
    call = re.compile(re.escape(name) + r'!\s*\(([^()]*)\)\s*;')
    count = [0]

    def expand(cm):
        args = [a.strip() for a in cm.group(1).split(',')]
        if len(args) != len(names):
            raise ExtractError('%s: macro %s call arity' % (where, name))
        b = body
        for n_, a in zip(names, args):
            b = re.sub(r'\$' + n_ + r'\b', a, b)
        count[0] += 1
        return '{' + b + '}'
    text = call.sub(expand, text)
    log.append(dict(rule='R3', where=where, matches=count[0], why='local macro_rules! %s expanded by token substitution' % name))
    return text


def desugar_for_loops(text, spec, where, log):
    """R9: `for PAT in EXPR { BODY }` over a Vec / slice  ->  an indexed `while` loop

        { let it_NAME = EXPR; let mut NAME: usize = 0;
          while NAME < it_NAME.len() { let PAT = <elem>; NAME = NAME + 1; BODY } }

    with <elem> = `it_NAME[NAME]` (mode 'val', element type is Copy) or `&it_NAME[NAME]`
    (mode 'ref', iteration over `&vec` / a slice), or `(NAME, &it_NAME[NAME])` for
    `EXPR.iter().enumerate()` (mode 'enum_ref').  This is the meaning of the `for` loop
    for these containers; it lets invariants talk about the position NAME and lets Verus
    accept `continue` in the body.  spec = {loop ordinal: (NAME, mode)}; ordinals count all
    loops of the item in textual order and do not change."""
    code = rsitems.lex_mask(text)
    loops = rsitems.loops_in(text, 0, len(text), code)
    for ordinal in sorted(spec, reverse=True):
        name, mode = spec[ordinal]
        if ordinal >= len(loops):
            raise ExtractError('%s: desugar_for: loop #%d not found' % (where, ordinal))
        kw_off, kind, body, in_kw = loops[ordinal]
        if kind != 'for' or in_kw is None:
            raise ExtractError('%s: desugar_for: loop #%d is not a for loop' % (where, ordinal))
        pat = text[kw_off + 3:in_kw].strip()
        expr = text[in_kw + 2:body].strip()
        close = rsitems.match_bracket(text, code, body)
        if mode == 'rev_ref':
            # `for x in EXPR.iter().rev()`: an indexed loop from the last element down to the first
            m_ = re.search(r'\s*\.iter\(\)\s*\.rev\(\)$', expr)
            mf_ = re.search(r'\s*\.iter\(\)$', expr)
            if not m_ and mf_:
                # the text iterates forwards: desugar it as the forward loop it is (the invariants
                # written for the backward loop are then checked against the forward one)
                expr = expr[:mf_.start()]
                head = '{ let it_%s = &%s; let mut %s: usize = 0; while %s < it_%s.len() ' % (name, expr, name, name, name)
                nl = text[kw_off:body].count('\n')
                text = (text[:kw_off] + head + '\n' * nl + '{' + ' let %s = &it_%s[%s]; %s = %s + 1; ' % (pat, name, name, name, name)
                        + text[body + 1:close + 1] + ' }' + text[close + 1:])
                log.append(dict(rule='R9', where=where, matches=1,
                                why='for loop #%d over `%s.iter()` desugared to an indexed while loop running forwards (position `%s`)' % (ordinal, expr, name)))
                code = rsitems.lex_mask(text)
                loops = rsitems.loops_in(text, 0, len(text), code)
                continue
            if not m_:
                raise ExtractError('%s: desugar_for: loop #%d is not over `.iter().rev()`' % (where, ordinal))
            expr = expr[:m_.start()]
            head = '{ let it_%s = &%s; let mut %s: usize = it_%s.len(); while %s > 0 ' % (name, expr, name, name, name)
            nl = text[kw_off:body].count('\n')
            text = (text[:kw_off] + head + '\n' * nl + '{' + ' %s = %s - 1; let %s = &it_%s[%s]; ' % (name, name, pat, name, name)
                    + text[body + 1:close + 1] + ' }' + text[close + 1:])
            log.append(dict(rule='R9', where=where, matches=1,
                            why='for loop #%d over `%s.iter().rev()` desugared to an indexed while loop running from the last element to the first (position `%s`)' % (ordinal, expr, name)))
            code = rsitems.lex_mask(text)
            loops = rsitems.loops_in(text, 0, len(text), code)
            continue
        if mode == 'enum_ref':
            # `for (i, x) in EXPR.iter().enumerate()`: the position is the loop counter itself
            m_ = re.search(r'\s*\.iter\(\)\s*\.enumerate\(\)$', expr)
            if not m_:
                raise ExtractError('%s: desugar_for: loop #%d is not over `.iter().enumerate()`' % (where, ordinal))
            expr = expr[:m_.start()]
            elem = '(%s, &it_%s[%s])' % (name, name, name)
            m2_ = re.match(r'^\(\s*(\w+)\s*,\s*&(\w+)\s*\)$', pat)
            if m2_:
                # `(i, &x)`: the element is copied out (pattern `&x` on a `&T`, T: Copy)
                pat = '(%s, %s)' % (m2_.group(1), m2_.group(2))
                elem = '(%s, it_%s[%s])' % (name, name, name)
        else:
            elem = ('it_%s[%s]' if mode == 'val' else '&it_%s[%s]') % (name, name)
            if mode == 'ref' and re.match(r'^&\w+$', pat):
                # `for &x in v`: the element is copied out (pattern `&x` on a `&T`, T: Copy)
                pat = pat[1:]
                elem = 'it_%s[%s]' % (name, name)
            if mode == 'enum_val':
                # `for (i, x) in EXPR.into_iter().enumerate()` over a Copy container
                m_ = re.search(r'\s*\.into_iter\(\)\s*\.enumerate\(\)$', expr)
                if not m_:
                    raise ExtractError('%s: desugar_for: loop #%d is not over `.into_iter().enumerate()`' % (where, ordinal))
                expr = expr[:m_.start()]
                elem = '(%s, it_%s[%s])' % (name, name, name)
        if mode == 'enum_ref':
            # temporaries of EXPR must live as long as the loop (as they do for `for`): bind
            # through a `match` scrutinee
            head = '{ match %s { it_%s => { let mut %s: usize = 0; while %s < it_%s.len() ' % (expr, name, name, name, name)
        else:
            head = '{ let it_%s = %s; let mut %s: usize = 0; while %s < it_%s.len() ' % (name, expr, name, name, name)
        # keep the line structure: header text is replaced on its own line(s)
        nl = text[kw_off:body].count('\n')
        new = (text[:kw_off] + head + '\n' * nl + '{' + ' let %s = %s; %s = %s + 1; ' % (pat, elem, name, name)
               + text[body + 1:close + 1] + (' } } }' if mode == 'enum_ref' else ' }') + text[close + 1:])
        text = new
        log.append(dict(rule='R9', where=where, matches=1,
                        why='for loop #%d over `%s` desugared to an indexed while loop (position `%s`, elements by %s)' % (ordinal, expr, name, mode)))
        code = rsitems.lex_mask(text)
        loops = rsitems.loops_in(text, 0, len(text), code)
    return text
