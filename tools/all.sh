#!/bin/bash
# run every claimed check once (quick tier); summary line per property
cd "$(dirname "$0")/.."
rc=0
for p in $(python3 -c "import json; print(' '.join(c['property_id'] for c in json.load(open('MANIFEST.json'))['checks']))"); do
  out=$(./check $p "$@" 2>&1); e=$?
  echo "$p exit=$e $(echo "$out" | tail -1 | cut -c1-150)"
  [ $e -ne 0 ] && rc=1
done
exit $rc
