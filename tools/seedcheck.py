#!/usr/bin/env python3
"""Re-run the claimed check of every seeded change (seeded/<id>/patch.diff) on a scratch copy
of /repo with the patch applied.

    python3 tools/seedcheck.py [seed ...] [--repo /repo] [--jobs N]

Expected: every seeded change is reported (exit 1, VIOLATION line).  A patch that no longer
applies to the current tree is reported as STALE (the tree moved under it: usually a `fix:`
commit touching the same lines), not as a miss.  Scratch copies live under a temporary
directory outside /repo and /verif and are removed after each seed.
"""
import json
import os
import shutil
import subprocess
import sys
import tempfile
from concurrent.futures import ThreadPoolExecutor

HERE = os.path.dirname(os.path.abspath(__file__))
VERIF = os.path.dirname(HERE)


def one(seed, repo):
    d = os.path.join(VERIF, 'seeded', seed)
    mp = os.path.join(d, 'meta.json')
    prop = json.load(open(mp))['property'] if os.path.exists(mp) else seed[:3]
    scratch = tempfile.mkdtemp(prefix='capy-seed.')
    try:
        subprocess.run(['rsync', '-a', '--exclude', 'target', '--exclude', '.git', '--exclude', 'seed_out',
                        repo.rstrip('/') + '/', scratch + '/'], check=True)
        r = subprocess.run(['patch', '-p1', '-s', '--no-backup-if-mismatch', '-i', os.path.join(d, 'patch.diff')],
                           cwd=scratch, capture_output=True, text=True)
        if r.returncode != 0:
            return seed, prop, 'STALE', (r.stdout + r.stderr).strip().splitlines()[:1]
        r = subprocess.run([sys.executable, os.path.join(HERE, 'check.py'), prop, '--repo', scratch, '--no-evidence'],
                           capture_output=True, text=True,
                           env=dict(os.environ, VERIF_REPLAY_DIR=os.path.join(scratch, 'replays')))
        got = {0: 'MISSED', 1: 'CAUGHT', 2: 'UNDECIDED'}.get(r.returncode, 'ERROR')
        first = [ln for ln in r.stdout.splitlines() if ln.startswith(('VIOLATION', 'UNDECIDED'))][:1]
        return seed, prop, got, first
    finally:
        shutil.rmtree(scratch, ignore_errors=True)


def main():
    args = [a for a in sys.argv[1:] if not a.startswith('--')]
    repo = '/repo'
    jobs = 3
    if '--repo' in sys.argv:
        repo = sys.argv[sys.argv.index('--repo') + 1]
        args.remove(repo)
    if '--jobs' in sys.argv:
        j = sys.argv[sys.argv.index('--jobs') + 1]
        jobs = int(j)
        args.remove(j)
    seeds = args or sorted(s for s in os.listdir(os.path.join(VERIF, 'seeded'))
                           if os.path.exists(os.path.join(VERIF, 'seeded', s, 'patch.diff')))
    bad = 0
    with ThreadPoolExecutor(max_workers=jobs) as ex:
        for seed, prop, got, first in ex.map(lambda s: one(s, repo), seeds):
            if got != 'CAUGHT':
                bad += 1
            print('%-6s %-4s %-9s %s' % (seed, prop, got, (first[0][:170] if first else '')), flush=True)
    print('seedcheck: %d seeds, %d not caught' % (len(seeds), bad))
    sys.exit(1 if bad else 0)


if __name__ == '__main__':
    main()
