#!/usr/bin/env python3
"""Mutation self-test: apply each unit's MUTANTS to a scratch copy of the extracted source
files and check that the verdict is the expected one.

    python3 tools/selftest.py [unit ...] [--repo /repo]

A mutant is (file, old_text, new_text, expect) with expect in
    'violation'  the check must exit 1 with a VIOLATION line for the unit's property
    'ok'         harmless edit: the check must still exit 0
    'undecided'  the edit hits a rewritten region: exit 2 (never a false pass)
Only the files named by the units are copied (extraction reads nothing else); the scratch
directory is removed afterwards.
"""
import os
import shutil
import subprocess
import sys
import tempfile

HERE = os.path.dirname(os.path.abspath(__file__))
VERIF = os.path.dirname(HERE)
sys.path.insert(0, VERIF)
from tools import check  # noqa: E402


def main():
    args = [a for a in sys.argv[1:] if not a.startswith('--')]
    repo = '/repo'
    if '--repo' in sys.argv:
        repo = sys.argv[sys.argv.index('--repo') + 1]
    units = check.load_units()
    if args:
        units = [u for u in units if u.name in args]
    bad = 0
    total = 0
    for u in units:
        muts = getattr(u.module, 'MUTANTS', [])
        if not muts:
            continue
        prop = u.props[0]
        for i, (file, old, new, expect) in enumerate(muts):
            total += 1
            scratch = tempfile.mkdtemp(prefix='capy-mut.')
            try:
                # copy just the source tree (no target/)
                subprocess.run(['rsync', '-a', '--exclude', 'target', '--exclude', '.git', '--exclude', 'seed_out',
                                repo.rstrip('/') + '/', scratch + '/'], check=True)
                p = os.path.join(scratch, file)
                s = open(p).read()
                if s.count(old) != 1:
                    print('MUTANT-ERROR %s #%d: pattern occurs %d times in %s' % (u.name, i, s.count(old), file))
                    bad += 1
                    continue
                open(p, 'w').write(s.replace(old, new))
                codes = []
                for prop in u.props:
                    r = subprocess.run([sys.executable, os.path.join(HERE, 'check.py'), prop, '--repo', scratch,
                                        '--unit', u.name, '--no-evidence'], capture_output=True, text=True,
                                       env=dict(os.environ, VERIF_REPLAY_DIR=os.path.join(scratch, 'replays')))
                    codes.append(r.returncode)
                    if r.returncode == 1:
                        break
                rc = 1 if 1 in codes else (2 if 2 in codes else max(codes))
                got = {0: 'ok', 1: 'violation', 2: 'undecided'}.get(rc, 'error')
                status = 'PASS' if got == expect else 'FAIL'
                if got != expect:
                    bad += 1
                first = [ln for ln in r.stdout.splitlines() if ln.startswith(('VIOLATION', 'UNDECIDED'))][:1]
                print('%s %s #%d expect=%s got=%s  %r -> %r  %s' % (status, u.name, i, expect, got, old[:50], new[:50], first[0][:160] if first else ''))
            finally:
                shutil.rmtree(scratch, ignore_errors=True)
    # replays produced by mutants are noise
    print('selftest: %d mutants, %d unexpected' % (total, bad))
    sys.exit(1 if bad else 0)


if __name__ == '__main__':
    main()
