"""python3 -m tools.gen <unit> <out.rs> [--repo /repo] : write the generated Verus file (for interactive proof work)."""
import sys
from tools import check
repo = '/repo'
if '--repo' in sys.argv:
    repo = sys.argv[sys.argv.index('--repo') + 1]
u = [x for x in check.load_units() if x.name == sys.argv[1]][0]
gen, lm, log, items = u.generate(repo)
open(sys.argv[2], 'w').write(gen)
print('%d lines, %d rewrites' % (gen.count('\n'), len(log)))
