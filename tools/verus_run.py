"""Run Verus on a generated file and turn its diagnostics into named obligations."""
import json
import os
import re
import subprocess
import time

SEMANTIC = [
    # (regex on the diagnostic message, obligation kind)
    (r'^postcondition not satisfied', 'postcondition'),
    (r'^precondition not satisfied', 'precondition-at-call'),
    (r'^precondition not met: index in bounds', 'bounds'),
    (r'^precondition not met', 'precondition-at-call'),
    (r'^assertion failed', 'assertion'),
    (r'^assertion failure', 'assertion'),
    (r'^invariant not satisfied at end of loop body', 'invariant-preserved'),
    (r'^invariant not satisfied before loop', 'invariant-established'),
    (r'^loop invariant not', 'invariant'),
    (r'^possible arithmetic underflow/overflow', 'arithmetic-overflow'),
    (r'^possible division by zero', 'division-by-zero'),
    (r'^possible bit shift underflow/overflow', 'shift-overflow'),
    (r'^decreases not satisfied', 'termination'),
    (r'^could not prove termination', 'termination'),
    (r'^termination', 'termination'),
    (r'^unreachable', 'reachable-panic'),
    (r'^cannot prove.*unreachable', 'reachable-panic'),
    (r'^possible.*out of bounds', 'bounds'),
    (r'^assert_by_contradiction', 'assertion'),
    (r'^failed.*requires', 'precondition-at-call'),
    (r'^constructed value may fail to meet its declared type invariant', 'type-invariant'),
]
RESOURCE = [r'Resource limit', r'rlimit', r'timed out', r'solver.*unknown']


def classify(msg):
    for rx, kind in SEMANTIC:
        if re.search(rx, msg):
            return kind
    return None


def run(gen_path, rlimit=30, threads=8, extra=(), timeout=900, multiple_errors=20):
    # every crate of /repo is edition 2024: the extracted text is read under the same edition
    cmd = ['verus', gen_path, '--edition=2024', '--error-format=json', '--output-json', '--time',
           '--multiple-errors', str(multiple_errors), '--rlimit', str(rlimit),
           '--num-threads', str(threads)] + list(extra)
    t0 = time.time()
    try:
        # own process group, so that a timeout also takes the solver processes down
        import signal
        pp = subprocess.Popen(cmd, cwd=os.path.dirname(gen_path), stdout=subprocess.PIPE, stderr=subprocess.PIPE,
                              text=True, start_new_session=True)
        try:
            so, se = pp.communicate(timeout=timeout)
        except subprocess.TimeoutExpired:
            try:
                os.killpg(pp.pid, signal.SIGKILL)
            except OSError:
                pass
            pp.communicate()
            raise
        p = subprocess.CompletedProcess(cmd, pp.returncode, so, se)
    except subprocess.TimeoutExpired:
        return dict(cmd=' '.join(cmd), tool_errors=['verus timed out after %ds' % timeout],
                    failures=[], functions={}, verified=0, errors=0, wall_s=time.time() - t0,
                    smt_ms=0, raw_stderr='', resource=[])
    wall = time.time() - t0
    res = dict(cmd=' '.join(cmd), wall_s=wall, returncode=p.returncode, raw_stderr=p.stderr)
    summary = {}
    try:
        summary = json.loads(p.stdout)
    except Exception:
        # sometimes other text precedes the json
        k = p.stdout.find('{')
        try:
            summary = json.loads(p.stdout[k:]) if k >= 0 else {}
        except Exception:
            summary = {}
    vr = summary.get('verification-results', {})
    res['verified'] = vr.get('verified', 0)
    res['errors'] = vr.get('errors', 0)
    res['vir_error'] = vr.get('encountered-vir-error', False)
    res['success'] = vr.get('success', False)
    res['verus_version'] = summary.get('verus', {}).get('version')
    functions = {}
    smt_ms = 0
    tm = summary.get('times-ms', {})
    for mod in tm.get('smt', {}).get('smt-run-module-times', []):
        for fb in mod.get('function-breakdown', []):
            name = fb['function']
            d = functions.setdefault(name, dict(success=True, time_us=0, rlimit=0, mode=fb.get('mode:')))
            d['success'] = d['success'] and fb.get('success', False)
            d['time_us'] += fb.get('time-micros', 0)
            d['rlimit'] += fb.get('rlimit', 0)
    res['functions'] = functions
    res['smt_ms'] = tm.get('smt', {}).get('total', 0)
    res['total_ms'] = tm.get('total', 0)
    diags = []
    for line in p.stderr.splitlines():
        line = line.strip()
        if not line.startswith('{'):
            continue
        try:
            d = json.loads(line)
        except Exception:
            continue
        if d.get('$message_type') == 'diagnostic':
            diags.append(d)
    failures, tool_errors, resource = [], [], []
    for d in diags:
        if d.get('level') != 'error':
            # rlimit notes sometimes come as errors, sometimes as notes
            if any(re.search(rx, d.get('message', '')) for rx in RESOURCE):
                resource.append(d.get('message'))
            continue
        msg = d.get('message', '')
        if msg.startswith('aborting due to'):
            continue
        kind = classify(msg)
        if kind is None:
            if any(re.search(rx, msg) for rx in RESOURCE):
                resource.append(msg + ' @ ' + _span_desc(d))
            else:
                tool_errors.append(msg + ' @ ' + _span_desc(d))
            continue
        spans = d.get('spans', [])
        prim = [s for s in spans if s.get('is_primary')] or spans
        sec = [s for s in spans if not s.get('is_primary')]
        failures.append(dict(kind=kind, message=msg,
                             primary=_span(prim[0]) if prim else None,
                             secondary=[_span(s) for s in sec],
                             rendered=d.get('rendered', '')))
    if p.returncode != 0 and not failures and not tool_errors and not resource and not summary:
        tool_errors.append('verus exited %d without diagnostics: %s' % (p.returncode, p.stderr[-2000:]))
    res['failures'] = failures
    res['tool_errors'] = tool_errors
    res['resource'] = resource
    return res


def _span(s):
    return dict(line_start=s['line_start'], line_end=s['line_end'],
                text=' '.join(t['text'].strip() for t in s.get('text', [])[:3]),
                label=s.get('label'))


def _span_desc(d):
    sp = d.get('spans') or []
    if not sp:
        return '?'
    s = sp[0]
    return '%s:%d' % (s.get('file_name'), s.get('line_start'))
