#!/usr/bin/env python3
"""Writes /verif/MANIFEST.json from the tables below (kept here so that the manifest, the
units and DESIGN.md cannot drift apart silently).  Run after changing what is claimed."""
import json
import os

VERIF = os.path.dirname(os.path.dirname(os.path.abspath(__file__)))

TECH = 'contract-based deductive verification (Verus/Z3) of function text extracted mechanically from /repo on every run'

CLAIMED = {
    'C02': dict(
        text='Deductive proof of frame conditions over the real text of MemoryLoc::{with_offset,into_value,write_val,write_all,memset}, UnwrapOrAlloca::unwrap_or_alloca the variant->enum arm of cast_into_memory, create_nil_value, the nil branch of the optional->optional arm and cast_payload_into_tagged_union (payload -> optional / error union): every store these functions emit lies inside the destination object [loc, loc+size(ty)); the register moves of the C ABI (unit abi_moves: handle_ret, build_fn Cast parameter) store register k at byte 8k of a fresh slot of the aggregate, i.e. inside rup(size, 8) bytes (and a freshly allocated slot is exactly size(ty) bytes), for all types, offsets and loop iterations. Also under contract: cast_array_to_array and cast_struct_to_struct (every element / member is converted into its own place inside the destination, nothing outside the destination is written) and the Stmt::LocalDef arm (a local lives at offset 0 of a stack slot created by its definition and exactly as large as its type, so it shares no memory with a value that was live before). BOUNDED stand-in copy_exec: generated programs run through the compiler built from the tree -- 9 aggregate types x 8 ways of copying (every leaf of one copy overwritten, the other printed), 9 guarded destinations x the listed conversions (guard bytes printed after every store, as a field and as the middle element of an array), by-value structs of 1..64 bytes.',
        note='Partial: cast_into_memory as a whole and the ABI copy loops are not under contract -- its arms and the store-emitting callees are; the recursion is assumed to meet the frame contract. Trusted: Cranelift store footprints (shims/verus/clif.rs), layout contracts (proved in unit layout), disjointness of distinct slots/objects, operands carry their type\'s width, the by-name member map of struct casts (shim). The copy clause is proved for local definitions (fresh slot) and otherwise only checked by the bounded stand-in.',
        ref='DESIGN.md 5 (C02)'),
    'C03': dict(
        text="Deductive proof over the real text of run_defers_to_label, break_to_label, and the lifted arms Stmt::Defer, Stmt::Continue, the start and the end of Expr::Block, the Expr::While arm and the failing branch of Expr::Propagate (`.try`), with ghost state (the sequence of expressions whose code has been emitted; the set of labels that may be jumped to): a reached defer is recorded last in the frame of its block and does not run then; when a block is left through its end the defers of its frame run there (before the jump to the exit block, which runs none), last reached first, exactly once, and the frame is gone; a break / return / failing `.try` runs the defers reached so far in the block it names and in every block nested in it, innermost first, `continue` those of the blocks inside the loop body, and the frame stack is left as it was; every labelled block and every loop has its own frame while its body is compiled (frame invariant), so unwinding stops at the construct being left and never runs defers of blocks that are not being left -- for frame stacks of any depth and any number of defers. BOUNDED stand-in defer_exec: every nest of at most 2 (quick) / 3 (thorough) constructs out of {block, labelled block, while, if} with two defers per level (plus, per level, the variant in which that level registers none) and one jump (break to each label, unlabelled break, continue, return, failing .try, none), taken and not taken, is compiled by the compiler built from the tree, executed, and its output compared with an interpreter of the property statement.",
        note='Partial. Four genuine defects were found on the pinned tree and repaired in /repo (break out of a loop ran all enclosing defers; continue ran none; a break to a block ran also the defers of that block that were never reached; a break inside a while condition ran all enclosing defers). Assumed: the recursive compile_expr emits the code of its expression at the insertion point and keeps its own pushes and pops balanced (stub); break / continue name only enclosing labels (hir); a deferred expression does not jump out of itself; Cranelift control flow shims. Not covered: the `return` call site, hir::lower_defer / resolve_last_label, that the emitted code of a defer runs once at run time when blocks are re-entered (loops re-run their body code, which is the intended meaning).',
        ref='DESIGN.md 5 (C03)'),
    'C08': dict(
        text='Deductive proof over the real text of compile_num_binary, cast_num, cast_ty_to_cranelift, NumberType::bit_width and the finalize_int closure: for every numeric type pair and every operand bit pattern the emitted instruction sequence denotes the two\'s-complement result the statement prescribes. BOUNDED stand-in numeric_exec: generated programs run through the compiler built from the tree -- all pairs of 10 boundary values x 15 operators, 4 shift amounts and all 100 cast pairs over the 10 integer types up to 64 bits, int<->float round trips, 16 float values x 10 targets, mixed-width operands and 70 evaluations inside comptime, compared with Python integers.',
        note='Trusted: Cranelift instruction semantics as written in shims/verus/clif.rs; FINAL_TYS table read; float arithmetic uninterpreted; operands are assumed to carry the operand type; i128<->float only for values that fit 64 bits. Which type the checker picks for an operation and the comptime evaluation path are covered only by the bounded stand-in (boundary values).',
        ref='DESIGN.md 5 (C08)'),
    'C09': dict(
        text='Deductive proof that Ty::get_max_int_size accepts exactly the u64 literals that fit each integer type (all widths, distinct wrappers), and that finalize_int maps {int}/{uint} to i32. The checker\'s call sites (replace_weak_tys / expect_match) are outside the verifier\'s reach and get a BOUNDED stand-in on the real front end: 12 integer types x the boundary values of the quantifier x 11 (quick) / 16 (thorough) contexts in which a literal meets its type. BOUNDED stand-in literal_exec (value clause): every spelling (decimal, separators, exponents, hex lower / upper / zero-padded, binary) of 12 small and 27 boundary values, annotated, unannotated, in arithmetic and as globals, every char escape and a string with every escape, printed by a program compiled by the compiler built from the tree and compared with the value spelled.',
        note='Partial claim: the range limit (proved), the defaulting clause (proved) and the call-site clause (bounded, not a proof). lower_int_literal / escapes / the runtime value of an accepted literal are covered only by the bounded stand-in literal_exec; float literals are not covered; isize/usize are taken as 64-bit.',
        ref='DESIGN.md 5 (C09)'),
    'C10': dict(
        text='Deductive proof over the real text of compile_unreachable, compile_unreachablez, the part of the Expr::Index arm of compile_expr_with_args after its operands are compiled, and the tagged branch of #unwrap (both lifted mechanically), plus Ty::{as_array,is_array,is_slice} and FinalTy::into_real_type: for every array/slice type, index type and index value, the emitted code compares the index -- read by its own signedness and widened to 64 bits -- unsigned with the length (the array type\'s length, or the first word of the slice value); everything after the comparison, including the element access at data + index*stride(element), is emitted in a block reached only when index < length; the other edge runs exactly puts(message); exit(1); trap and no store; the only reads before the check are the two words of the slice value. #unwrap on a tagged sum type compares the stored tag byte at the layout\'s discriminant offset with the requested variant\'s discriminant and reads the payload only behind that check. The compile-time clause (a literal index out of range for a fixed-size array is rejected) sits inside infer_expr and gets a BOUNDED stand-in on the real front end: array lengths x literal indices {0, n-1, n, n+1, n+4} x 6 ways of reaching the array. BOUNDED stand-in index_exec: one generated program compiled by the compiler built from the tree and run once per (access, index): arrays, slices, pointers to arrays and nested arrays read and written with every index in 0..len+4 (usize and u8), #unwrap of an enum, ?u32, ?^u32 and str!u32 with every variant -- in range exactly that element, otherwise the message, exit status 1 and nothing after the access.',
        note='Trusted: Cranelift control-flow shim (facts of a block = facts of its single incoming edge, shims/verus/clif_cf.rs), libc puts/exit, cast_ty_to_cranelift contract (proved in unit numeric), layout contracts (unit layout). Assumed path conditions of the lifted ranges: operands carry their types, source is the address of the array/slice value, a slice value holds (length, data pointer). Not covered: the recursive compile_expr calls that produce the operands, the pointer-deref loop in front of the range, the nullable-pointer branch of #unwrap, get_tagged_union_discrim, unwrap_sum_ty (assumed to read at most the payload), message texts.',
        ref='DESIGN.md 5 (C10)'),
    'C11': dict(
        text="Run-time half: deductive proof over the real text of the tagged branch of the Expr::Switch arm of compile_expr_with_args (lifted mechanically, from the tag load to the emission of the jump table): the value switched on is the byte at the discriminant offset of the scrutinee's layout, and the jump table sends the discriminant of every arm's variant to that arm's block and every other tag to the default block (lemmas: with pairwise different variants arm i's discriminant reaches block i; a tag that is no arm's discriminant is not in the table). Checker half (inside infer_expr, out of the verifier's reach): BOUNDED stand-in on the real front end -- every sequence of at most 4 (quick) / 5 (thorough) arms over the variants of an enum and a non-variant, with and without a default arm, on an enum and on a distinct wrapper of it; accepted iff only variants, each at most once, all of them or a default arm. BOUNDED stand-in switch_exec (dispatch clause at run time): a 6-variant enum with custom discriminants (7, 200) and its distinct wrapper, ?u32, ?^u32 (both arm orders) and str!u32: all-arms switches (qualified and shorthand) and every arm subset of size <= 2 with a default arm, run on every variant through the compiler built from the tree; the arm that ran and the payload it saw are compared with the value.",
        note='Partial. Assumed: cranelift_frontend::Switch as documented (shim), get_tagged_union_discrim through an uninterpreted name, the arms carry pairwise different variants (that is the checker half). Not covered: the code of the arm blocks, the binding of the switch argument to the payload (unwrap_sum_ty), the nullable-pointer branch, optionals / error unions in the bounded half, lower_switch (MultipleDefaultArms, RegularArmAfterDefault). A genuine defect was found by the bounded half and repaired in /repo: a switch over a distinct enum made the checker panic.',
        ref='DESIGN.md 5 (C11)'),
    'C13': dict(
        text='Deductive proof over the real text of Ty::can_fit_into and Ty::is_functionally_equivalent_to (arms outside the Verus dialect elided and treated as unknown): for all types, two nominal types of the same kind with different uids never mix; nothing nominal fits into a different enum variant; a distinct/variant fits neither a named struct, nor a foreign enum, nor its own (plain) underlying type; a named struct does not fit an enum; a variant fits its own enum. The clause "variant / named struct into a distinct wrapper" fails by design and is a recorded known finding.',
        note='Partial: implicit-acceptance clause only (can_fit_into). Ty::max, can_cast_to and the checker call sites (expect_match) are not under contract; `==` on Ty is assumed structural; elided arms: anonymous struct -> named struct, function types.',
        ref='DESIGN.md 5 (C13)'),
    'C17': dict(
        text='Deductive proof over the real text of calc_single, StructLayout::new, padding_needed_for, stride, align_shift: every write to the layout tables satisfies the C17 clauses (alignment power of two <= 8, C struct offsets, array = len*stride, distinct/variant = underlying, ?ptr = ptr, tag after largest payload) for all types in the stated domain.',
        note='Trusted: global table modelled rely/guarantee (reads return what calc_single wrote), Intern canonicity, listed rewrites. Domain: language int/float widths, nested sizes <= 1 GiB. The host C compiler comparison is not part of the proof.',
        ref='DESIGN.md 5 (C17)'),
    'C18': dict(
        text='Deductive proof over the real text of simple_id, simple_id_with_align, UIDGenerator::generate_unique_id and the id-assigning match of to_type_id: for every type, the runtime type id decodes (with the masks core/src/meta.capy uses) to the kind, size, alignment and sign/mutability flag of the layout tables; compound ids carry their kind and, as index, the row the type gets in the per-kind reflection table (the number of types of that kind registered before it); ids of simple types are injective -- except isize/i64 and usize/u64, a recorded known finding. Unit any_cast adds the `any` clause: cast_into_memory keeps the ORIGINAL source type and its `(_, Ty::Any)` arm stores exactly that type\'s id (4 bytes at offset 0 of the any value). BOUNDED stand-in reflect_exec: what core.meta reports for 34 types (size, alignment, stride; member names, offsets and types; array length; integer width and sign; pointer mutability; is_non_zero and tag offset of optionals; tag offset of error unions and enums; variant count; sub types) and the 34 x 34 equality matrix of the type values, printed by a program compiled by the compiler built from the tree and compared with the documented representation rules.',
        note='Partial: type-id and any-carries-type clauses only. compile_meta_builtins (the data reflection reads) and core/src/meta.capy are not under contract; the memo lookup of to_type_id (iterator find) is assumed; recursive calls are stubs.',
        ref='DESIGN.md 5 (C18)'),
    'C19': dict(
        text="Deductive proof over the real text of crates/codegen/src/convert/abi/x86_64.rs against the System V AMD64 psABI section 3.2.3 as transcribed in units/abi/spec.rs: Class::merge_eigthbyte is the psABI merge (rules a, b, d, f; commutative, associative); classify_eight_byte gives every eightbyte of ANY type (scalars, arrays, structs, enums, optionals, error unions, distinct types, nested to any depth) the merge of the classes of the scalars that lie in it (recursive spec eb_class, unbounded induction over the type); classify_arg returns exactly that for types of at most 16 bytes and MEMORY otherwise; the post-merger clean-up of classify_arg (lifted) implements rules (c) and (d); reg_component / split_aggregate give every eightbyte of an aggregate of 1..16 bytes a register of that eightbyte's class wide enough for the bytes left, the second one starting at byte 8; fn_ty_to_abi hands out the six integer and eight vector registers left to right exactly as the psABI prescribes -- an argument gets registers only if ALL its eightbytes get one, otherwise it goes to memory and consumes none, a MEMORY-class return value costs %rdi, zero-sized arguments cost nothing -- for every signature with any number of parameters.",
        note='Unit abi_moves proves the moves: FnAbi::to_cl (hidden return pointer first, then the parameters of every argument in order; return registers in order), handle_ret (return register k is stored at byte 8k of a fresh slot of the aggregate size), the Cast arm of get_arg_list (register k is loaded from byte 8k of the argument) and the Cast parameter arm of build_fn (incoming register param+k is stored at byte 8k; the index of the following parameters shifts by count-1). A BOUNDED stand-in (unit abi_bounded, through the cfg(capy_verif) hook) runs the real lowering on all structs of at most 2 (quick) / 3 (thorough) fields from a 15-element field set in 8 signatures each against a reference written from the psABI; it decides when a refactoring loses the proof and supplies concrete inputs. Partial: ret_addr, the Indirect arms (by-value copies) and the return path of build_fn, and Expr::Call itself are not under contract; to_abiparam is assumed (iterator chain); Cranelift is trusted to assign the host registers to the value types computed; domain conditions (explicit preconditions): layouts of all parts known, size != 64 bytes, 8-byte pointers, no pure-padding eightbyte in a small aggregate, scalars aligned (C17); only the x86-64 SysV file is covered (aarch64 / windows / simplified are not); comparison with the host gcc is not part of the proof.',
        ref='DESIGN.md 5 (C19)'),
    'C24': dict(
        text="Deductive proof over the real text of the if/else chain of parse_expr_bp that picks (left_bp, right_bp) (lifted mechanically): for every token, the binding powers are exactly the documented table -- level l gets (2l-1, 2l) for `||` < `&&` < comparisons < `+ - | ~` < `* / % & << >>`, None for any other token -- and that table is proved to have what precedence climbing needs (higher level binds tighter, right power above left power = left associativity). The precedence-climbing loop around the table is recursive over a token stream and an event sink and gets a BOUNDED stand-in: every chain of at most 3 (quick) / 4 (thorough) of the 18 binary operators, also over prefixed and postfixed operands, parsed by the real lexer + parser and compared with the tree the table dictates.",
        note='Partial: the table is proved, the loop is bounded (not a proof). Parser::at / at_set and TokenSet::new are shims (the real ones are behind a proc macro / build script). Not covered: parse_lhs / parse_post_operators / prefix operators beyond the operands listed, the print-and-reparse clause, error recovery.',
        ref='DESIGN.md 5 (C24)'),
    'C25': dict(
        text='Deductive proof over the real text of LineIndex::line_col, Index<LineNr>::index and the Sub impls: for every text, every index built from it and every offset in it, line = number of newlines before the offset and column = offset - start of that line; no underflow, no out-of-bounds.',
        note='The printed `file:line:col` header (diagnostics::input_snippet) gets a BOUNDED stand-in (unit render_sites). Partial: LineIndex::new (iterator chain) is assumed to build the index (index_wf); TextSize modelled as u32; std partition_point contract assumed; the source snippet below the header is not covered.',
        ref='DESIGN.md 5 (C25)'),
    'C26': dict(
        text='Deductive, unbounded proof (Verus) over the real text of crates/topo: TopoSort::{default,len,is_empty,insert,insert_dep,remove,clear,peek_all,in_cycle,peek_all_cyclic} and Dependencies::new, with indexmap replaced by a specified shim. An inductive representation invariant (the counter of every pending item equals the number of pending items that list it as a dependant; keys distinct) is preserved by every mutator from an ARBITRARY well-formed state, hence over every history of any length and any number of items; under it peek_all offers exactly the items all of whose registered dependencies have completed, a cycle is reported iff the schedule is non-empty and every item still waits, remove makes an item disappear until it is re-registered, counters never underflow.',
        note='Assumed: the indexmap contract (shims/verus/indexmap.rs); T::clone is the identity; generic parameters instantiated at P=Q=U=T (the only use the checker makes); iterator chains of the three observers replaced by shims that take the same closure; the usage protocol "a dependency is only registered on an item that is pending or was never scheduled" is a PRECONDITION of insert/insert_dep (no stale edges) and is not proved about InferenceCtx::finish; extend/insert_deps/pop/pop_all are not under contract.',
        ref='DESIGN.md 5 (C26)'),
    'C27': dict(
        text='Deductive proof over the real text of add_part and MangledPartKind::to_code: add_part appends exactly <decimal length><text>, with an underscore put in front of texts that start with a digit or an underscore; this per-part encoding is proved injective and uniquely decodable when followed by anything (prefix-freeness lemma), and kind letters are pairwise different upper-case letters. The descriptors built by create_mangled_for_naive_global / _lambda are the own part followed by EVERY part passed on by the caller (generic ids, comptime indices): nothing that tells two definitions apart is dropped. BOUNDED stand-in mangle_file_bounded: the real text of create_mangled_for_file (table of contents + parts) compiled by rustc with a stand-in for get_components: all descriptors (module name or none, <= 2/3 path pieces over 6 names, 1..2 final parts over 5 kinds x 3 texts) get pairwise different names.',
        note='Partial: the list of parts (create_mangled_for_* iterator chains), FileName::get_components (which maps `.` to `-`: `a.b/` and `a-b/` still collide) are not under contract. Assumed: usize::to_string is a digits-only decimal text without leading zero (axioms D1-D3); part texts are ASCII.',
        ref='DESIGN.md 5 (C27)'),
}

NOT_APPLICABLE = {
    'C01': 'whole-compiler semantic preservation: needs a simulation between formal HIR and Cranelift-IR semantics through a 1 600-line function outside any verifier dialect; the reachable clauses are claimed under C02/C08/C10/C17/C19',
    'C04': 'comptime = JIT-compile + call through a transmuted function pointer; opaque to both verifiers',
    'C05': 'scope resolution walks rowan syntax trees inside filter_map closures that mutate self; no function boundary carries the rule',
    'C06': 'totality of the whole pipeline (parser recursion, inference fixpoint, ~400 unwrap sites); panic-freedom is proved only for the functions under contract, as a by-product',
    'C07': 'error <=> unsafe <=> no object is an equivalence over the whole pipeline, not a pre/post-condition',
    'C12': 'relational laws between large recursive predicates; a full functional mirror would alarm on every behavioural change (more than the property states); the bounded Kani route does not run here (ICE on Ty::max, no result in 15 min)',
    'C14': 'get_mutability needs a formal HIR access-path typing model; not within reach',
    'C15': 'get_const likewise',
    'C16': 'generic instantiation is the checker\'s fixpoint over world state',
    'C20': 'order independence of the whole checker (hyper-property over permutations)',
    'C21': 'reproducibility is a hyper-property over two executions',
    'C22': 'token automaton is derive(Logos)-generated; Verus cannot see it and Kani did not finish symbolic execution of lex on 3-byte inputs in 15 min',
    'C23': 'parser termination/losslessness needs a measure through ~2 000 lines of mutually recursive grammar functions',
    'C28': 'file-system behaviour (existence, current_dir, path cleaning) is behind syscalls neither verifier models',
}

# properties that are planned but whose unit is not built yet are listed as not applicable
# until the check exists (a manifest entry must never point at a check that cannot run)
PENDING = {
    'C25': 'unit not built yet (LineIndex::line_col)',
}


def main():
    checks = []
    for pid in sorted(CLAIMED):
        c = CLAIMED[pid]
        checks.append({
            'property_id': pid,
            'quick_cmd': './check %s --tier quick' % pid,
            'thorough_cmd': './check %s --tier thorough' % pid,
            'evidence_file': '/verif/evidence/%s.json' % pid,
            'replay_cmd_template': './check %s --replay {path}' % pid,
            'engine': 'verus-extract',
            'level_claimed': {'category': c.get('category', 'proof'), 'text': c['text'], 'design_ref': c['ref']},
            'level_note': c['note'],
            'technique': c.get('technique', TECH),
        })
    na = [{'property_id': p, 'reason': r} for p, r in sorted({**NOT_APPLICABLE, **{k: v for k, v in PENDING.items() if k not in CLAIMED}}.items())]
    m = {
        'version': 1,
        'setup_cmd': 'true',
        'hooks': {
            'guard': '--cfg capy_verif',
            'enable': 'RUSTFLAGS="--cfg capy_verif" (set by tools/bounded.py when it builds drivers/abi_sysv); every other check extracts function text from /repo\'s working tree and needs no hook',
            'baseline_off_cmd': 'cd /repo && (cargo nextest run --workspace --no-fail-fast --test-threads 8 --offline || cargo test --workspace --no-fail-fast --offline)',
            'source_commits': ['78afeb3'],
            'add_only': True,
        },
        'engines': [
            {'name': 'verus-extract', 'path': 'tools/check.py', 'serves_properties': sorted(CLAIMED),
             'kind_free_text': 'mechanical extraction of real function text (tools/unitapi.py), contracts spliced in, external crates replaced by specified shims (shims/verus), discharged by Verus 0.2026.09.13 / Z3; vacuity canary and assumption scan on every run'},
        ],
        'checks': checks,
        'not_applicable': na,
        'notes': 'exit 0 = all obligations discharged; exit 1 + VIOLATION line = an obligation that is discharged on the pinned tree failed; exit 2 = undecided (lost anchor, unsupported construct, resource limit) and is never reported as a violation. known_findings.json lists repaired defects (fix: commits in /repo).',
    }
    with open(os.path.join(VERIF, 'MANIFEST.json'), 'w') as f:
        json.dump(m, f, indent=1)
    print('wrote MANIFEST.json: %d checks, %d not applicable' % (len(checks), len(na)))


if __name__ == '__main__':
    main()
