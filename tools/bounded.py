"""Runner for bounded stand-ins: a small driver crate under /verif/drivers is built against
the real crates of the tree under check (path dependency, offline) in the scratch directory
and run.  The result is labelled *bounded* in the evidence and never counted as proved."""
import os
import re
import shutil
import subprocess
import time

VERIF = os.path.dirname(os.path.dirname(os.path.abspath(__file__)))


def run_driver(unit, prop, repo, scratch, tier, driver, args_quick, args_thorough, function, what, timeout=1500, rustflags=None, profile='release'):
    t0 = time.time()
    r = dict(unit=unit.name, kind='bounded', status='ok', undecided=[], failures=[], per_fn=[], samples=[],
             obligations=0, discharged=0, assumption_texts=[], bounded=[], wall_s=0.0)
    src = os.path.join(VERIF, 'drivers', driver)
    d = os.path.join(scratch, 'driver_' + driver)
    shutil.copytree(src, d)
    with open(os.path.join(d, 'Cargo.toml.in')) as f:
        toml = f.read().replace('@REPO@', os.path.abspath(repo))
    with open(os.path.join(d, 'Cargo.toml'), 'w') as f:
        f.write(toml)
    lock = os.path.join(repo, 'Cargo.lock')
    if os.path.exists(lock):
        shutil.copy(lock, os.path.join(d, 'Cargo.lock'))
    # build output: per run in the scratch directory; for the tree under /repo itself a
    # persistent directory under /verif/.cache is reused (cargo rebuilds whatever changed in
    # the working tree; the directory is not needed for correctness and may be deleted)
    tdir = os.path.join(d, 'target')
    if os.path.abspath(repo) == '/repo' and os.environ.get('VERIF_NO_CACHE') != '1':
        tdir = os.path.join(VERIF, '.cache', 'target-' + driver)
        os.makedirs(tdir, exist_ok=True)
    env = dict(os.environ, CARGO_NET_OFFLINE='true', CARGO_TARGET_DIR=tdir)
    if rustflags:
        env['RUSTFLAGS'] = rustflags
    build = ['cargo', 'build', '--offline'] + (['--release'] if profile == 'release' else [])
    b = subprocess.run(build, cwd=d, env=env, capture_output=True, text=True)
    if b.returncode != 0:
        # a lock file that does not fit the driver: retry without it
        if os.path.exists(os.path.join(d, 'Cargo.lock')):
            os.remove(os.path.join(d, 'Cargo.lock'))
            b = subprocess.run(build, cwd=d, env=env, capture_output=True, text=True)
    if b.returncode != 0:
        r['status'] = 'undecided'
        r['undecided'].append('driver %s does not build against this tree: %s' % (driver, b.stderr[-800:]))
        return r
    exe = os.path.join(tdir, 'release' if profile == 'release' else 'debug', driver + '_driver')
    args = args_thorough if tier == 'thorough' else args_quick
    cmd = [exe] + [str(a) for a in args]
    try:
        p = subprocess.run(cmd, capture_output=True, text=True, timeout=timeout)
    except subprocess.TimeoutExpired:
        r['status'] = 'undecided'
        r['undecided'].append('driver %s timed out' % driver)
        return r
    out = p.stdout
    m = re.search(r'SUMMARY (.*)', out)
    summ = dict(kv.split('=') for kv in m.group(1).split()) if m else {}
    r['checker_cmd'] = 'cargo build --release --offline (drivers/%s against %s) ; %s' % (driver, repo, ' '.join(cmd[1:]) and os.path.basename(exe) + ' ' + ' '.join(cmd[1:]))
    r['bounded'].append(dict(unit=unit.name, function=function, bound=what, summary=summ, backend='concrete exhaustive enumeration (rustc, real crate)'))
    r['samples'].append(dict(bounded_check=function, summary=summ))
    r['wall_s'] = time.time() - t0
    mm = re.search(r'MISMATCH (.*)', out)
    if mm:
        r['status'] = 'fail'
        ob = dict(unit=unit.name, function=function, kind='bounded-check', clause=what, site=None,
                  id='%s::%s::bounded-check' % (unit.name, function), primary=None, secondary=[],
                  message='bounded check failed', rendered=out[-1500:],
                  witness=dict(kind='concrete-input', input=mm.group(1), cmd=' '.join(cmd),
                               note='failing input found on the real crate by exhaustive enumeration'))
        r['failures'].append(ob)
    elif p.returncode != 0 or not m:
        r['status'] = 'undecided'
        r['undecided'].append('driver %s exited %d without a summary: %s' % (driver, p.returncode, (out + p.stderr)[-500:]))
    return r
