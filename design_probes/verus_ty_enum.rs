use vstd::prelude::*;
verus! {

// shim for internment::Intern (external crate): a copyable handle to an immutable T
pub struct Intern<T: 'static>(pub &'static T);
impl<T> Clone for Intern<T> { fn clone(&self) -> (r: Self) ensures r == *self { Intern(self.0) } }
impl<T> Copy for Intern<T> {}
impl<T> Intern<T> {
    pub fn as_ref(&self) -> (r: &T) ensures *r == *self.0 { self.0 }
}
impl<T> core::ops::Deref for Intern<T> {
    type Target = T;
    fn deref(&self) -> (r: &T) ensures *r == *self.0 { self.0 }
}

pub struct Name(pub u32);
pub struct MemberTy { pub name: Name, pub ty: Intern<Ty> }

pub enum Ty {
    NotYetResolved,
    Unknown,
    IInt(u8),
    UInt(u8),
    Float(u8),
    Bool,
    AnonArray { size: u64, sub_ty: Intern<Ty> },
    Distinct { uid: u32, sub_ty: Intern<Ty> },
    ConcreteStruct { uid: u32, members: Vec<MemberTy> },
    Enum { uid: u32, variants: Vec<Intern<Ty>> },
    Optional { sub_ty: Intern<Ty> },
    Void,
}

impl Ty {
    pub fn get_max_int_size(&self) -> (r: Option<u64>)
        decreases self
    {
        match self {
            Ty::IInt(bit_width) => match bit_width {
                8 => Some(i8::MAX as u64),
                16 => Some(i16::MAX as u64),
                32 => Some(i32::MAX as u64),
                64 | 128 => Some(i64::MAX as u64),
                _ => None,
            },
            Ty::UInt(bit_width) => match bit_width {
                8 => Some(u8::MAX as u64),
                16 => Some(u16::MAX as u64),
                32 => Some(u32::MAX as u64),
                64 | 128 => Some(u64::MAX),
                _ => None,
            },
            Ty::Distinct { sub_ty: ty, .. } => ty.get_max_int_size(),
            _ => None,
        }
    }
}

pub uninterp spec fn spec_size(t: Ty, pbw: u32) -> u32;

#[verifier::external_body]
fn table_size(t: Intern<Ty>, Ghost(pbw): Ghost<u32>) -> (r: u32) ensures r == spec_size(*t.0, pbw) { unimplemented!() }

fn calc_single(ty: Intern<Ty>, pointer_bit_width: u32) -> (size: u32)
    requires pointer_bit_width == 64 || pointer_bit_width == 32
    decreases *ty.0
{
    let size = match ty.as_ref() {
        Ty::NotYetResolved | Ty::Unknown => 0,
        Ty::IInt(u8::MAX) | Ty::UInt(u8::MAX) => pointer_bit_width / 8,
        Ty::IInt(0) | Ty::UInt(0) => 32 / 8,
        Ty::IInt(bit_width) | Ty::UInt(bit_width) => *bit_width as u32 / 8,
        Ty::Float(0) => 32 / 8,
        Ty::Float(bit_width) => *bit_width as u32 / 8,
        Ty::Bool => 1,
        Ty::AnonArray { size, sub_ty } => {
            calc_single(*sub_ty, pointer_bit_width);
            0
        }
        Ty::Distinct { sub_ty, .. } => {
            calc_single(*sub_ty, pointer_bit_width);
            table_size(*sub_ty, Ghost(pointer_bit_width))
        }
        Ty::Enum { variants, .. } => {
            let mut max_variant_size = 0;
            for variant_ty in variants {
                calc_single(*variant_ty, pointer_bit_width);
                let variant_size = table_size(*variant_ty, Ghost(pointer_bit_width));
                if variant_size > max_variant_size {
                    max_variant_size = variant_size;
                }
            }
            max_variant_size
        }
        _ => 0,
    };
    size
}

} // verus!
fn main() {}
