pub(crate) fn padding_needed_for(offset: u32, align: u32) -> u32 {
    let misalign = offset % align;
    if misalign > 0 {
        // the amount needed to round up to the next proper offset
        align - misalign
    } else {
        0
    }
}
fn simple_id_with_align(discriminant: u32, size: u32, align: u32, signed: bool) -> u32 {
    assert!(discriminant < 0b111111);
    assert!(size < 0b11111);
    assert!(align < 0b1111);
    let id = discriminant << 26;
    let align = align << 5;
    let sign = (signed as u32) << 9;
    id | sign | align | size
}
#[cfg(kani)]
mod v {
    use super::*;
    #[kani::proof]
    fn pad() {
        let o: u32 = kani::any(); let a: u32 = kani::any();
        kani::assume(a == 1 || a == 2 || a == 4 || a == 8);
        kani::assume(o < 0xffff_fff0);
        let r = padding_needed_for(o, a);
        assert!(r < a && (o + r) % a == 0);
    }
    #[kani::proof]
    fn id_injective() {
        let (d1, s1, a1, g1): (u32, u32, u32, bool) = kani::any();
        let (d2, s2, a2, g2): (u32, u32, u32, bool) = kani::any();
        kani::assume(d1 < 63 && s1 < 31 && a1 < 15 && d2 < 63 && s2 < 31 && a2 < 15);
        let x = simple_id_with_align(d1, s1, a1, g1);
        let y = simple_id_with_align(d2, s2, a2, g2);
        if x == y { assert!(d1 == d2 && s1 == s2 && a1 == a2 && g1 == g2); }
        assert!(x >> 26 == d1 && x & 0b11111 == s1 && (x >> 5) & 0b1111 == a1 && ((x >> 9) & 1 == 1) == g1);
    }
}
