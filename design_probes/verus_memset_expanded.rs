use vstd::prelude::*;
verus! {

pub mod types {
    use vstd::prelude::*;
    #[derive(Clone, Copy, PartialEq, Eq, Debug)]
    pub struct Type { pub bits_: u32, pub is_float: bool }
    impl Type {
        pub fn bits(self) -> (r: u32) ensures r == self.bits_ { self.bits_ }
        pub fn int_with_byte_size(n: u16) -> (r: Option<Type>)
            ensures (n == 1 || n == 2 || n == 4 || n == 8 || n == 16) ==> r == Some(Type { bits_: (n * 8) as u32, is_float: false })
        { if n == 1 || n == 2 || n == 4 || n == 8 || n == 16 { Some(Type { bits_: (n as u32) * 8, is_float: false }) } else { None } }
    }
}

#[derive(Clone, Copy)]
pub struct Value { pub id: u32, pub ty: Ghost<types::Type> }
#[derive(Clone, Copy)]
pub struct StackSlot { pub id: u32 }
pub struct MemFlags {}
impl MemFlags { pub fn trusted() -> MemFlags { MemFlags {} } }
pub struct Module {}
pub struct TargetConfig {}
impl Module { pub fn target_config(&self) -> TargetConfig { TargetConfig {} } }

pub ghost enum Ev {
    Pure,
    StackStore { slot: u32, lo: int, hi: int },
    Store { addr: u32, lo: int, hi: int },
    MemOp { addr: u32, lo: int, hi: int },
}

pub struct FunctionBuilder { pub log: Ghost<Seq<Ev>> }
pub struct Ins { pub ev: Ghost<Ev> }

impl FunctionBuilder {
    #[verifier::external_body]
    pub fn ins(&mut self) -> (r: Ins)
        ensures final(self).log@ == old(self).log@.push(r.ev@)
    { unimplemented!() }

    #[verifier::external_body]
    pub fn emit_small_memset(&mut self, config: TargetConfig, buffer: Value, ch: u8, size: u64, buffer_align: u8, flags: MemFlags)
        ensures final(self).log@ == old(self).log@.push(Ev::MemOp { addr: buffer.id, lo: 0, hi: size as int })
    { unimplemented!() }
}

impl Ins {
    #[verifier::external_body]
    pub fn iconst(self, ty: types::Type, imm: i64) -> (r: Value)
        ensures self.ev@ == Ev::Pure, r.ty@ == ty
    { unimplemented!() }
    #[verifier::external_body]
    pub fn iadd_imm(self, x: Value, imm: i64) -> (r: Value)
        ensures self.ev@ == Ev::Pure, r.ty@ == x.ty@
    { unimplemented!() }
    #[verifier::external_body]
    pub fn stack_store(self, x: Value, slot: StackSlot, off: i32)
        ensures self.ev@ == (Ev::StackStore { slot: slot.id, lo: off as int, hi: off + x.ty@.bits_ / 8 })
    { unimplemented!() }
}

// shim for Intern<Ty> + GetLayoutInfo (contracts proven in the layout unit)
#[derive(Clone, Copy)]
pub struct InternTy { pub id: u32 }
pub uninterp spec fn ty_size(t: InternTy) -> nat;
pub uninterp spec fn ty_align(t: InternTy) -> nat;
pub open spec fn ty_stride(t: InternTy) -> nat { ((ty_size(t) + ty_align(t) - 1) as int / (ty_align(t) as int) * (ty_align(t) as int)) as nat }
impl InternTy {
    #[verifier::external_body]
    pub fn size(&self) -> (r: u32) ensures r == ty_size(*self) { unimplemented!() }
    #[verifier::external_body]
    pub fn align(&self) -> (r: u32) ensures r == ty_align(*self), r == 1 || r == 2 || r == 4 || r == 8 { unimplemented!() }
    #[verifier::external_body]
    pub fn stride(&self) -> (r: u32) ensures r == ty_stride(*self) { unimplemented!() }
}

#[derive(Clone, Copy)]
enum Location {
    Stack(StackSlot),
    Addr(Value),
}

#[derive(Clone, Copy)]
pub struct MemoryLoc {
    addr: Location,
    offset: u32,
}

spec fn within(e: Ev, m: MemoryLoc, size: nat) -> bool {
    match e {
        Ev::Pure => true,
        Ev::StackStore { slot, lo, hi } => m.addr is Stack && m.addr->Stack_0.id == slot && m.offset <= lo && hi <= m.offset + size,
        Ev::Store { addr, lo, hi } => false,
        Ev::MemOp { addr, lo, hi } => lo >= 0 && hi <= size,
    }
}

impl MemoryLoc {
    /// writes the byte `val` into every byte of `ty`
    fn memset(
        self,
        module: &mut Module,
        builder: &mut FunctionBuilder,
        val: u8,
        ty: InternTy,
    )
        requires self.offset as int + ty_stride(ty) < 0x7fff_0000, ty_size(ty) < 0x7fff_0000,
        ensures
            final(builder).log@.len() >= old(builder).log@.len(),
            forall|i: int| old(builder).log@.len() <= i < final(builder).log@.len() ==> within(#[trigger] final(builder).log@[i], self, ty_size(ty)),
    {
        match self.addr {
            Location::Addr(mut addr) => {
                if self.offset != 0 {
                    addr = builder.ins().iadd_imm(addr, self.offset as i64);
                }
                builder.emit_small_memset(
                    module.target_config(),
                    addr,
                    val,
                    ty.size() as u64,
                    ty.align() as u8,
                    MemFlags::trusted(),
                );
            }
            Location::Stack(slot) => {
                // be very explicit to cranelift what we are doing here
                // since there is no `emit_stack_memcpy`, do it ourselves
                let mut off: i32 = 0;
while (off + 8) <= (ty.stride() as i32 / 8) * 8
                            invariant
                                0 <= off, off <= ty_stride(ty),
                                self.offset as int + ty_stride(ty) < 0x7fff_0000,
                                builder.log@.len() >= old(builder).log@.len(),
                                forall|i: int| old(builder).log@.len() <= i < builder.log@.len() ==> within(#[trigger] builder.log@[i], self, ty_size(ty)),
                            decreases ty_stride(ty) - off
                        {
                            let val = builder.ins().iconst(
                                types::Type::int_with_byte_size(8).unwrap(),
                                val as i64,
                            );
                            builder
                                .ins()
                                .stack_store(val, slot, off + self.offset as i32);
                            off += 8;
                        }
while (off + 4) <= (ty.stride() as i32 / 4) * 4
                            invariant
                                0 <= off, off <= ty_stride(ty),
                                self.offset as int + ty_stride(ty) < 0x7fff_0000,
                                builder.log@.len() >= old(builder).log@.len(),
                                forall|i: int| old(builder).log@.len() <= i < builder.log@.len() ==> within(#[trigger] builder.log@[i], self, ty_size(ty)),
                            decreases ty_stride(ty) - off
                        {
                            let val = builder.ins().iconst(
                                types::Type::int_with_byte_size(8).unwrap(),
                                val as i64,
                            );
                            builder
                                .ins()
                                .stack_store(val, slot, off + self.offset as i32);
                            off += 4;
                        }
while (off + 2) <= (ty.stride() as i32 / 2) * 2
                            invariant
                                0 <= off, off <= ty_stride(ty),
                                self.offset as int + ty_stride(ty) < 0x7fff_0000,
                                builder.log@.len() >= old(builder).log@.len(),
                                forall|i: int| old(builder).log@.len() <= i < builder.log@.len() ==> within(#[trigger] builder.log@[i], self, ty_size(ty)),
                            decreases ty_stride(ty) - off
                        {
                            let val = builder.ins().iconst(
                                types::Type::int_with_byte_size(8).unwrap(),
                                val as i64,
                            );
                            builder
                                .ins()
                                .stack_store(val, slot, off + self.offset as i32);
                            off += 2;
                        }
while (off + 1) <= (ty.stride() as i32 / 1) * 1
                            invariant
                                0 <= off, off <= ty_stride(ty),
                                self.offset as int + ty_stride(ty) < 0x7fff_0000,
                                builder.log@.len() >= old(builder).log@.len(),
                                forall|i: int| old(builder).log@.len() <= i < builder.log@.len() ==> within(#[trigger] builder.log@[i], self, ty_size(ty)),
                            decreases ty_stride(ty) - off
                        {
                            let val = builder.ins().iconst(
                                types::Type::int_with_byte_size(8).unwrap(),
                                val as i64,
                            );
                            builder
                                .ins()
                                .stack_store(val, slot, off + self.offset as i32);
                            off += 1;
                        }

            }
        }
    }
}

} // verus!
fn main() {}
