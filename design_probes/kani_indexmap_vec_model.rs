//! Vec-backed executable model of the indexmap API subset used by capy's `topo` crate.
pub mod map {
    pub struct IndexMap<K, V> { pub entries: Vec<(K, V)> }
    impl<K, V> Default for IndexMap<K, V> { fn default() -> Self { IndexMap { entries: Vec::new() } } }
    impl<K: Clone, V: Clone> Clone for IndexMap<K, V> { fn clone(&self) -> Self { IndexMap { entries: self.entries.clone() } } }
    impl<K: core::fmt::Debug, V: core::fmt::Debug> core::fmt::Debug for IndexMap<K, V> {
        fn fmt(&self, f: &mut core::fmt::Formatter<'_>) -> core::fmt::Result { f.write_str("IndexMap") }
    }
    pub enum Entry<'a, K, V> { Occupied(OccupiedEntry<'a, K, V>), Vacant(VacantEntry<'a, K, V>) }
    pub struct OccupiedEntry<'a, K, V> { map: &'a mut IndexMap<K, V>, idx: usize }
    pub struct VacantEntry<'a, K, V> { map: &'a mut IndexMap<K, V>, key: K }
    impl<'a, K, V> OccupiedEntry<'a, K, V> {
        pub fn into_mut(self) -> &'a mut V { &mut self.map.entries[self.idx].1 }
    }
    impl<'a, K, V> VacantEntry<'a, K, V> {
        pub fn insert(self, v: V) -> &'a mut V { self.map.entries.push((self.key, v)); let n = self.map.entries.len(); &mut self.map.entries[n - 1].1 }
    }
    impl<'a, K, V> Entry<'a, K, V> {
        pub fn or_insert_with<F: FnOnce() -> V>(self, f: F) -> &'a mut V {
            match self { Entry::Occupied(e) => e.into_mut(), Entry::Vacant(e) => e.insert(f()) }
        }
    }
    impl<K: Eq, V> IndexMap<K, V> {
        fn find(&self, k: &K) -> Option<usize> {
            let mut i = 0;
            while i < self.entries.len() { if self.entries[i].0 == *k { return Some(i); } i += 1; }
            None
        }
        pub fn len(&self) -> usize { self.entries.len() }
        pub fn is_empty(&self) -> bool { self.entries.is_empty() }
        pub fn clear(&mut self) { self.entries.clear() }
        pub fn entry(&mut self, key: K) -> Entry<'_, K, V> {
            match self.find(&key) { Some(idx) => Entry::Occupied(OccupiedEntry { map: self, idx }), None => Entry::Vacant(VacantEntry { map: self, key }) }
        }
        pub fn get(&self, k: &K) -> Option<&V> { match self.find(k) { Some(i) => Some(&self.entries[i].1), None => None } }
        pub fn get_mut(&mut self, k: &K) -> Option<&mut V> { match self.find(k) { Some(i) => Some(&mut self.entries[i].1), None => None } }
        pub fn shift_remove(&mut self, k: &K) -> Option<V> { match self.find(k) { Some(i) => Some(self.entries.remove(i).1), None => None } }
        pub fn iter(&self) -> impl Iterator<Item = (&K, &V)> + '_ { self.entries.iter().map(|(k, v)| (k, v)) }
        pub fn keys(&self) -> impl Iterator<Item = &K> + '_ { self.entries.iter().map(|(k, _)| k) }
        pub fn values(&self) -> impl Iterator<Item = &V> + '_ { self.entries.iter().map(|(_, v)| v) }
        pub fn extend<I: IntoIterator<Item = (K, V)>>(&mut self, it: I) {
            for (k, v) in it { match self.find(&k) { Some(i) => { self.entries[i].1 = v; } None => self.entries.push((k, v)) } }
        }
    }
}
pub mod set {
    pub struct IndexSet<T> { pub items: Vec<T> }
    impl<T> Default for IndexSet<T> { fn default() -> Self { IndexSet { items: Vec::new() } } }
    impl<T: Clone> Clone for IndexSet<T> { fn clone(&self) -> Self { IndexSet { items: self.items.clone() } } }
    impl<T> core::fmt::Debug for IndexSet<T> { fn fmt(&self, f: &mut core::fmt::Formatter<'_>) -> core::fmt::Result { f.write_str("IndexSet") } }
    impl<T: Eq> IndexSet<T> {
        pub fn insert(&mut self, t: T) -> bool {
            let mut i = 0;
            while i < self.items.len() { if self.items[i] == t { return false; } i += 1; }
            self.items.push(t); true
        }
        pub fn contains(&self, t: &T) -> bool { self.items.iter().any(|x| x == t) }
    }
    impl<'a, T> IntoIterator for &'a IndexSet<T> { type Item = &'a T; type IntoIter = core::slice::Iter<'a, T>; fn into_iter(self) -> Self::IntoIter { self.items.iter() } }
}
pub use map::IndexMap;
pub use set::IndexSet;
