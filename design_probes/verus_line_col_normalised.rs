use vstd::prelude::*;
verus! {

// ---- shim for text_size::TextSize (external crate) ----
#[derive(Clone, Copy, PartialEq, Eq, PartialOrd, Ord)]
pub struct TextSize { pub raw: u32 }

impl TextSize {
    pub fn le(&self, o: &TextSize) -> (b: bool) ensures b == (self.raw <= o.raw) { self.raw <= o.raw }
}

pub struct LineNr(pub u32);
pub struct ColNr(pub u32);

pub struct LineIndex { pub line_starts: Vec<TextSize> }

pub open spec fn sorted(s: Seq<TextSize>) -> bool {
    forall|i: int, j: int| 0 <= i < j < s.len() ==> s[i].raw < s[j].raw
}

// shim for slice::partition_point specialised (assumed std contract)
#[verifier::external_body]
pub fn partition_point_le(v: &Vec<TextSize>, offset: TextSize) -> (r: usize)
    requires sorted(v@)
    ensures r <= v.len(),
        forall|i: int| 0 <= i < r ==> v@[i].raw <= offset.raw,
        forall|i: int| r <= i < v.len() ==> v@[i].raw > offset.raw,
{ unimplemented!() }

impl LineIndex {
    pub open spec fn wf(&self) -> bool {
        self.line_starts.len() >= 1 && self.line_starts@[0].raw == 0 && sorted(self.line_starts@)
        && self.line_starts.len() < 0x1_0000_0000
    }

    pub fn line_col(&self, offset: TextSize) -> (res: (LineNr, ColNr))
        requires self.wf()
        ensures
            (res.0).0 < self.line_starts.len(),
            self.line_starts@[(res.0).0 as int].raw <= offset.raw,
            (res.0).0 + 1 < self.line_starts.len() ==> offset.raw < self.line_starts@[(res.0).0 + 1].raw,
            (res.1).0 == offset.raw - self.line_starts@[(res.0).0 as int].raw,
    {
        let line = partition_point_le(&self.line_starts, offset) - 1;
        let line = LineNr(line as u32);

        let line_start_offset = self.line_starts[line.0 as usize];
        let col = ColNr(offset.raw - line_start_offset.raw);

        (line, col)
    }
}

pub fn padding_needed_for(offset: u32, align: u32) -> (r: u32)
    requires align > 0
    ensures r < align, (offset as int + r as int) % (align as int) == 0,
       offset % align == 0 ==> r == 0
{
    let misalign = offset % align;
    if misalign > 0 {
        // the amount needed to round up to the next proper offset
        align - misalign
    } else {
        0
    }
}

} // verus!
fn main() {}
