use vstd::prelude::*;
verus! {

// ===== shim: cranelift types (external dependency, assumed contracts) =====
pub mod types {
    use vstd::prelude::*;
    #[derive(Clone, Copy, PartialEq, Eq, Debug)]
    pub struct Type { pub bits_: u32, pub is_float: bool }
    impl Type {
        pub fn bits(self) -> (r: u32) ensures r == self.bits_ { self.bits_ }
    }
    pub const I8: Type = Type { bits_: 8, is_float: false };
    pub const I16: Type = Type { bits_: 16, is_float: false };
    pub const I32: Type = Type { bits_: 32, is_float: false };
    pub const I64: Type = Type { bits_: 64, is_float: false };
    pub const I128: Type = Type { bits_: 128, is_float: false };
    pub const F32: Type = Type { bits_: 32, is_float: true };
    pub const F64: Type = Type { bits_: 64, is_float: true };
}

// denotation of an SSA value: a bit-pattern of a given width, or an abstract float
pub ghost enum Den {
    Int { bits: nat, val: nat },       // 0 <= val < 2^bits
    Float { bits: nat, f: FloatVal },
}
pub ghost struct FloatVal { pub id: int }

pub open spec fn pow2(n: nat) -> nat decreases n { if n == 0 { 1 } else { 2 * pow2((n - 1) as nat) } }
pub open spec fn sint(bits: nat, val: nat) -> int { if val >= pow2((bits - 1) as nat) { val - pow2(bits) } else { val as int } }
pub uninterp spec fn round_sint(bits: nat, v: int) -> FloatVal;
pub uninterp spec fn round_uint(bits: nat, v: int) -> FloatVal;
pub uninterp spec fn trunc_sat_s(bits: nat, f: FloatVal) -> nat;
pub uninterp spec fn trunc_sat_u(bits: nat, f: FloatVal) -> nat;
pub uninterp spec fn fpromote_s(bits: nat, f: FloatVal) -> FloatVal;
pub uninterp spec fn fdemote_s(bits: nat, f: FloatVal) -> FloatVal;

#[derive(Clone, Copy)]
pub struct Value { pub id: u32, pub den: Ghost<Den> }

pub struct FunctionBuilder { pub n: u32 }
pub struct Ins { }

impl FunctionBuilder {
    #[verifier::external_body]
    pub fn ins(&mut self) -> (r: Ins) { Ins {} }
}

impl Ins {
    #[verifier::external_body]
    pub fn sextend(self, ty: types::Type, v: Value) -> (r: Value)
        requires v.den@ is Int, !ty.is_float, ty.bits_ > v.den@->Int_bits
        ensures r.den@ == (Den::Int { bits: ty.bits_ as nat, val: (sint(v.den@->Int_bits, v.den@->Int_val) % (pow2(ty.bits_ as nat) as int)) as nat })
    { unimplemented!() }
    #[verifier::external_body]
    pub fn uextend(self, ty: types::Type, v: Value) -> (r: Value)
        requires v.den@ is Int, !ty.is_float, ty.bits_ > v.den@->Int_bits
        ensures r.den@ == (Den::Int { bits: ty.bits_ as nat, val: v.den@->Int_val })
    { unimplemented!() }
    #[verifier::external_body]
    pub fn ireduce(self, ty: types::Type, v: Value) -> (r: Value)
        requires v.den@ is Int, !ty.is_float, ty.bits_ < v.den@->Int_bits
        ensures r.den@ == (Den::Int { bits: ty.bits_ as nat, val: v.den@->Int_val % pow2(ty.bits_ as nat) })
    { unimplemented!() }
    #[verifier::external_body]
    pub fn fpromote(self, ty: types::Type, v: Value) -> (r: Value)
        requires v.den@ is Float, ty.is_float, ty.bits_ > v.den@->Float_bits
        ensures r.den@ == (Den::Float { bits: ty.bits_ as nat, f: fpromote_s(ty.bits_ as nat, v.den@->Float_f) })
    { unimplemented!() }
    #[verifier::external_body]
    pub fn fdemote(self, ty: types::Type, v: Value) -> (r: Value)
        requires v.den@ is Float, ty.is_float, ty.bits_ < v.den@->Float_bits
        ensures r.den@ == (Den::Float { bits: ty.bits_ as nat, f: fdemote_s(ty.bits_ as nat, v.den@->Float_f) })
    { unimplemented!() }
    #[verifier::external_body]
    pub fn fcvt_to_sint_sat(self, ty: types::Type, v: Value) -> (r: Value)
        requires v.den@ is Float, !ty.is_float
        ensures r.den@ == (Den::Int { bits: ty.bits_ as nat, val: trunc_sat_s(ty.bits_ as nat, v.den@->Float_f) })
    { unimplemented!() }
    #[verifier::external_body]
    pub fn fcvt_to_uint_sat(self, ty: types::Type, v: Value) -> (r: Value)
        requires v.den@ is Float, !ty.is_float
        ensures r.den@ == (Den::Int { bits: ty.bits_ as nat, val: trunc_sat_u(ty.bits_ as nat, v.den@->Float_f) })
    { unimplemented!() }
    #[verifier::external_body]
    pub fn fcvt_from_sint(self, ty: types::Type, v: Value) -> (r: Value)
        requires v.den@ is Int, ty.is_float
        ensures r.den@ == (Den::Float { bits: ty.bits_ as nat, f: round_sint(ty.bits_ as nat, sint(v.den@->Int_bits, v.den@->Int_val)) })
    { unimplemented!() }
    #[verifier::external_body]
    pub fn fcvt_from_uint(self, ty: types::Type, v: Value) -> (r: Value)
        requires v.den@ is Int, ty.is_float
        ensures r.den@ == (Den::Float { bits: ty.bits_ as nat, f: round_uint(ty.bits_ as nat, v.den@->Int_val as int) })
    { unimplemented!() }
}

// ===== extracted verbatim from crates/codegen/src/convert.rs =====
#[derive(Debug, Clone, Copy)]
pub(crate) struct NumberType {
    pub(crate) ty: types::Type,
    pub(crate) float: bool,
    pub(crate) signed: bool,
}

impl NumberType {
    pub(crate) fn bit_width(&self) -> (r: u8)
        requires self.ty.bits_ <= 128
        ensures r == self.ty.bits_
    {
        self.ty.bits() as u8
    }
}

spec fn nt_wf(t: NumberType) -> bool {
    t.float == t.ty.is_float &&
    (t.float ==> (t.ty.bits_ == 32 || t.ty.bits_ == 64)) &&
    (!t.float ==> (t.ty.bits_ == 8 || t.ty.bits_ == 16 || t.ty.bits_ == 32 || t.ty.bits_ == 64 || t.ty.bits_ == 128))
}

// the language-level meaning of a numeric cast (from the property statement)
spec fn lang_cast(from: NumberType, to: NumberType, d: Den) -> Den {
    if !from.float && !to.float {
        let v = if from.signed { sint(from.ty.bits_ as nat, d->Int_val) } else { d->Int_val as int };
        Den::Int { bits: to.ty.bits_ as nat, val: (v % (pow2(to.ty.bits_ as nat) as int)) as nat }
    } else { d }
}

// ===== extracted verbatim from crates/codegen/src/compiler/mod.rs =====
fn cast_num(
    builder: &mut FunctionBuilder,
    val: Value,
    cast_from: NumberType,
    cast_to: NumberType,
) -> (res: Value)
    requires nt_wf(cast_from), nt_wf(cast_to),
        cast_from.float ==> (val.den@ is Float && val.den@->Float_bits == cast_from.ty.bits_),
        !cast_from.float ==> (val.den@ is Int && val.den@->Int_bits == cast_from.ty.bits_ && val.den@->Int_val < pow2(cast_from.ty.bits_ as nat)),
    ensures
        (!cast_from.float && !cast_to.float) ==> res.den@ == lang_cast(cast_from, cast_to, val.den@),
{
    if cast_from.bit_width() == cast_to.bit_width() && cast_from.float == cast_to.float {
        // the cast is irrelevant, so just return the value
        return val;
    }

    match (cast_from.float, cast_to.float) {
        (true, true) => {
            // float to float
            match cast_from.bit_width().cmp(&cast_to.bit_width()) {
                std::cmp::Ordering::Less => builder.ins().fpromote(cast_to.ty, val),
                std::cmp::Ordering::Equal => val,
                std::cmp::Ordering::Greater => builder.ins().fdemote(cast_to.ty, val),
            }
        }
        (true, false) => {
            // float to int

            // cranelift can only convert floats to i32 or i64, so we do that first,
            // then cast the i32 or i64 to the actual one we want
            let int_to = match cast_from.bit_width() {
                32 => types::I32,
                64 => types::I64,
                _ => unreachable!(),
            };

            let first_cast = if cast_to.signed {
                builder.ins().fcvt_to_sint_sat(int_to, val)
            } else {
                builder.ins().fcvt_to_uint_sat(int_to, val)
            };

            // now we can convert the `first_cast` int value to the actual int type we want
            match cast_from.bit_width().cmp(&cast_to.bit_width()) {
                std::cmp::Ordering::Less if cast_to.signed => {
                    builder.ins().sextend(cast_to.ty, first_cast)
                }
                std::cmp::Ordering::Less => builder.ins().uextend(cast_to.ty, first_cast),
                std::cmp::Ordering::Equal => first_cast,
                std::cmp::Ordering::Greater => builder.ins().ireduce(cast_to.ty, first_cast),
            }
        }
        (false, true) => {
            // int to float

            // first we have to convert the int to an int that can converted to float
            let int_to = match cast_to.bit_width() {
                32 => types::I32,
                64 => types::I64,
                _ => unreachable!(),
            };

            let first_cast = match cast_from.bit_width().cmp(&cast_to.bit_width()) {
                std::cmp::Ordering::Less if cast_from.signed && cast_to.signed => {
                    builder.ins().sextend(int_to, val)
                }
                std::cmp::Ordering::Less => builder.ins().uextend(int_to, val),
                std::cmp::Ordering::Equal => val,
                std::cmp::Ordering::Greater => builder.ins().ireduce(int_to, val),
            };

            // now we can convert that 32 or 64 bit int into a 32 or 64 bit float
            if cast_from.signed {
                builder.ins().fcvt_from_sint(cast_to.ty, first_cast)
            } else {
                builder.ins().fcvt_from_uint(cast_to.ty, first_cast)
            }
        }
        (false, false) => {
            // int to int
            match cast_from.bit_width().cmp(&cast_to.bit_width()) {
                std::cmp::Ordering::Less if cast_from.signed && cast_to.signed => {
                    builder.ins().sextend(cast_to.ty, val)
                }
                std::cmp::Ordering::Less => builder.ins().uextend(cast_to.ty, val),
                std::cmp::Ordering::Equal => val,
                std::cmp::Ordering::Greater => builder.ins().ireduce(cast_to.ty, val),
            }
        }
    }
}

} // verus!
fn main() {}
