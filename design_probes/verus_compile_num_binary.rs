use vstd::prelude::*;
verus! {
pub mod types {
    use vstd::prelude::*;
    #[derive(Clone, Copy, PartialEq, Eq)]
    pub struct Type { pub bits_: u32, pub is_float: bool }
    impl Type { pub fn bits(self) -> (r: u32) ensures r == self.bits_ { self.bits_ } }
}
pub mod hir {
    #[derive(Clone, Copy, PartialEq, Eq)]
    pub enum BinaryOp { Add, Sub, Mul, Div, Mod, Lt, Gt, Le, Ge, Eq, Ne, BAnd, BOr, Xor, LShift, RShift, LAnd, LOr }
}
#[derive(Clone, Copy)] pub enum IntCC { Equal, NotEqual, SignedLessThan, SignedGreaterThanOrEqual, SignedGreaterThan, SignedLessThanOrEqual, UnsignedLessThan, UnsignedGreaterThanOrEqual, UnsignedGreaterThan, UnsignedLessThanOrEqual }
#[derive(Clone, Copy)] pub enum FloatCC { Equal, NotEqual, LessThan, LessThanOrEqual, GreaterThan, GreaterThanOrEqual }
pub ghost enum Op { Iadd, Isub, Imul, Sdiv, Udiv, Srem, Urem, Band, Bor, Bxor, Ishl, Sshr, Ushr, Icmp(IntCC), F(int) }
#[derive(Clone, Copy)]
pub struct Value { pub id: u32, pub den: Ghost<(Op, u32, u32)> }
pub struct FunctionBuilder { pub n: u32 }
pub struct Ins { }
impl FunctionBuilder { #[verifier::external_body] pub fn ins(&mut self) -> (r: Ins) { Ins {} } }
macro_rules! bin { ($($name:ident => $op:expr),*) => { verus!{ impl Ins { $(
    #[verifier::external_body] pub fn $name(self, a: Value, b: Value) -> (r: Value) ensures r.den@ == ($op, a.id, b.id) { unimplemented!() }
)* } } } }
bin!(iadd => Op::Iadd, isub => Op::Isub, imul => Op::Imul, sdiv => Op::Sdiv, udiv => Op::Udiv, srem => Op::Srem, urem => Op::Urem,
     band => Op::Band, bor => Op::Bor, bxor => Op::Bxor, ishl => Op::Ishl, sshr => Op::Sshr, ushr => Op::Ushr,
     fadd => Op::F(0), fsub => Op::F(1), fmul => Op::F(2), fdiv => Op::F(3));
impl Ins {
    #[verifier::external_body] pub fn icmp(self, cc: IntCC, a: Value, b: Value) -> (r: Value) ensures r.den@ == (Op::Icmp(cc), a.id, b.id) { unimplemented!() }
    #[verifier::external_body] pub fn fcmp(self, cc: FloatCC, a: Value, b: Value) -> (r: Value) ensures r.den@.0 == Op::F(9) { unimplemented!() }
}
#[derive(Clone, Copy)]
pub struct NumberType { pub ty: types::Type, pub float: bool, pub signed: bool }
#[derive(Clone, Copy)]
pub enum FinalTy { Number(NumberType), Pointer(types::Type), Void }
impl FinalTy {
    pub(crate) fn into_number_type(self) -> (r: Option<NumberType>) ensures r == (match self { FinalTy::Number(n) => Some(n), _ => None::<NumberType> }) {
        match self { FinalTy::Number(number_ty) => Some(number_ty), _ => None }
    }
}
#[derive(Clone, Copy)] pub struct InternTy { pub id: u32 }
pub uninterp spec fn final_ty(t: InternTy) -> FinalTy;
impl InternTy { #[verifier::external_body] pub fn get_final_ty(&self) -> (r: FinalTy) ensures r == final_ty(*self) { unimplemented!() } }
pub struct FunctionCompiler { pub builder: FunctionBuilder }
spec fn admissible(op: hir::BinaryOp, float: bool) -> bool {
    !(op is LAnd) && !(op is LOr) && (float ==> !(op is Mod) && !(op is LShift) && !(op is RShift))
}
impl FunctionCompiler {
    fn compile_num_binary(
        &mut self,
        lhs: Value,
        rhs: Value,
        ty: InternTy,
        op: hir::BinaryOp,
    ) -> (res: Value)
        requires final_ty(ty) is Number, admissible(op, final_ty(ty)->Number_0.float),
        ensures
            (op is Div && !final_ty(ty)->Number_0.float) ==> res.den@ == ((if final_ty(ty)->Number_0.signed { Op::Sdiv } else { Op::Udiv }), lhs.id, rhs.id),
            (op is RShift) ==> res.den@.0 == (if final_ty(ty)->Number_0.signed { Op::Sshr } else { Op::Ushr }),
    {
        let ty = ty.get_final_ty().into_number_type().unwrap();

        if ty.float {
            match op {
                hir::BinaryOp::Add => self.builder.ins().fadd(lhs, rhs),
                hir::BinaryOp::Sub => self.builder.ins().fsub(lhs, rhs),
                hir::BinaryOp::Mul => self.builder.ins().fmul(lhs, rhs),
                hir::BinaryOp::Div => self.builder.ins().fdiv(lhs, rhs),
                hir::BinaryOp::Mod => unreachable!(),
                hir::BinaryOp::Lt => self.builder.ins().fcmp(FloatCC::LessThan, lhs, rhs),
                hir::BinaryOp::Gt => self.builder.ins().fcmp(FloatCC::GreaterThan, lhs, rhs),
                hir::BinaryOp::Le => self.builder.ins().fcmp(FloatCC::LessThanOrEqual, lhs, rhs),
                hir::BinaryOp::Ge => self
                    .builder
                    .ins()
                    .fcmp(FloatCC::GreaterThanOrEqual, lhs, rhs),
                hir::BinaryOp::Eq => self.builder.ins().fcmp(FloatCC::Equal, lhs, rhs),
                hir::BinaryOp::Ne => self.builder.ins().fcmp(FloatCC::NotEqual, lhs, rhs),
                hir::BinaryOp::BAnd => self.builder.ins().band(lhs, rhs),
                hir::BinaryOp::BOr => self.builder.ins().bor(lhs, rhs),
                hir::BinaryOp::Xor => self.builder.ins().bxor(lhs, rhs),
                hir::BinaryOp::LShift | hir::BinaryOp::RShift => unreachable!(),
                hir::BinaryOp::LAnd | hir::BinaryOp::LOr => unreachable!(),
            }
        } else {
            match op {
                hir::BinaryOp::Add => self.builder.ins().iadd(lhs, rhs),
                hir::BinaryOp::Sub => self.builder.ins().isub(lhs, rhs),
                hir::BinaryOp::Mul => self.builder.ins().imul(lhs, rhs),
                hir::BinaryOp::Div => {
                    if ty.signed {
                        self.builder.ins().sdiv(lhs, rhs)
                    } else {
                        self.builder.ins().udiv(lhs, rhs)
                    }
                }
                hir::BinaryOp::Mod => {
                    if ty.signed {
                        self.builder.ins().srem(lhs, rhs)
                    } else {
                        self.builder.ins().urem(lhs, rhs)
                    }
                }
                hir::BinaryOp::Lt => {
                    if ty.signed {
                        self.builder.ins().icmp(IntCC::SignedLessThan, lhs, rhs)
                    } else {
                        self.builder.ins().icmp(IntCC::UnsignedLessThan, lhs, rhs)
                    }
                }
                hir::BinaryOp::Gt => {
                    if ty.signed {
                        self.builder.ins().icmp(IntCC::SignedGreaterThan, lhs, rhs)
                    } else {
                        self.builder
                            .ins()
                            .icmp(IntCC::UnsignedGreaterThan, lhs, rhs)
                    }
                }
                hir::BinaryOp::Le => {
                    if ty.signed {
                        self.builder
                            .ins()
                            .icmp(IntCC::SignedLessThanOrEqual, lhs, rhs)
                    } else {
                        self.builder
                            .ins()
                            .icmp(IntCC::UnsignedLessThanOrEqual, lhs, rhs)
                    }
                }
                hir::BinaryOp::Ge => {
                    if ty.signed {
                        self.builder
                            .ins()
                            .icmp(IntCC::SignedGreaterThanOrEqual, lhs, rhs)
                    } else {
                        self.builder
                            .ins()
                            .icmp(IntCC::UnsignedGreaterThanOrEqual, lhs, rhs)
                    }
                }
                hir::BinaryOp::Eq => self.builder.ins().icmp(IntCC::Equal, lhs, rhs),
                hir::BinaryOp::Ne => self.builder.ins().icmp(IntCC::NotEqual, lhs, rhs),
                hir::BinaryOp::BAnd => self.builder.ins().band(lhs, rhs),
                hir::BinaryOp::BOr => self.builder.ins().bor(lhs, rhs),
                hir::BinaryOp::Xor => self.builder.ins().bxor(lhs, rhs),
                hir::BinaryOp::LShift => self.builder.ins().ishl(lhs, rhs),
                hir::BinaryOp::RShift => {
                    if ty.signed {
                        self.builder.ins().sshr(lhs, rhs)
                    } else {
                        self.builder.ins().ushr(lhs, rhs)
                    }
                }
                hir::BinaryOp::LAnd | hir::BinaryOp::LOr => unreachable!(),
            }
        }
    }

}
} // verus!
fn main() {}
