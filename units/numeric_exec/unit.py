"""Unit `numeric_exec` (C08): bounded stand-in that runs generated programs through the compiler
built from the tree: every binary operator on every pair of boundary values of every integer
type up to 64 bits, shifts by amounts below the width, every integer -> integer cast, int <->
float round trips, float -> int truncation, mixed-width operands, and a sample evaluated inside
`comptime`; the printed results are compared with two's-complement arithmetic done in Python.
BOUNDED: covers what the deductive unit `numeric` leaves out (which type the checker picks, the
call sites, the comptime path) on boundary values only."""
import struct
from tools.unitapi import Unit
from tools import execdriver

UNIT = u = Unit('numeric_exec', ['C08'], 'bounded: generated arithmetic / cast programs executed, results compared with two\'s-complement arithmetic')
u.expected = ['compile_num_binary']
u.trusted += ['BOUNDED stand-in (not a proof): i8..i64, u8..u64, isize, usize (128-bit types and float arithmetic are left to the deductive unit), 10 boundary values per type, all pairs x 15 operators, 4 shift amounts, all 100 integer cast pairs, int<->f64/f32 round trips, 16 float values x 10 targets, 70 comptime evaluations; oracle: Python integers; core.println and the host linker are trusted']

INTS = [('i8', 8, True), ('i16', 16, True), ('i32', 32, True), ('i64', 64, True), ('isize', 64, True),
        ('u8', 8, False), ('u16', 16, False), ('u32', 32, False), ('u64', 64, False), ('usize', 64, False)]


def rng(w, s):
    return (-(1 << (w - 1)), (1 << (w - 1)) - 1) if s else (0, (1 << w) - 1)


def wrap(v, w, s):
    v &= (1 << w) - 1
    if s and v >> (w - 1):
        v -= 1 << w
    return v


def vals(w, s):
    lo, hi = rng(w, s)
    if s:
        return [0, 1, -1, lo, hi, lo + 1, hi - 1, 1 << (w - 2), -(1 << (w - 2)), 37]
    return [0, 1, hi, hi - 1, 1 << (w - 1), 1 << (w - 2), 37, 200 % (hi + 1), 3, (1 << (w - 1)) - 1]


def litv(v, w, s):
    lo, _ = rng(w, s)
    if s and v == lo:
        return '(%d - 1)' % (lo + 1)
    return str(v)


def b(x):
    return 'true' if x else 'false'


def tdiv(a, d):
    q = abs(a) // abs(d)
    return q if (a < 0) == (d < 0) else -q


def gen_binops():
    src = ['core :: #mod("core");', '']
    main = ['main :: () {']
    exp = []
    for name, w, s in INTS:
        vs = vals(w, s)
        lo, hi = rng(w, s)
        n = len(vs)
        src.append('bin_%s :: () {' % name)
        src.append('    vals := %s.[%s];' % (name, ', '.join(litv(v, w, s) for v in vs)))
        src.append('    i := 0;')
        src.append('    while i < %d {' % n)
        src.append('        j := 0;')
        src.append('        while j < %d {' % n)
        src.append('            a := vals[i]; b := vals[j];')
        src.append('            core.println(a + b, " ", a - b, " ", a * b, " ", a & b, " ", a | b, " ", a ~ b);')
        src.append('            core.println(a < b, " ", a <= b, " ", a > b, " ", a >= b, " ", a == b, " ", a != b);')
        guard = 'b != 0' + (' && !(a == %s && b == -1)' % litv(lo, w, s) if s else '')
        src.append('            if %s { core.println(a / b, " ", a %% b); }' % guard)
        src.append('            j = j + 1;')
        src.append('        }')
        src.append('        i = i + 1;')
        src.append('    }')
        shs = [0, 1, 3, w - 1]
        src.append('    shs := %s.[%s];' % (name, ', '.join(str(x) for x in shs)))
        src.append('    i = 0;')
        src.append('    while i < %d {' % n)
        src.append('        j := 0;')
        src.append('        while j < 4 {')
        src.append('            a := vals[i]; sh := shs[j];')
        src.append('            core.println(a << sh, " ", a >> sh);')
        src.append('            j = j + 1;')
        src.append('        }')
        src.append('        i = i + 1;')
        src.append('    }')
        src.append('}')
        src.append('')
        head = '# bin_%s' % name
        main.append('    core.println("%s");' % head)
        main.append('    bin_%s();' % name)
        exp.append(head)
        for a in vs:
            for d in vs:
                exp.append(' '.join(str(wrap(x, w, s)) for x in (a + d, a - d, a * d, a & d, a | d, a ^ d)))
                exp.append(' '.join(b(x) for x in (a < d, a <= d, a > d, a >= d, a == d, a != d)))
                if d != 0 and not (s and a == lo and d == -1):
                    q = tdiv(a, d)
                    exp.append('%d %d' % (wrap(q, w, s), wrap(a - q * d, w, s)))
        for a in vs:
            for sh in shs:
                exp.append('%d %d' % (wrap(a << sh, w, s), wrap(a >> sh, w, s)))
    main.append('}')
    return ('binops', '\n'.join(src + main) + '\n', exp)


def f32r(x):
    return struct.unpack('f', struct.pack('f', x))[0]


def gen_casts():
    src = ['core :: #mod("core");', '']
    main = ['main :: () {']
    exp = []
    for sn, sw, ss in INTS:
        vs = vals(sw, ss)
        src.append('cast_%s :: () {' % sn)
        src.append('    vals := %s.[%s];' % (sn, ', '.join(litv(v, sw, ss) for v in vs)))
        src.append('    i := 0;')
        src.append('    while i < %d {' % len(vs))
        src.append('        a := vals[i];')
        src.append('        core.println(%s);' % ', " ", '.join('%s.(a)' % dn for dn, _, _ in INTS))
        src.append('        i = i + 1;')
        src.append('    }')
        head = '# cast_%s' % sn
        exp.append(head)
        for a in vs:
            exp.append(' '.join(str(wrap(a, dw, ds)) for _, dw, ds in INTS))
        # int -> float -> int round trips, value by value (only where the result fits)
        for k, a in enumerate(vs):
            f = float(a)
            lo, hi = rng(sw, ss)
            if lo <= int(f) <= hi and abs(int(f)) < (1 << 63):
                src.append('    x%d : %s = %s; core.println(%s.(f64.(x%d)));' % (k, sn, litv(a, sw, ss), sn, k))
                exp.append(str(int(f)))
            if abs(a) < (1 << 53):
                g = f32r(float(a))
                if lo <= int(g) <= hi:
                    src.append('    y%d : %s = %s; core.println(%s.(f32.(y%d)));' % (k, sn, litv(a, sw, ss), sn, k))
                    exp.append(str(int(g)))
        src.append('}')
        src.append('')
        main.append('    core.println("%s");' % head)
        main.append('    cast_%s();' % sn)
    # bool / char
    src.append('cast_misc :: () {')
    src.append('    t := true; f := false;')
    src.append('    core.println(u8.(t), " ", u8.(f), " ", i32.(t), " ", u64.(t));')
    head = '# cast_misc'
    exp.append(head)
    exp.append('1 0 1 1')
    for k, v in enumerate([0, 65, 127, 128, 200, 255]):
        src.append('    c%d : u8 = %d; core.println(u8.(char.(c%d)), " ", u32.(char.(c%d)), " ", i32.(char.(c%d)), " ", u64.(char.(c%d)), " ", i64.(char.(c%d)));' % (k, v, k, k, k, k, k))
        exp.append('%d %d %d %d %d' % (v, v, v, v, v))
    src.append('}')
    src.append('')
    main.append('    core.println("%s");' % head)
    main.append('    cast_misc();')
    # float -> int: truncation toward zero whenever the result fits
    floats = [0.0, 0.5, -0.5, 1.5, -1.5, 2.5, -2.5, 127.5, -128.5, 255.5, 256.5, 32767.5, -32768.5, 65535.5, 2147483647.5, -2147483648.5]
    src.append('cast_float :: () {')
    head = '# cast_float'
    exp.append(head)
    k = 0
    for fv in floats:
        for dn, dw, ds in INTS:
            lo, hi = rng(dw, ds)
            t = int(fv)
            if lo <= t <= hi:
                k += 1
                src.append('    d%d : f64 = %s; core.println(%s.(d%d));' % (k, repr(fv), dn, k))
                exp.append(str(t))
                if f32r(fv) == fv:
                    src.append('    s%d : f32 = %s; core.println(%s.(s%d));' % (k, repr(fv), dn, k))
                    exp.append(str(t))
    src.append('}')
    src.append('')
    main.append('    core.println("%s");' % head)
    main.append('    cast_float();')
    # mixed-width operands: the narrower operand is extended according to ITS type
    src.append('mix_s :: (a: i8, b: i32) -> i32 { a + b }')
    src.append('mix_s2 :: (a: i16, b: i64) -> i64 { b - a }')
    src.append('mix_u :: (a: u8, b: u32) -> u32 { a + b }')
    src.append('mix_u2 :: (a: u16, b: u64) -> u64 { b * a }')
    src.append('mix_lt :: (a: i8, b: i64) -> bool { a < b }')
    src.append('mix_ult :: (a: u8, b: u64) -> bool { a < b }')
    head = '# mixed'
    main.append('    core.println("%s");' % head)
    exp.append(head)
    main.append('    core.println(mix_s(-1, 1), " ", mix_s(-127 - 1, 0), " ", mix_s2(-1, 1), " ", mix_u(255, 1), " ", mix_u2(65535, 2), " ", mix_lt(-1, 0), " ", mix_ult(255, 256));')
    exp.append('0 -128 2 256 131070 true true')
    main.append('}')
    return ('casts', '\n'.join(src + main) + '\n', exp)


def gen_comptime():
    src = ['core :: #mod("core");', '']
    main = ['main :: () {']
    exp = ['# comptime']
    main.append('    core.println("# comptime");')
    k = 0
    for name, w, s in INTS:
        lo, hi = rng(w, s)
        src.append('c_add_%s :: (a: %s, b: %s) -> %s { a + b }' % (name, name, name, name))
        src.append('c_sub_%s :: (a: %s, b: %s) -> %s { a - b }' % (name, name, name, name))
        src.append('c_mul_%s :: (a: %s, b: %s) -> %s { a * b }' % (name, name, name, name))
        src.append('c_div_%s :: (a: %s, b: %s) -> %s { a / b }' % (name, name, name, name))
        src.append('c_rem_%s :: (a: %s, b: %s) -> %s { a %% b }' % (name, name, name, name))
        src.append('c_shr_%s :: (a: %s, b: %s) -> %s { a >> b }' % (name, name, name, name))
        src.append('c_lt_%s :: (a: %s, b: %s) -> bool { a < b }' % (name, name, name))
        cases = [('add', hi, 1, wrap(hi + 1, w, s)), ('sub', lo, 1, wrap(lo - 1, w, s)), ('mul', hi, 3, wrap(hi * 3, w, s)),
                 ('div', (-7 if s else hi), 2, (tdiv(-7, 2) if s else hi // 2)), ('rem', (-7 if s else hi), 3, ((-7 - tdiv(-7, 3) * 3) if s else hi % 3)),
                 ('shr', lo if s else hi, 1, wrap((lo if s else hi) >> 1, w, s)), ('lt', lo if s else hi, 1, None)]
        for op, a, d, r in cases:
            k += 1
            src.append('K%d :: comptime c_%s_%s(%s, %s);' % (k, op, name, litv(a, w, s), litv(d, w, s)))
            main.append('    core.println(K%d);' % k)
            exp.append(b(a < d) if op == 'lt' else str(r))
    main.append('}')
    return ('comptime', '\n'.join(src + main) + '\n', exp)


def runner(unit, prop, repo, scratch, tier):
    cases = [gen_binops(), gen_casts(), gen_comptime()]
    return execdriver.run_cases(unit, prop, repo, scratch, tier, cases, 'compile_num_binary',
                                '+ - * wrap, / % truncate toward zero, & | ~ are bitwise, >> and comparisons follow the signedness of the operand type, casts truncate / sign-extend / zero-extend by the source type, int -> float is the nearest float, float -> int truncates toward zero -- at run time and inside comptime',
                                '10 integer types up to 64 bits x 10 boundary values: all pairs x 15 operators, 4 shift amounts, 100 cast pairs, float round trips, 16 float values, 70 comptime evaluations')


u.runner = runner

M = 'crates/codegen/src/compiler/mod.rs'
MUTANTS = [
    (M, '                    builder.ins().sextend(cast_to.ty, val)', '                    builder.ins().uextend(cast_to.ty, val)', 'violation'),
]
