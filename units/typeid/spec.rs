// Specification for the type-id clause of C18: "reflection reports for every type the size,
// alignment ..., integer width and signedness, pointer mutability ... Two `type` values
// compare equal exactly when they denote the same type".  The decoders are the bit
// operations core/src/meta.capy applies to a raw type id (checked against that file by the
// extractor: see unit.py META_MASKS).  Ghost code only.

pub open spec fn dec_discr(id: u32) -> u32 { id >> 26 }
pub open spec fn dec_size(id: u32) -> u32 { id & 0b11111 }
pub open spec fn dec_align(id: u32) -> u32 { (id >> 5) & 0b1111 }
pub open spec fn dec_flag(id: u32) -> u32 { (id >> 9) & 1 }
pub open spec fn dec_index(id: u32) -> u32 { id & !(0b111111u32 << 26) }

/// the types whose id carries all information in bit fields
pub open spec fn is_simple(ty: Ty) -> bool {
    match ty {
        Ty::IInt(_) | Ty::UInt(_) | Ty::Float(_) | Ty::Bool | Ty::String | Ty::Char | Ty::Type | Ty::Any
        | Ty::RawPtr { .. } | Ty::RawSlice | Ty::File(_) | Ty::Void | Ty::AlwaysJumps | Ty::Nil
        | Ty::NotYetResolved | Ty::Unknown => true,
        _ => false,
    }
}
/// discriminant per kind, as documented in meta.capy's constants
pub open spec fn kind_discr(ty: Ty) -> u32 {
    match ty {
        Ty::NotYetResolved | Ty::Unknown | Ty::Void => 1,
        Ty::IInt(_) | Ty::UInt(_) => 2,
        Ty::Float(_) => 3,
        Ty::Bool => 4,
        Ty::String => 5,
        Ty::Char => 6,
        Ty::Type => 7,
        Ty::Any => 8,
        Ty::File(_) => 9,
        Ty::RawPtr { .. } => 10,
        Ty::RawSlice => 11,
        Ty::Nil => 12,
        Ty::AlwaysJumps => 13,
        Ty::AnonStruct { .. } | Ty::ConcreteStruct { .. } => 16,
        Ty::Distinct { .. } => 17,
        Ty::AnonArray { .. } | Ty::ConcreteArray { .. } => 18,
        Ty::Slice { .. } => 19,
        Ty::Pointer { .. } => 20,
        Ty::ConcreteFunction { .. } | Ty::FunctionPointer { .. } | Ty::NaivePolymorphicFunction { .. } => 21,
        Ty::Enum { .. } => 22,
        Ty::EnumVariant { .. } => 23,
        Ty::Optional { .. } => 24,
        Ty::ErrorUnion { .. } => 25,
    }
}
/// the flag bit: signedness for integers, mutability for raw pointers
pub open spec fn kind_flag(ty: Ty) -> u32 {
    match ty {
        Ty::IInt(_) => 1,
        Ty::UInt(w) => if w == 0 { 1 } else { 0 },   // `{uint}` is an i32
        Ty::RawPtr { mutable } => if mutable { 1 } else { 0 },
        _ => 0,
    }
}
/// "reflection reports ... the size, alignment ... that the generated code really uses":
/// the id of a simple type decodes to the layout table's size and alignment
pub open spec fn simple_id_ok(ty: Ty, id: u32) -> bool {
    &&& dec_discr(id) == kind_discr(ty)
    &&& dec_size(id) as nat == tsize(ty)
    &&& dec_align(id) as nat == talign(ty)
    &&& dec_flag(id) == kind_flag(ty)
    // no other bit is set: equal fields give equal ids
    &&& id == (dec_discr(id) << 26) | (dec_flag(id) << 9) | (dec_align(id) << 5) | dec_size(id)
}
pub open spec fn compound_id_ok(ty: Ty, id: u32, index: u32) -> bool {
    dec_discr(id) == kind_discr(ty) && dec_index(id) == index
}

/// simple types that exist as values at runtime (weak `{int}`/`{uint}`/`{float}` literals
/// types are always replaced before codegen; unresolved types never get there)
pub open spec fn runtime_simple(ty: Ty) -> bool {
    is_simple(ty) && match ty {
        Ty::IInt(w) => w == 8 || w == 16 || w == 32 || w == 64 || w == 128 || w == 255,
        Ty::UInt(w) => w == 8 || w == 16 || w == 32 || w == 64 || w == 128 || w == 255,
        Ty::Float(w) => w == 32 || w == 64,
        Ty::NotYetResolved | Ty::Unknown => false,
        Ty::File(_) => false,     // files are not values
        _ => true,
    }
}

/// "two `type` values compare equal exactly when they denote the same type", for simple
/// types other than isize / usize
pub proof fn lemma_simple_ids_injective(a: Ty, b: Ty, ia: u32, ib: u32)
    requires
        runtime_simple(a), runtime_simple(b), entry_ok(a), entry_ok(b), pbw() == 32 || pbw() == 64,
        simple_id_ok(a, ia), simple_id_ok(b, ib), ia == ib,
        !(a is IInt && a->IInt_0 == 255), !(a is UInt && a->UInt_0 == 255),
        !(b is IInt && b->IInt_0 == 255), !(b is UInt && b->UInt_0 == 255),
    ensures a == b
{/*@BODY:lemma_simple_ids_injective*/
}

/// ... and for isize / usize against the fixed-width integer of the same size
pub proof fn lemma_isize_id_distinct(ia: u32, ib: u32)
    requires
        pbw() == 64, entry_ok(Ty::IInt(255)), entry_ok(Ty::IInt(64)),
        simple_id_ok(Ty::IInt(255), ia), simple_id_ok(Ty::IInt(64), ib),
    ensures ia != ib
{
}
pub proof fn lemma_usize_id_distinct(ia: u32, ib: u32)
    requires
        pbw() == 64, entry_ok(Ty::UInt(255)), entry_ok(Ty::UInt(64)),
        simple_id_ok(Ty::UInt(255), ia), simple_id_ok(Ty::UInt(64), ib),
    ensures ia != ib
{
}

pub open spec fn gens_ok(m: MetaTyData) -> bool {
    m.array_uid_gen.inner < 0x3ff_ffff && m.slice_uid_gen.inner < 0x3ff_ffff && m.pointer_uid_gen.inner < 0x3ff_ffff
    && m.variant_uid_gen.inner < 0x3ff_ffff && m.function_uid_gen.inner < 0x3ff_ffff && m.struct_uid_gen.inner < 0x3ff_ffff
    && m.enum_uid_gen.inner < 0x3ff_ffff && m.distinct_uid_gen.inner < 0x3ff_ffff && m.optional_uid_gen.inner < 0x3ff_ffff
    && m.error_union_uid_gen.inner < 0x3ff_ffff
}

pub proof fn lemma_pack(d: u32, size: u32, align: u32, flag: u32)
    requires d < 0b111111, size < 0b11111, align < 0b1111, flag <= 1
    ensures ({
        let id = (d << 26) | (flag << 9) | (align << 5) | size;
        &&& id >> 26 == d
        &&& id & 0b11111 == size
        &&& (id >> 5) & 0b1111 == align
        &&& (id >> 9) & 1 == flag
        &&& id == ((id >> 26) << 26) | (((id >> 9) & 1) << 9) | ((((id >> 5) & 0b1111)) << 5) | (id & 0b11111)
    })
{
    let id = (d << 26) | (flag << 9) | (align << 5) | size;
    assert(id >> 26 == d && id & 0b11111 == size && (id >> 5) & 0b1111 == align && (id >> 9) & 1 == flag
           && id == ((id >> 26) << 26) | (((id >> 9) & 1) << 9) | ((((id >> 5) & 0b1111)) << 5) | (id & 0b11111)) by (bit_vector)
        requires d < 0b111111u32, size < 0b11111u32, align < 0b1111u32, flag <= 1u32,
                 id == (d << 26) | (flag << 9) | (align << 5) | size;
}

pub proof fn lemma_compound(d: u32, x: u32)
    requires 16 <= d < 0b111111, x < 0x400_0000
    ensures dec_discr((d << 26) | x) == d, dec_index((d << 26) | x) == x
{
    assert(((d << 26) | x) >> 26 == d && ((d << 26) | x) & !(0b111111u32 << 26) == x) by (bit_vector)
        requires d < 0b111111u32, x < 0x400_0000u32;
}

// ---- the index of a compound id is its row in the per-kind reflection table ------------------
// compile_meta_builtins writes one row per type of each kind, in the order of
// `tys_to_compile`; get_type_info looks a type up by the index in its id.  So the index a type
// gets must be the number of types of the same kind that are already in the list when it is
// appended (to_type_id appends right after the id has been computed).
pub open spec fn count_kind(s: Seq<Intern<Ty>>, d: u32) -> nat decreases s.len() {
    if s.len() == 0 { 0 } else { count_kind(s.drop_last(), d) + (if kind_discr(*s.last().0) == d { 1nat } else { 0nat }) }
}
pub open spec fn gen_of(m: MetaTyData, d: u32) -> u32 {
    if d == 16 { m.struct_uid_gen.inner } else if d == 17 { m.distinct_uid_gen.inner } else if d == 18 { m.array_uid_gen.inner }
    else if d == 19 { m.slice_uid_gen.inner } else if d == 20 { m.pointer_uid_gen.inner } else if d == 21 { m.function_uid_gen.inner }
    else if d == 22 { m.enum_uid_gen.inner } else if d == 23 { m.variant_uid_gen.inner } else if d == 24 { m.optional_uid_gen.inner }
    else if d == 25 { m.error_union_uid_gen.inner } else { 0 }
}
pub open spec fn row_ok(m: MetaTyData, d: u32, d0: u32) -> bool {
    gen_of(m, d) == count_kind(m.tys_to_compile@, d) + (if d == d0 { 1nat } else { 0nat })
}
/// every generator stands at the number of rows its table will have so far
pub open spec fn rows_ok(m: MetaTyData) -> bool { rows_pending(m, 0) }
/// ... except that kind `d0` has just handed out the index of the type about to be appended
pub open spec fn rows_pending(m: MetaTyData, d0: u32) -> bool {
    row_ok(m, 16, d0) && row_ok(m, 17, d0) && row_ok(m, 18, d0) && row_ok(m, 19, d0) && row_ok(m, 20, d0)
    && row_ok(m, 21, d0) && row_ok(m, 22, d0) && row_ok(m, 23, d0) && row_ok(m, 24, d0) && row_ok(m, 25, d0)
}
