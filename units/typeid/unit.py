"""Unit `typeid` (C18, type-id clause): simple_id, simple_id_with_align, the id match of to_type_id."""
import re
from tools.unitapi import Unit, Rewrite, sibling, ExtractError

layout = sibling('layout')
CV = 'crates/codegen/src/convert.rs'
M = 'crates/codegen/src/compiler/mod.rs'
UG = 'crates/uid_gen/src/lib.rs'

UNIT = u = Unit('typeid', ['C18'], 'runtime type ids: bit packing and the id assigned to each type')
layout.prelude(u)
u.shim('clif_types.rs')
for c in ['VOID', 'INT', 'FLOAT', 'BOOL', 'STRING', 'CHAR', 'META_TYPE', 'ANY', 'FILE', 'RAW_PTR', 'RAW_SLICE', 'NIL', 'NO_RETURN',
          'STRUCT', 'DISTINCT', 'ARRAY', 'SLICE', 'POINTER', 'FUNCTION', 'ENUM', 'VARIANT', 'OPTIONAL', 'ERROR_UNION']:
    u.extract(CV, 'const %s_DISCRIMINANT' % c)
u.extract(UG, 'struct UIDGenerator', keep_derives=set(), pub_fields=True)
u.raw('pub struct MetaTyLayoutArrays { pub _p: u8 }\npub struct MetaTyInfoArrays { pub _p: u8 }')
u.extract(M, 'struct MetaTyData', keep_derives=set())
u.spec('spec.rs')
u.trusted += [
    'layout table reads (size/align) as in unit layout; pointer_ty.bits() equals the pointer width of the layout tables',
    'to_type_id memoisation (`.iter().find(..)` over meta_tys.type_ids) is outside the Verus dialect: a registered type returns its recorded id is NOT proved',
    'recursive to_type_id calls on component types only advance the uid generators (stub)',
    'compile_meta_builtins (the data reflection reads) and core/src/meta.capy itself are not under contract; only the decode masks are compared textually',
]

u.extract(UG, 'impl UIDGenerator::fn generate_unique_id', wrap=('impl UIDGenerator {', '}'), contract='''
    requires old(self).inner < u32::MAX
    ensures res == old(self).inner, final(self).inner == old(self).inner + 1
''')

u.extract(CV, 'fn simple_id_with_align', contract='''
    requires discriminant < 0b111111, size < 0b11111, align < 0b1111
    ensures
        dec_discr(res) == discriminant, dec_size(res) == size, dec_align(res) == align,
        dec_flag(res) == (if signed { 1u32 } else { 0u32 }),
        res == (dec_discr(res) << 26) | (dec_flag(res) << 9) | (dec_align(res) << 5) | dec_size(res),
''', inserts=[('@body_start', 'after', '''
    proof { lemma_pack(discriminant, size, align, if signed { 1u32 } else { 0u32 }); }
''')])
u.extract(CV, 'fn simple_id', contract='''
    requires discriminant < 0b111111, bit_width <= 128
    ensures
        dec_discr(res) == discriminant, dec_size(res) == bit_width / 8,
        dec_align(res) == (if bit_width / 8 == 0 { 1u32 } else if bit_width / 8 > 8 { 8u32 } else { bit_width / 8 }),
        dec_flag(res) == (if signed { 1u32 } else { 0u32 }),
        res == (dec_discr(res) << 26) | (dec_flag(res) << 9) | (dec_align(res) << 5) | dec_size(res),
''')

u.raw('''
impl Intern<Ty> {
    // stub for the recursive call of to_type_id on a component type: ASSUMED to only
    // advance the uid generators, staying below 2^26
    #[verifier::external_body]
    pub fn to_type_id(self, meta_tys: &mut MetaTyData, pointer_ty: types::Type) -> (r: u32)
        requires gens_ok(*old(meta_tys)), rows_ok(*old(meta_tys))
        ensures gens_ok(*final(meta_tys)),   // ASSUMED: fewer than 2^26 types of each kind
            rows_ok(*final(meta_tys)),       // it appends the types it registers, each with its row index
    { unimplemented!() }
}
''')

u.extract(CV, 'impl ToTyId for Intern<Ty>::fn to_type_id', key='type_id_match',
          wrap=('impl Intern<Ty> {', '}'),
          lift=dict(start_at='let id = match self.as_ref() {', end_at='\n        };',
                    sig='fn type_id_match(self, meta_tys: &mut MetaTyData, pointer_ty: types::Type) -> (res: u32)',
                    tail='id',
                    why='the `let id = match self.as_ref() { .. };` statement of to_type_id lifted into a method (the memo lookup before it and the two pushes after it stay outside)'),
          contract='''
    requires
        gens_ok(*old(meta_tys)), rows_ok(*old(meta_tys)), entry_ok(*self.0), pbw() == 32 || pbw() == 64,
        pointer_ty.bits_ == pbw(), !pointer_ty.is_float,
        !(*self.0 is NaivePolymorphicFunction),
        is_simple(*self.0) ==> ty_wf(*self.0),
    ensures
        is_simple(*self.0) ==> simple_id_ok(*self.0, res),
        !is_simple(*self.0) ==> dec_discr(res) == kind_discr(*self.0) && dec_index(res) < 0x400_0000,
        // the index is the row this type gets in the reflection table of its kind: the number of
        // types of that kind already in `tys_to_compile` (the type itself is appended next)
        !is_simple(*self.0) ==> dec_index(res) == count_kind(final(meta_tys).tys_to_compile@, kind_discr(*self.0))
            && rows_pending(*final(meta_tys), kind_discr(*self.0)),
        is_simple(*self.0) ==> rows_ok(*final(meta_tys)),
''',
          loop_count=2,
          desugar_for={0: ('mi', 'ref'), 1: ('vi', 'ref')},
          loops={0: 'invariant gens_ok(*meta_tys), rows_ok(*meta_tys), 0 <= mi <= it_mi@.len() decreases it_mi@.len() - mi',
                 1: 'invariant gens_ok(*meta_tys), rows_ok(*meta_tys), 0 <= vi <= it_vi@.len() decreases it_vi@.len() - vi'},
          inserts=[('@after_stmt:meta_tys.%s_uid_gen.generate_unique_id()' % g, 'after',
                    ' proof { lemma_compound(%s_DISCRIMINANT, (meta_tys.%s_uid_gen.inner - 1) as u32); } ' % (d, g))
                   for g, d in [('array', 'ARRAY'), ('slice', 'SLICE'), ('pointer', 'POINTER'), ('distinct', 'DISTINCT'),
                                ('function', 'FUNCTION'), ('struct', 'STRUCT'), ('enum', 'ENUM'), ('variant', 'VARIANT'),
                                ('optional', 'OPTIONAL'), ('error_union', 'ERROR_UNION')]])

# lemmas of spec.rs that are part of the claim (a failure in them is a failed obligation)
u.expected += ['lemma_simple_ids_injective', 'lemma_isize_id_distinct', 'lemma_usize_id_distinct', 'lemma_pack', 'lemma_compound']

MUTANTS = [
    # the index must be drawn after the component types have been registered (it is the table row)
    (CV, '''                let id = ENUM_DISCRIMINANT << 26;

                // make sure to compile the variants too
                for variant in variants {
                    variant.to_type_id(meta_tys, pointer_ty);
                }

                let list_id = meta_tys.enum_uid_gen.generate_unique_id();
''', '''                let id = ENUM_DISCRIMINANT << 26;
                let list_id = meta_tys.enum_uid_gen.generate_unique_id();

                // make sure to compile the variants too
                for variant in variants {
                    variant.to_type_id(meta_tys, pointer_ty);
                }
''', 'violation'),
    (CV, 'let align = align << 5;', 'let align = align << 4;', 'violation'),
    (CV, 'let sign = (signed as u32) << 9;', 'let sign = (signed as u32) << 8;', 'violation'),
    (CV, 'Ty::Bool => simple_id(BOOL_DISCRIMINANT, 8, false),', 'Ty::Bool => simple_id(BOOL_DISCRIMINANT, 16, false),', 'violation'),
    (CV, 'Ty::Char => simple_id(CHAR_DISCRIMINANT, 8, false),', 'Ty::Char => simple_id(BOOL_DISCRIMINANT, 8, false),', 'violation'),
    (CV, 'let align = size.clamp(1, 8);', 'let align = size.clamp(1, 16);', 'violation'),
    (CV, '                let id = OPTIONAL_DISCRIMINANT << 26;', '                let id = ENUM_DISCRIMINANT << 26;', 'violation'),
]
