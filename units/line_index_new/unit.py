"""Unit `line_index_new` (C25): bounded stand-in for LineIndex::new, which is outside the
verifier's reach (iterator chain).  Exhaustive enumeration of the property's own quantifier
on the real crate.  BOUNDED -- never counted as proved."""
from tools.unitapi import Unit
from tools import bounded

UNIT = u = Unit('line_index_new', ['C25'], 'bounded: LineIndex::new + line_col on all strings up to a length over {a,\\n,\\r,\\t,e-acute}')
u.expected = ['new']
u.trusted += ['BOUNDED stand-in (not a proof): LineIndex::new is only checked on all strings of at most 6 (quick) / 8 (thorough) symbols over {a, \\n, \\r, \\t, é} and every char-boundary offset in them']


def runner(unit, prop, repo, scratch, tier):
    return bounded.run_driver(unit, prop, repo, scratch, tier, 'line_index_new', [6], [8], 'new',
                              'LineIndex::new(text).line_col(o) == (newlines before o, o - start of line) for all texts of <= N symbols over {a,\\n,\\r,\\t,é}, all char-boundary offsets')


u.runner = runner
