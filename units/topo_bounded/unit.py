"""Unit `topo_bounded` (C26): bounded stand-in through the public API of the real `topo`
crate.  Decides the property when a refactoring takes a TopoSort method out of reach of the
proof hints of unit `topo` (then that proof is undecided).  BOUNDED -- not a proof."""
from tools.unitapi import Unit
from tools import bounded

UNIT = u = Unit('topo_bounded', ['C26'], 'bounded: all protocol-respecting histories up to a depth over 3 items against a reference model')
u.expected = ['TopoSort']
u.trusted += ['BOUNDED stand-in (not a proof): every history of at most 5 (quick) / 6 (thorough) operations insert / insert_dep / insert_deps (two children) / remove over 3 items that respects the usage protocol, compared after every step with a reference model written from the property statement (len, peek_all as a set, in_cycle)']


def runner(unit, prop, repo, scratch, tier):
    return bounded.run_driver(unit, prop, repo, scratch, tier, 'topo_api', [5], [6], 'TopoSort',
                              'after every history of <= N operations over 3 items: peek_all offers exactly the pending items without a pending registered dependency, in_cycle iff non-empty and nothing ready, len = number of pending items')


u.runner = runner
