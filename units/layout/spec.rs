// Lemmas of unit layout (definitions are in defs.rs).  Ghost code only.

pub proof fn lemma_rup(x: nat, a: nat)
    requires a > 0
    ensures rup(x, a) >= x, rup(x, a) < x + a, rup(x, a) % a == 0, x % a == 0 ==> rup(x, a) == x
{
    if x % a != 0 {
        let r = x % a;
        assert((x + a - r) as nat == (x - r) + a);
        vstd::arithmetic::div_mod::lemma_fundamental_div_mod(x as int, a as int);
        // x = a * (x / a) + r  =>  x - r + a = a * (x/a + 1)
        assert((x - r) + a == a * (x / a + 1)) by (nonlinear_arith)
            requires x == a * (x / a) + r;
        vstd::arithmetic::div_mod::lemma_mod_multiples_basic((x / a + 1) as int, a as int);
        assert((a * (x / a + 1)) % a == 0) by {
            vstd::arithmetic::mul::lemma_mul_is_commutative(a as int, (x / a + 1) as int);
        }
    }
}

pub proof fn lemma_struct_end_mono(f: Seq<Ty>, i: nat, j: nat)
    requires i <= j <= f.len(), forall|k: int| 0 <= k < f.len() ==> #[trigger] talign(f[k]) > 0
    ensures struct_end(f, i) <= struct_end(f, j)
    decreases j
{
    if i < j {
        lemma_struct_end_mono(f, i, (j - 1) as nat);
        lemma_rup(struct_end(f, (j - 1) as nat), talign(f[j - 1]));
    }
}

pub proof fn lemma_struct_end_step(f: Seq<Ty>, k: nat)
    requires k < f.len()
    ensures struct_end(f, k + 1) == rup(struct_end(f, k), talign(f[k as int])) + tsize(f[k as int])
{
    reveal_with_fuel(struct_end, 2);
}

pub proof fn lemma_struct_end_le(f: Seq<Ty>, k: nat)
    requires k <= f.len(), forall|j: int| 0 <= j < f.len() ==> pow2_le8(#[trigger] talign(f[j]))
    ensures struct_end(f, k) <= struct_end(f, f.len())
{
    lemma_struct_end_mono(f, k, f.len());
}

pub proof fn lemma_fields_layout(f: Seq<Ty>, offsets: Seq<u32>, end: nat, max_align: nat)
    requires
        offsets.len() == f.len(),
        end == struct_end(f, f.len()),
        pow2_le8(max_align),
        forall|i: int| 0 <= i < f.len() ==> #[trigger] offsets[i] as nat == rup(struct_end(f, i as nat), talign(f[i])),
        forall|i: int| 0 <= i < f.len() ==> pow2_le8(#[trigger] talign(f[i])) && talign(f[i]) <= max_align,
        f.len() == 0 ==> max_align == 1,
        f.len() > 0 ==> exists|i: int| 0 <= i < f.len() && #[trigger] talign(f[i]) == max_align,
    ensures
        fields_layout_ok(f, StructLayoutView { size: end, align: max_align,
                                               offsets: Seq::new(offsets.len(), |i: int| offsets[i] as nat) }),
{
    let l = StructLayoutView { size: end, align: max_align, offsets: Seq::new(offsets.len(), |i: int| offsets[i] as nat) };
    assert forall|i: int| 0 <= i < f.len() implies #[trigger] l.offsets[i] % talign(f[i]) == 0 by {
        lemma_rup(struct_end(f, i as nat), talign(f[i]));
    }
    assert forall|i: int| 0 <= i < f.len() implies l.offsets[i] + tsize(f[i]) == struct_end(f, (i + 1) as nat) by {
        lemma_struct_end_step(f, i as nat);
    }
    assert forall|i: int, j: int| 0 <= i < j < f.len() implies
        #[trigger] l.offsets[i] + tsize(f[i]) <= #[trigger] l.offsets[j] by {
        lemma_struct_end_step(f, i as nat);
        lemma_struct_end_mono(f, (i + 1) as nat, j as nat);
        lemma_rup(struct_end(f, j as nat), talign(f[j]));
    }
    assert forall|i: int| 0 <= i < f.len() implies #[trigger] l.offsets[i] + tsize(f[i]) <= l.size by {
        lemma_struct_end_step(f, i as nat);
        lemma_struct_end_mono(f, (i + 1) as nat, f.len());
    }
    if f.len() > 0 {
        assert(struct_end(f, 0) == 0);
        lemma_rup(0, talign(f[0]));
        lemma_struct_end_step(f, (f.len() - 1) as nat);
    }
    assert forall|i: int| 0 < i < f.len() implies
        #[trigger] l.offsets[i] == rup(l.offsets[i - 1] + tsize(f[i - 1]), talign(f[i])) by {
        lemma_struct_end_step(f, (i - 1) as nat);
    }
}

pub proof fn lemma_stride_bits(size: u32, align: u32)
    requires pow2_le8(align as nat), size <= 0x4000_0000
    ensures
        size + (align - 1) <= u32::MAX,
        (((size + (align - 1)) as u32) & !((align - 1) as u32)) as nat == rup(size as nat, align as nat),
{
    let mask = (align - 1) as u32;
    let r = ((size + mask) as u32) & !mask;
    assert(r % align == 0 && r >= size && r < size + align) by (bit_vector)
        requires (align == 1 || align == 2 || align == 4 || align == 8), size <= 0x4000_0000u32,
                 mask == sub(align, 1), r == add(size, mask) & !mask;
    lemma_rup(size as nat, align as nat);
    // both r and rup(size, align) are multiples of align in [size, size + align): they coincide
    lemma_unique_multiple(size as int, align as int, r as int, rup(size as nat, align as nat) as int);
}

pub proof fn lemma_unique_multiple(x: int, a: int, p: int, q: int)
    requires a > 0, p % a == 0, q % a == 0, x <= p < x + a, x <= q < x + a
    ensures p == q
{
    vstd::arithmetic::div_mod::lemma_fundamental_div_mod(p, a);
    vstd::arithmetic::div_mod::lemma_fundamental_div_mod(q, a);
    let i = p / a; let j = q / a;
    assert(p == a * i && q == a * j);
    if i < j {
        assert(a * j >= a * (i + 1)) by (nonlinear_arith) requires a > 0, j >= i + 1;
        assert(a * (i + 1) == a * i + a) by (nonlinear_arith);
    } else if j < i {
        assert(a * i >= a * (j + 1)) by (nonlinear_arith) requires a > 0, i >= j + 1;
        assert(a * (j + 1) == a * j + a) by (nonlinear_arith);
    }
}

pub proof fn lemma_tz(align: u32)
    requires pow2_le8(align as nat)
    ensures align.trailing_zeros() <= 3, (1u32 << (align.trailing_zeros() as u8)) == align
{
    vstd::std_specs::bits::axiom_u32_trailing_zeros(align);
    let t = vstd::std_specs::bits::u32_trailing_zeros(align) as u32;
    assert(t < 32);
    assert(((align >> t) & 1u32 == 1u32 && t < 32 && (align == 1 || align == 2 || align == 4 || align == 8))
           ==> ((1u32 << t) == align && t <= 3)) by (bit_vector);
    assert(1u32 << (t as u8) == 1u32 << t) by (bit_vector) requires t <= 3;
}
