// Specification of property C17, written from the property statement and from the
// documentation in core/src/meta.capy (size_of / stride_of / align_of comments) -- not from
// layout.rs.  All of it is ghost code.

pub open spec fn MAX_SIZE() -> nat { 0x4000_0000 }   // 1 GiB: bound under which u32 arithmetic is exact

pub open spec fn pow2_le8(a: nat) -> bool { a == 1 || a == 2 || a == 4 || a == 8 }

/// x rounded up to the next multiple of a
pub open spec fn rup(x: nat, a: nat) -> nat {
    if a == 0 { x } else if x % a == 0 { x } else { (x + a - x % a) as nat }
}

pub open spec fn ptr_bytes() -> nat { (pbw() / 8) as nat }
pub open spec fn min8(x: nat) -> nat { if x < 8 { x } else { 8 } }
pub open spec fn maxn(a: nat, b: nat) -> nat { if a > b { a } else { b } }

pub open spec fn stride_of(ty: Ty) -> nat { rup(tsize(ty), talign(ty)) }

/// the type with distinct wrappers and variant wrappers removed
pub open spec fn spec_abs(ty: Ty) -> Ty decreases ty {
    match ty {
        Ty::Distinct { sub_ty, .. } => spec_abs(*sub_ty.0),
        Ty::EnumVariant { sub_ty, .. } => spec_abs(*sub_ty.0),
        _ => ty,
    }
}
pub open spec fn is_ptr(ty: Ty) -> bool {
    spec_abs(ty) is Pointer || spec_abs(ty) is RawPtr
}
pub open spec fn enum_variants(ty: Ty) -> Option<Vec<Intern<Ty>>> {
    match ty { Ty::Enum { variants, .. } => Some(variants), _ => None }
}
pub open spec fn is_struct_ty(ty: Ty) -> bool { ty is AnonStruct || ty is ConcreteStruct }
pub open spec fn members_of(ty: Ty) -> Seq<MemberTy> {
    match ty {
        Ty::AnonStruct { members } => members@,
        Ty::ConcreteStruct { members, .. } => members@,
        _ => Seq::empty(),
    }
}
/// optionals of non-pointers, error unions and enums carry a one-byte tag
pub open spec fn has_enum_layout(ty: Ty) -> bool {
    match ty {
        Ty::Enum { .. } => true,
        Ty::ErrorUnion { .. } => true,
        Ty::Optional { sub_ty } => !is_ptr(*sub_ty.0),
        _ => false,
    }
}
/// the payload types of a tagged union
pub open spec fn payloads_of(ty: Ty) -> Seq<Ty> {
    match ty {
        Ty::Enum { variants, .. } => Seq::new(variants@.len(), |i: int| *variants@[i].0),
        Ty::ErrorUnion { error_ty, payload_ty } => seq![*error_ty.0, *payload_ty.0],
        Ty::Optional { sub_ty } => seq![*sub_ty.0],
        _ => Seq::empty(),
    }
}

// ---- C17, clause by clause -------------------------------------------------

/// the field types of a struct type, in declaration order
pub open spec fn field_tys(ty: Ty) -> Seq<Ty> {
    Seq::new(members_of(ty).len(), |i: int| *members_of(ty)[i].ty.0)
}

/// "struct fields sit in declaration order at offsets that are multiples of their
/// alignment, without overlapping, inside the struct's size" (+ meta.capy: the alignment of
/// a struct is the largest alignment of its fields; offsets are the C rule, which the
/// property's quantifier compares against the host compiler's offsetof)
pub open spec fn fields_layout_ok(f: Seq<Ty>, l: StructLayoutView) -> bool {
    &&& l.offsets.len() == f.len()
    &&& forall|i: int| 0 <= i < f.len() ==> #[trigger] l.offsets[i] % talign(f[i]) == 0
    &&& forall|i: int, j: int| 0 <= i < j < f.len() ==>
            #[trigger] l.offsets[i] + tsize(f[i]) <= #[trigger] l.offsets[j]
    &&& forall|i: int| 0 <= i < f.len() ==> #[trigger] l.offsets[i] + tsize(f[i]) <= l.size
    // C rule: first field at 0, each next field at the first aligned offset after the previous one
    &&& (f.len() > 0 ==> l.offsets[0] == 0)
    &&& forall|i: int| 0 < i < f.len() ==>
            #[trigger] l.offsets[i] == rup(l.offsets[i - 1] + tsize(f[i - 1]), talign(f[i]))
    &&& (f.len() == 0 ==> l.size == 0)
    &&& (f.len() > 0 ==> l.size == l.offsets[f.len() - 1] + tsize(f[f.len() - 1]))
    // alignment: largest field alignment (1 for the empty struct)
    &&& pow2_le8(l.align)
    &&& forall|i: int| 0 <= i < f.len() ==> #[trigger] talign(f[i]) <= l.align
    &&& (f.len() == 0 ==> l.align == 1)
    &&& (f.len() > 0 ==> exists|i: int| 0 <= i < f.len() && #[trigger] talign(f[i]) == l.align)
}
pub open spec fn struct_layout_ok(ty: Ty, l: StructLayoutView) -> bool {
    fields_layout_ok(field_tys(ty), l)
}

/// "every other optional, error union and enum keeps its one-byte tag after the largest
/// payload"
pub open spec fn enum_layout_ok(ty: Ty, l: EnumLayoutView) -> bool {
    let p = payloads_of(ty);
    &&& forall|i: int| 0 <= i < p.len() ==> #[trigger] tsize(p[i]) <= l.discriminant_offset
    &&& (p.len() == 0 ==> l.discriminant_offset == 0)
    &&& (p.len() > 0 ==> exists|i: int| 0 <= i < p.len() && #[trigger] tsize(p[i]) == l.discriminant_offset)
    &&& l.size == l.discriminant_offset + 1
    &&& pow2_le8(l.align)
    &&& forall|i: int| 0 <= i < p.len() ==> #[trigger] talign(p[i]) <= l.align
}

pub open spec fn int_bytes(w: u8) -> nat {
    if w == 255 { ptr_bytes() } else if w == 0 { 4 } else { (w / 8) as nat }
}

/// what the size table may hold for `ty`
pub open spec fn size_ok(ty: Ty, s: nat) -> bool {
    &&& s <= MAX_SIZE()
    &&& match ty {
        Ty::IInt(w) => s == int_bytes(w),
        Ty::UInt(w) => s == int_bytes(w),
        Ty::Float(w) => s == (if w == 0 { 4nat } else { (w / 8) as nat }),
        Ty::Bool => s == 1,
        Ty::Char => s == 1,
        Ty::String => s == ptr_bytes(),
        Ty::Pointer { .. } => s == ptr_bytes(),
        Ty::RawPtr { .. } => s == ptr_bytes(),
        Ty::NaivePolymorphicFunction { .. } => s == ptr_bytes(),
        Ty::ConcreteFunction { .. } => s == ptr_bytes(),
        Ty::FunctionPointer { .. } => s == ptr_bytes(),
        Ty::Slice { .. } => s == 2 * ptr_bytes(),
        Ty::RawSlice => s == 2 * ptr_bytes(),
        // "an array's size is length times element stride"
        Ty::AnonArray { size, sub_ty } => s == size as nat * stride_of(*sub_ty.0),
        Ty::ConcreteArray { size, sub_ty } => s == size as nat * stride_of(*sub_ty.0),
        // "distinct types and enum variants have exactly their underlying type's size"
        Ty::Distinct { sub_ty, .. } => s == tsize(*sub_ty.0),
        Ty::EnumVariant { sub_ty, .. } => s == tsize(*sub_ty.0),
        Ty::AnonStruct { .. } => s == tstruct(ty).size && struct_layout_ok(ty, tstruct(ty)),
        Ty::ConcreteStruct { .. } => s == tstruct(ty).size && struct_layout_ok(ty, tstruct(ty)),
        Ty::Enum { .. } => s == tenum(ty).size && enum_layout_ok(ty, tenum(ty)),
        Ty::ErrorUnion { .. } => s == tenum(ty).size && enum_layout_ok(ty, tenum(ty)),
        // "an optional of a pointer is exactly pointer-sized"
        Ty::Optional { sub_ty } => if is_ptr(*sub_ty.0) { s == tsize(*sub_ty.0) }
                                   else { s == tenum(ty).size && enum_layout_ok(ty, tenum(ty)) },
        Ty::Type => s == 4,
        // typeid (u32) then a raw pointer at its natural alignment
        Ty::Any => s == rup(4, min8(ptr_bytes())) + ptr_bytes(),
        Ty::Void => s == 0,
        Ty::Nil => s == 0,
        Ty::AlwaysJumps => s == 0,
        Ty::File(_) => s == 0,
        Ty::NotYetResolved => s == 0,
        Ty::Unknown => s == 0,
    }
}

/// what the alignment table may hold for `ty`.  First line: "for every type, alignment is a
/// power of two no larger than 8".
pub open spec fn align_ok(ty: Ty, a: nat) -> bool {
    &&& pow2_le8(a)
    &&& match ty {
        Ty::IInt(w) => a == min8(int_bytes(w)),
        Ty::UInt(w) => a == min8(int_bytes(w)),
        Ty::Float(w) => a == (if w == 0 { 4nat } else { (w / 8) as nat }),
        Ty::Bool => a == 1,
        Ty::Char => a == 1,
        Ty::String => a == min8(ptr_bytes()),
        Ty::Pointer { .. } => a == min8(ptr_bytes()),
        Ty::RawPtr { .. } => a == min8(ptr_bytes()),
        Ty::NaivePolymorphicFunction { .. } => a == min8(ptr_bytes()),
        Ty::ConcreteFunction { .. } => a == min8(ptr_bytes()),
        Ty::FunctionPointer { .. } => a == min8(ptr_bytes()),
        Ty::Slice { .. } => a == min8(ptr_bytes()),
        Ty::RawSlice => a == min8(ptr_bytes()),
        Ty::AnonArray { sub_ty, .. } => a == talign(*sub_ty.0),
        Ty::ConcreteArray { sub_ty, .. } => a == talign(*sub_ty.0),
        // "... and alignment"
        Ty::Distinct { sub_ty, .. } => a == talign(*sub_ty.0),
        Ty::EnumVariant { sub_ty, .. } => a == talign(*sub_ty.0),
        Ty::AnonStruct { .. } => a == tstruct(ty).align,
        Ty::ConcreteStruct { .. } => a == tstruct(ty).align,
        Ty::Enum { .. } => a == tenum(ty).align,
        Ty::ErrorUnion { error_ty, payload_ty } => a == maxn(talign(*error_ty.0), talign(*payload_ty.0)),
        Ty::Optional { sub_ty } => a == talign(*sub_ty.0),
        Ty::Type => a == 4,
        Ty::Any => a == maxn(4, min8(ptr_bytes())),
        _ => a == 1,
    }
}

pub open spec fn entry_ok(ty: Ty) -> bool {
    size_ok(ty, tsize(ty)) && align_ok(ty, talign(ty))
}

// ---- the domain on which machine arithmetic is exact (precondition, not assumption) ----

pub open spec fn int_width_ok(w: u8) -> bool {
    w == 0 || w == 8 || w == 16 || w == 32 || w == 64 || w == 128 || w == 255
}

/// offset just past field n-1 under the C rule, computed from the table
pub open spec fn struct_end(f: Seq<Ty>, n: nat) -> nat decreases n {
    if n == 0 || n > f.len() { 0 } else {
        rup(struct_end(f, (n - 1) as nat), talign(f[n - 1])) + tsize(f[n - 1])
    }
}

/// Types `calc_single` is specified for: integer/float widths the language has, and every
/// (nested) size within MAX_SIZE so that no u32 computation wraps.  Machine arithmetic is NOT
/// idealised: outside this domain nothing is claimed.
pub open spec fn ty_wf(ty: Ty) -> bool decreases ty {
    match ty {
        Ty::IInt(w) => int_width_ok(w),
        Ty::UInt(w) => int_width_ok(w),
        Ty::Float(w) => w == 0 || w == 32 || w == 64,
        Ty::AnonArray { size, sub_ty } => ty_wf(*sub_ty.0) && size as nat * stride_of(*sub_ty.0) <= MAX_SIZE(),
        Ty::ConcreteArray { size, sub_ty } => ty_wf(*sub_ty.0) && size as nat * stride_of(*sub_ty.0) <= MAX_SIZE(),
        Ty::Distinct { sub_ty, .. } => ty_wf(*sub_ty.0),
        Ty::EnumVariant { sub_ty, .. } => ty_wf(*sub_ty.0),
        Ty::Optional { sub_ty } => ty_wf(*sub_ty.0) && tsize(*sub_ty.0) < MAX_SIZE(),
        Ty::ErrorUnion { error_ty, payload_ty } =>
            ty_wf(*error_ty.0) && ty_wf(*payload_ty.0)
            && tsize(*error_ty.0) < MAX_SIZE() && tsize(*payload_ty.0) < MAX_SIZE(),
        Ty::AnonStruct { members } =>
            (forall|i: int| 0 <= i < members@.len() ==> ty_wf(*(#[trigger] members@[i]).ty.0))
            && struct_end(field_tys(ty), members@.len()) <= MAX_SIZE(),
        Ty::ConcreteStruct { members, .. } =>
            (forall|i: int| 0 <= i < members@.len() ==> ty_wf(*(#[trigger] members@[i]).ty.0))
            && struct_end(field_tys(ty), members@.len()) <= MAX_SIZE(),
        Ty::Enum { variants, .. } =>
            forall|i: int| 0 <= i < variants@.len() ==>
                ty_wf(*(#[trigger] variants@[i]).0) && tsize(*variants@[i].0) < MAX_SIZE(),
        _ => true,
    }
}

// ---- lemmas -----------------------------------------------------------------

impl StructLayout {
    pub open spec fn view(&self) -> StructLayoutView {
        StructLayoutView {
            size: self.size as nat,
            align: self.align as nat,
            offsets: Seq::new(self.offsets@.len(), |i: int| self.offsets@[i] as nat),
        }
    }
}
impl EnumLayout {
    pub open spec fn view(&self) -> EnumLayoutView {
        EnumLayoutView {
            size: self.size as nat,
            align: self.align as nat,
            discriminant_offset: self.discriminant_offset as nat,
        }
    }
}

/// the types behind a sequence of interned handles
pub open spec fn itys(s: Seq<Intern<Ty>>) -> Seq<Ty> { Seq::new(s.len(), |i: int| *s[i].0) }

// shim for `members.iter().map(|member| member.ty).collect::<Vec<_>>()` (R8)
#[verifier::external_body]
pub fn member_tys_vec(members: &Vec<MemberTy>) -> (r: Vec<Intern<Ty>>)
    ensures r@.len() == members@.len(), forall|i: int| 0 <= i < r@.len() ==> r@[i] == members@[i].ty
{ unimplemented!() }
