"""Unit `layout` (C17): codegen/src/layout.rs under contract."""
from tools.unitapi import Unit, Rewrite

L = 'crates/codegen/src/layout.rs'
T = 'crates/hir/src/common/ty.rs'

def prelude(u):
    """shims + the extracted datatypes + the layout tables and the C17 specification; shared
    by every unit that relies on the layout contracts"""
    u.shim('intern.rs')
    u.shim('ty_deps.rs')
    u.shim('std_extra.rs')
    u.extract(T, 'struct MemberTy', keep_derives={'Clone', 'Copy'})
    u.extract(T, 'struct ParamTy', keep_derives={'Clone', 'Copy'})
    u.extract(T, 'enum Ty', keep_derives=set())
    u.extract(L, 'struct EnumLayout', keep_derives={'Clone', 'Copy'}, pub_fields=True)
    u.extract(L, 'struct StructLayout', keep_derives=set(), pub_fields=True)
    u.shim('layout_tables.rs')
    u.parts.append(('spec', __file__.replace('unit.py', 'defs.rs')))


# contracts proved here and relied upon (as stubs) by other units
C_ABSOLUTE_TY = '''
    ensures *res == spec_abs(*self)
'''
C_IS_POINTER = '    ensures res == is_ptr(*self)'
C_STRIDE = '''
    ensures res as nat == stride_of(*self.0), entry_ok(*self.0)
'''
C_ALIGN_SHIFT = '''
    ensures res <= 3, (1u32 << res) as nat == talign(*self.0), entry_ok(*self.0)
'''
C_DISCR_OFF = '    ensures res == self.discriminant_offset'
C_OFFSETS = '    ensures res@ == self.offsets@'


def api_stubs(u):
    """the layout API as contracts only (bodies are proved in unit `layout`)"""
    u.extract(T, 'impl Ty::fn absolute_ty', wrap=('impl Ty {', '}'), contract=C_ABSOLUTE_TY, stub='layout')
    u.extract(T, 'impl Ty::fn is_pointer', wrap=('impl Ty {', '}'), contract=C_IS_POINTER, stub='layout')
    u.extract(T, 'impl Ty::fn is_non_zero', wrap=('impl Ty {', '}'), contract=C_IS_POINTER, stub='layout')
    u.extract(L, 'impl GetLayoutInfo for Intern<Ty>::fn stride', wrap=('impl Intern<Ty> {', '}'), contract=C_STRIDE, stub='layout')
    u.extract(L, 'impl GetLayoutInfo for Intern<Ty>::fn align_shift', wrap=('impl Intern<Ty> {', '}'), contract=C_ALIGN_SHIFT, stub='layout')
    u.extract(L, 'impl EnumLayout::fn discriminant_offset', wrap=('impl EnumLayout {', '}'), contract=C_DISCR_OFF, stub='layout')
    u.extract(L, 'impl StructLayout::fn offsets', wrap=('impl StructLayout {', '}'), contract=C_OFFSETS, stub='layout')


UNIT = u = Unit('layout', ['C17'], 'type layout tables: calc_single, StructLayout::new, padding_needed_for, stride, align_shift')
prelude(u)
u.spec('spec.rs')      # the lemmas (other units include the definitions only)
u.trusted += [
    'LAYOUTS table modelled rely/guarantee: reads return the table content (T1), entries are written once by calc_single under the proved write preconditions (T2), an insert defines the content (T3) -- shims/verus/layout_tables.rs',
    'GetLayoutInfo::{size, align, struct_layout, enum_layout} are table reads and are trusted, not extracted',
    'panic-freedom of table lookups (key present) is not claimed',
    'machine arithmetic is not idealised: calc_single is specified on ty_wf types (language int/float widths, every nested size <= 1 GiB)',
]
u.sole_writer_checks.append((L, r'\.insert\(', 6, 'calc_single must stay the only writer of the layout tables (2 size/align + 4 layout inserts)'))

# R4-idiom: access to the global table
LOCK_REF = Rewrite('R4', r'let layouts = LAYOUTS\.lock\(\)\.unwrap\(\);\s*let layouts = layouts\.get\(\)\.unwrap\(\);',
                   'let layouts = layouts_ref();', count=1,
                   why='global table access idiom -> shim accessor (assumptions T1-T3 of shims/verus/layout_tables.rs)')
LOCK_MUT = Rewrite('R4', r'let mut layouts = LAYOUTS\.lock\(\)\.unwrap\(\);\s*let layouts = layouts\.get_mut\(\)\.unwrap\(\);',
                   'let mut layouts = layouts_mut();', count=1,
                   why='global table access idiom -> shim accessor')
LOCK_INS = Rewrite('R4', r'let mut layouts = LAYOUTS\.lock\(\)\.unwrap\(\);\s*layouts\s*\.get_mut\(\)\s*\.unwrap\(\)\s*\.(\w+)\s*\.insert\(',
                   r'let mut layouts = layouts_mut(); layouts.\1.insert(', count=4,
                   why='global table access idiom -> shim accessor; table name and arguments kept')
INDEX = Rewrite('R4', r'layouts\.(sizes|alignments)\[self\]', r'layouts.\1.at(self)', count=2,
                why='Index on FxHashMap -> shim read `at` (T1, T2)')

u.extract(T, 'impl Ty::fn absolute_ty',
          wrap=('impl Ty {', '}'),
          contract=C_ABSOLUTE_TY,
          loops={0: '''
    invariant spec_abs(*curr_ty) == spec_abs(*self)
    decreases *curr_ty
'''})
u.extract(T, 'impl Ty::fn is_pointer', wrap=('impl Ty {', '}'), contract=C_IS_POINTER)
u.extract(T, 'impl Ty::fn is_non_zero', wrap=('impl Ty {', '}'), contract=C_IS_POINTER)
u.extract(L, 'impl EnumLayout::fn discriminant_offset', wrap=('impl EnumLayout {', '}'), contract=C_DISCR_OFF)
u.extract(L, 'impl StructLayout::fn offsets', wrap=('impl StructLayout {', '}'), contract=C_OFFSETS)

u.extract(L, 'fn padding_needed_for', contract='''
    requires align > 0
    ensures
        res < align,
        (offset + res) % (align as int) == 0,
        offset as nat + res as nat == rup(offset as nat, align as nat),
''', inserts=[('@body_start', 'after', '''
    proof { lemma_rup(offset as nat, align as nat); }
''')])

u.extract(L, 'impl StructLayout::fn new', wrap=('impl StructLayout {', '}'),
          contract='''
    requires
        struct_end(itys(fields@), fields@.len()) <= MAX_SIZE(),
        forall|i: int| 0 <= i < fields@.len() ==> pow2_le8(#[trigger] talign(itys(fields@)[i])),
    ensures
        fields_layout_ok(itys(fields@), res.view()),
        res.size as nat == struct_end(itys(fields@), fields@.len()),
''',
          desugar_for={0: ('k', 'val')},
          loops={0: '''
    invariant
        it_k@ == fields@,
        0 <= k <= fields@.len(),
        offsets@.len() == k,
        struct_end(itys(fields@), fields@.len()) <= MAX_SIZE(),
        forall|i: int| 0 <= i < fields@.len() ==> pow2_le8(#[trigger] talign(itys(fields@)[i])),
        current_offset as nat == struct_end(itys(fields@), k as nat),
        pow2_le8(max_align as nat),
        forall|i: int| 0 <= i < k ==> #[trigger] offsets@[i] as nat == rup(struct_end(itys(fields@), i as nat), talign(itys(fields@)[i])),
        forall|i: int| 0 <= i < k ==> pow2_le8(#[trigger] talign(itys(fields@)[i])) && talign(itys(fields@)[i]) <= max_align,
        k == 0 ==> max_align == 1,
        k > 0 ==> exists|i: int| 0 <= i < k && #[trigger] talign(itys(fields@)[i]) == max_align,
    decreases fields@.len() - k
'''},
          inserts=[
              ('@loop_start:0', 'after', '''
            proof {
                let f = itys(fields@);
                assert(f[k as int] == *fields@[k as int].0);
                lemma_struct_end_step(f, k as nat);
                lemma_struct_end_le(f, (k + 1) as nat);
            }
'''),
              ('@loop_end:0', 'after', '''
        proof { lemma_fields_layout(itys(fields@), offsets@, current_offset as nat, max_align as nat); }
'''),
          ])

u.extract(L, 'impl GetLayoutInfo for Intern<Ty>::fn stride', wrap=('impl Intern<Ty> {', '}'),
          rewrites=[LOCK_REF, INDEX],
          contract=C_STRIDE,
          inserts=[('@body_start', 'after', '''
        proof { if entry_ok(*self.0) { lemma_stride_bits(tsize(*self.0) as u32, talign(*self.0) as u32); } }
''')])
u.extract(L, 'impl GetLayoutInfo for Intern<Ty>::fn align_shift', wrap=('impl Intern<Ty> {', '}'),
          rewrites=[Rewrite('R4', r'LAYOUTS\.lock\(\)\.unwrap\(\)\.get\(\)\.unwrap\(\)\.alignments\[self\]', 'layouts_ref().alignments.at(self)', count=1,
                            why='global table access idiom -> shim accessor')],
          contract=C_ALIGN_SHIFT,
          inserts=[('assert!(align.is_power_of_two());', 'after', '''
        proof { lemma_tz(align); }
''')])

MEMBER_TYS = Rewrite('R8', r'let members = members\.iter\(\)\.map\(\|member\| member\.ty\)\.collect::<Vec<_>>\(\);',
                     'let members = member_tys_vec(members);', count=1,
                     why='iterator adapter outside the Verus dialect -> shim returning the member types in order (assumed)')
ASSERT_MSG = Rewrite('R6', r'assert!\(align <= 8, "align is \{align\} \(> 8\)"\);', 'assert!(align <= 8);', count=1,
                     why='panic message dropped; the assertion itself is proved')

u.extract(L, 'fn calc_single',
          rewrites=[LOCK_REF, LOCK_INS, LOCK_MUT, MEMBER_TYS, ASSERT_MSG],
          contract='''
    requires
        pointer_bit_width == pbw(), pbw() == 32 || pbw() == 64,
        ty_wf(*ty.0),
    ensures
        entry_ok(*ty.0),
    decreases *ty.0
''',
          ret=None,
          loop_count=2,
          desugar_for={0: ('mi', 'ref'), 1: ('vi', 'ref')},
          loops={
              0: '''
    invariant
        pointer_bit_width == pbw(), pbw() == 32 || pbw() == 64,
        is_struct_ty(*ty.0), ty_wf(*ty.0),
        *it_mi == members,
        members@.len() == members_of(*ty.0).len(),
        forall|i: int| 0 <= i < members@.len() ==> #[trigger] members@[i] == members_of(*ty.0)[i].ty,
        0 <= mi <= members@.len(),
        forall|i: int| 0 <= i < mi ==> entry_ok(*(#[trigger] members@[i]).0),
    decreases members@.len() - mi
''',
              1: '''
    invariant
        pointer_bit_width == pbw(), pbw() == 32 || pbw() == 64,
        enum_variants(*ty.0) == Some(*variants), ty_wf(*ty.0),
        *it_vi == *variants,
        0 <= vi <= variants@.len(),
        forall|i: int| 0 <= i < vi ==> entry_ok(*(#[trigger] variants@[i]).0)
            && tsize(*variants@[i].0) <= max_variant_size && talign(*variants@[i].0) <= max_variant_align,
        vi == 0 ==> max_variant_size == 0,
        vi > 0 ==> exists|i: int| 0 <= i < vi && tsize(*(#[trigger] variants@[i]).0) == max_variant_size,
        pow2_le8(max_variant_align as nat),
        max_variant_size < MAX_SIZE(),
    decreases variants@.len() - vi
''',
          },
          inserts=[
              ('let struct_layout = StructLayout::new(members);', 'before', '''
            proof {
                assert(itys(members@) =~= field_tys(*ty.0));
                assert forall|i: int| 0 <= i < members@.len() implies pow2_le8(#[trigger] talign(itys(members@)[i])) by {
                    assert(entry_ok(*members@[i].0));
                }
            }
'''),
              ('@loop_end:1', 'after', '''
            proof {
                assert(payloads_of(*ty.0) =~= itys(variants@));
                assert forall|i: int| 0 <= i < variants@.len() implies
                    tsize(#[trigger] payloads_of(*ty.0)[i]) <= max_variant_size
                    && talign(payloads_of(*ty.0)[i]) <= max_variant_align by {
                    assert(entry_ok(*variants@[i].0));
                }
                if variants@.len() > 0 {
                    let w = choose|i: int| 0 <= i < variants@.len() && tsize(*(#[trigger] variants@[i]).0) == max_variant_size;
                    assert(tsize(payloads_of(*ty.0)[w]) == max_variant_size);
                }
            }
'''),
              ('let payload_align = sub_ty.align();', 'after', '''
                proof {
                    assert(payloads_of(*ty.0) =~= seq![*sub_ty.0]);
                    assert(tsize(payloads_of(*ty.0)[0]) == payload_size);
                }
'''),
              ('let inner_align = error_ty.align().max(payload_ty.align());', 'after', '''
            proof {
                assert(payloads_of(*ty.0) =~= seq![*error_ty.0, *payload_ty.0]);
                assert(tsize(payloads_of(*ty.0)[0]) == tsize(*error_ty.0));
                assert(tsize(payloads_of(*ty.0)[1]) == tsize(*payload_ty.0));
            }
'''),
              ('Ty::AnonArray { size, sub_ty } | Ty::ConcreteArray { size, sub_ty, .. } => {', 'after', '''
            proof {
                let st = stride_of(*sub_ty.0);
                let n = *size as nat;
                assert(n * st <= MAX_SIZE());
                if st > 0 {
                    assert(n <= n * st) by (nonlinear_arith) requires st >= 1;
                }
                assert(st * (*size as u32) == n * st) by (nonlinear_arith)
                    requires st == 0 || (*size as u32) as nat == n;
            }
'''),
          ])

# mutation self-test (tools/selftest.py): property-breaking edits must turn the check red,
# harmless ones must leave it green
MUTANTS = [
    (L, 'size: max_variant_size + 1,', 'size: max_variant_size,', 'violation'),
    (L, 'discriminant_offset: max_variant_size,', 'discriminant_offset: 0,', 'violation'),
    (L, 'discriminant_offset: payload_size,', 'discriminant_offset: 0,', 'violation'),
    (L, 'Ty::IInt(_) | Ty::UInt(_) | Ty::Float(_) => size.min(8),', 'Ty::IInt(_) | Ty::UInt(_) | Ty::Float(_) => size,', 'violation'),
    (L, 'let mask = layouts.alignments[self] - 1;', 'let mask = layouts.alignments[self];', 'violation'),
    (L, '            current_offset += padding_needed_for(current_offset, field_align);\n\n            offsets.push(current_offset);',
        '            offsets.push(current_offset);\n\n            current_offset += padding_needed_for(current_offset, field_align);', 'violation'),
    (L, 'sub_ty.stride() * *size as u32', 'sub_ty.size() * *size as u32', 'violation'),
    (L, 'align - misalign', 'misalign', 'violation'),
    (L, 'if sub_ty.is_non_zero() {\n                sub_ty.size()', 'if sub_ty.is_non_zero() {\n                sub_ty.size() + 1', 'violation'),
    (L, 'let inner_size = error_ty.size().max(payload_ty.size());', 'let inner_size = error_ty.size().min(payload_ty.size());', 'violation'),
    (L, 'if field_align > max_align {', 'if field_align < max_align {', 'violation'),
    # harmless: rename a local, reorder independent statements
    (L, 'let misalign = offset % align;\n    if misalign > 0 {\n        // the amount needed to round up to the next proper offset\n        align - misalign',
        'let rem = offset % align;\n    if rem > 0 {\n        // the amount needed to round up to the next proper offset\n        align - rem', 'ok'),
    (L, '        let mut max_align = 1;\n        let mut current_offset = 0;', '        let mut current_offset = 0;\n        let mut max_align = 1;', 'ok'),
]
