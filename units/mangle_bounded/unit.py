"""Unit `mangle_bounded` (C27): bounded stand-in on the real text of add_part and the functions
of mangle.rs it calls.  Decides the property when a refactoring takes add_part out of the
Verus dialect (then the proof of unit `mangle` is undecided).  BOUNDED -- not a proof."""
from tools.unitapi import Unit
from tools import textdriver

UNIT = u = Unit('mangle_bounded', ['C27'], 'bounded: encodings of all part texts up to a length are distinct and uniquely decodable in pairs')
u.expected = ['add_part']
u.trusted += ['BOUNDED stand-in (not a proof): part texts of at most 4 (quick) / 6 (thorough) symbols over {1, _, a, f, -, 0}; pairs of parts of at most 2 symbols']


def runner(unit, prop, repo, scratch, tier):
    return textdriver.run(unit, prop, repo, scratch, tier, 'crates/codegen/src/mangle.rs',
                          [('enum', 'MangledPartKind'), ('impl', 'MangledPartKind'), ('struct', 'MangledPart'), ('fn', 'add_part')],
                          'use std::borrow::Cow;\n', 'mangle/main.rs', [4], [6], 'add_part',
                          'enc(t1) != enc(t2) for t1 != t2, and enc(a)+enc(b) == enc(c)+enc(d) only for (a,b) == (c,d), over all texts up to N symbols')


u.runner = runner
