"""Unit `ty_nominal` (C13): the nominal arms of Ty::can_fit_into and is_functionally_equivalent_to."""
from tools.unitapi import Unit, Rewrite

T = 'crates/hir/src/common/ty.rs'

UNIT = u = Unit('ty_nominal', ['C13'], 'implicit acceptance between nominal types')
u.shim('intern.rs')
u.shim('ty_deps.rs')
u.extract(T, 'struct MemberTy', keep_derives={'Clone', 'Copy'})
u.extract(T, 'struct ParamTy', keep_derives={'Clone', 'Copy'})
u.extract(T, 'enum Ty', keep_derives=set())
u.spec('spec.rs')
u.trusted += [
    '`==` on Ty is structural equality (derived PartialEq + Intern canonicity)',
    'might_be_weak / is_weak_replaceable_by are stubs (uninterpreted): they only occur in arms between non-nominal types',
    'elided arms (R8): anonymous struct -> named struct (FxHashMap), function types (Vec equality / iterator adapters); nothing is claimed for inputs that reach them',
    'call sites of can_fit_into in the checker (expect_match) are not under contract',
    '"explicit casts between a distinct type and its underlying type preserve the value" is cast_num\'s identity branch (unit numeric); that can_cast_to accepts them is not covered',
]
u.raw('''
// `==` on types: ASSUMED structural (derive(PartialEq) on Ty, pointer equality on canonical Intern handles)
impl PartialEq for Ty {
    #[verifier::external_body]
    fn eq(&self, other: &Ty) -> (r: bool) ensures r == (*self == *other) { unimplemented!() }
}
impl PartialEq for Intern<Ty> {
    #[verifier::external_body]
    fn eq(&self, other: &Intern<Ty>) -> (r: bool) ensures r == (*self.0 == *other.0) { unimplemented!() }
}
pub uninterp spec fn spec_might_be_weak(t: Ty) -> bool;
pub uninterp spec fn spec_weak_replaceable(a: Ty, b: Ty) -> bool;
impl Ty {
    #[verifier::external_body]
    pub fn might_be_weak(&self) -> (r: bool) ensures r == spec_might_be_weak(*self) { unimplemented!() }
    #[verifier::external_body]
    pub fn is_weak_replaceable_by(&self, expected: &Ty) -> (r: bool) ensures r == spec_weak_replaceable(*self, *expected) { unimplemented!() }
}
// R8: value of an elided arm -- nothing is known about it
#[verifier::external_body]
pub fn elided_bool() -> bool { unimplemented!() }
''')

FE_ELIDE = [
    ('''                | Ty::AnonStruct {
                    members: second_members,
                },
            ) =>''', 'elided_bool()', 'struct members compared with `.iter().zip_eq(..).all(..)`'),
    ('''                Ty::ConcreteFunction {
                    param_tys: second_param_tys,
                    return_ty: second_ret_ty,
                    ..
                },
            ) =>''', 'elided_bool()', 'function types: Vec<ParamTy> equality'),
]
DEREF_EQ = 'comparison of two `&Ty` is by definition the comparison of the referents (`impl PartialEq<&B> for &A`); written out so that the structural-equality contract of `Ty::eq` applies'
u.extract(T, 'impl Ty::fn is_functionally_equivalent_to', wrap=('impl Ty {', '}'), elide=FE_ELIDE,
          rewrites=[Rewrite('R7', r'\(first, second\) => first == second,', '(first, second) => *first == *second,', count=1, why=DEREF_EQ)],
          contract='''
    ensures
        // a distinct `self` keeps its distinction against anything that is not a distinct
        (*self is Distinct && !(*other is Distinct) && !self_can_lose_distinction) ==> !res,
        // the same for a variant (a distinct `other` is unwrapped first)
        (*self is EnumVariant && !(*other is Distinct) && !(*other is EnumVariant) && !self_can_lose_distinction) ==> !res,
        // a named struct is not an enum
        (*self is ConcreteStruct && *other is Enum) ==> !res,
    decreases *self, *other
''')

CF_ELIDE = [
    ('''                Ty::AnonStruct {
                    members: found_members,
                    ..
                },
                Ty::ConcreteStruct {
                    members: expected_members,
                    ..
                },
            ) =>''', 'elided_bool()', 'anonymous struct -> named struct: builds FxHashMaps'),
    ('(Ty::NaivePolymorphicFunction { .. }, Ty::ConcreteFunction { param_tys, .. }) =>',
     'elided_bool()', 'iterator adapter `.iter().any(..)`'),
    ('''                Ty::FunctionPointer {
                    param_tys: expected_param_tys,
                    return_ty: expected_ret_ty,
                    ..
                },
            ) =>''', 'elided_bool()', 'function types: Vec<ParamTy> equality'),
]
u.extract(T, 'impl Ty::fn can_fit_into', wrap=('impl Ty {', '}'), elide=CF_ELIDE,
          rewrites=[Rewrite('R7', r'if self == expected \{', 'if *self == *expected {', count=1, why=DEREF_EQ)],
          contract='''
    ensures
        // N1a  two nominal types of the same kind with different uids never mix
        (same_kind_nominal(*self, *expected) && nominal_uid(*self) != nominal_uid(*expected)) ==> !res,
        // N3   ... also when they are the element types of fixed-size arrays (any nesting depth)
        nominal_clash(*self, *expected) ==> !res,
        // N1b  nothing nominal fits into a (different) enum variant
        (is_nominal_value(*self) && *expected is EnumVariant && !same_nominal(*self, *expected)) ==> !res,
        // N1c  a distinct / variant does not fit into a named struct or into an enum that is not its own
        ((*self is Distinct || *self is EnumVariant) && (*expected is ConcreteStruct || *expected is Enum)
            && !variant_of(*self, *expected)) ==> !res,
        // N1d  a named struct does not fit into an enum
        (*self is ConcreteStruct && *expected is Enum) ==> !res,
        // N1e  "... including that type's own underlying type"
        ((*self is Distinct || *self is EnumVariant) && *expected == underlying(*self) && plain_ty(*expected)) ==> !res,
        // N1f  a variant / named struct does not fit into a distinct type (always a different nominal type)
        ((*self is EnumVariant || *self is ConcreteStruct) && *expected is Distinct) ==> !res,
        // N2   the exception: a variant fits into its own enum
        variant_of(*self, *expected) ==> res,
    decreases *self, *expected
''', inserts=[('@body_start', 'after', ' proof { lemma_no_self_clash(*self); } ')])

MUTANTS = [
    (T, '            ) => found_size == expected_size && found_ty.can_fit_into(expected_ty),', '            ) => found_size == expected_size && found_ty.is_functionally_equivalent_to(expected_ty, false),', 'violation'),
    (T, '            (_, Ty::EnumVariant { .. }) => false,\n', '', 'violation'),   # the repaired defect, re-introduced
    (T, """                Ty::ConcreteStruct {
                    uid: expected_uid, ..
                },
            ) => found_uid == expected_uid,""", """                Ty::ConcreteStruct {
                    uid: expected_uid, ..
                },
            ) => found_uid <= expected_uid,""", 'violation'),
    (T, '(Ty::EnumVariant { enum_uid, .. }, Ty::Enum { uid, .. }) => enum_uid == uid,', '(Ty::EnumVariant { enum_uid, .. }, Ty::Enum { uid, .. }) => enum_uid == uid || true,', 'violation'),
    (T, """                self_can_lose_distinction
                    && distinct_inner
                        .is_functionally_equivalent_to(other, self_can_lose_distinction)""", """                distinct_inner
                        .is_functionally_equivalent_to(other, self_can_lose_distinction)""", 'violation'),
    (T, '(Ty::EnumVariant { enum_uid, .. }, Ty::Enum { uid, .. }) => enum_uid == uid,', '(Ty::EnumVariant { enum_uid, .. }, Ty::Enum { uid, .. }) => enum_uid != uid,', 'violation'),
]
