// Specification for C13: "A value of a distinct type, an enum variant type or a named struct
// is never implicitly accepted where a different nominal type is expected, including that
// type's own underlying type.  The only exceptions are untyped literals and
// variant-to-own-enum conversions."  Ghost code only.

/// the nominal types: identity is the uid, not the structure
pub open spec fn is_nominal(ty: Ty) -> bool {
    ty is Distinct || ty is EnumVariant || ty is ConcreteStruct || ty is Enum
}
pub open spec fn nominal_uid(ty: Ty) -> u32 {
    match ty {
        Ty::Distinct { uid, .. } => uid,
        Ty::EnumVariant { uid, .. } => uid,
        Ty::ConcreteStruct { uid, .. } => uid,
        Ty::Enum { uid, .. } => uid,
        _ => 0,
    }
}
/// same kind of nominal type and same uid
pub open spec fn same_nominal(a: Ty, b: Ty) -> bool {
    ((a is Distinct && b is Distinct) || (a is EnumVariant && b is EnumVariant)
     || (a is ConcreteStruct && b is ConcreteStruct) || (a is Enum && b is Enum))
    && nominal_uid(a) == nominal_uid(b)
}
/// "variant-to-own-enum"
pub open spec fn variant_of(v: Ty, e: Ty) -> bool {
    v is EnumVariant && e is Enum && v->EnumVariant_enum_uid == e->Enum_uid
}
/// the underlying type of a distinct / variant
pub open spec fn underlying(ty: Ty) -> Ty {
    match ty {
        Ty::Distinct { sub_ty, .. } => *sub_ty.0,
        Ty::EnumVariant { sub_ty, .. } => *sub_ty.0,
        _ => ty,
    }
}

/// the nominal types a *value* can have (an enum value always has a variant type or the enum type)
pub open spec fn is_nominal_value(ty: Ty) -> bool {
    ty is Distinct || ty is EnumVariant || ty is ConcreteStruct
}
pub open spec fn same_kind_nominal(a: Ty, b: Ty) -> bool {
    (a is Distinct && b is Distinct) || (a is EnumVariant && b is EnumVariant) || (a is ConcreteStruct && b is ConcreteStruct)
}
/// underlying types for which "fits" does not recurse into something else first
pub open spec fn plain_ty(ty: Ty) -> bool {
    !(ty is Any) && !(ty is Optional) && !(ty is ErrorUnion) && !(ty is Distinct) && !(ty is EnumVariant)
    && !(ty is Unknown) && !(ty is Enum)
}

/// two different nominal types of the same kind, directly or as the element type of fixed-size
/// arrays (of any nesting depth): the elements of `[3]Meters` are values of `Meters`
pub open spec fn nominal_clash(a: Ty, b: Ty) -> bool decreases a {
    (same_kind_nominal(a, b) && nominal_uid(a) != nominal_uid(b))
    || match (a, b) {
        (Ty::ConcreteArray { sub_ty: fa, .. }, Ty::ConcreteArray { sub_ty: fb, .. }) => nominal_clash(*fa.0, *fb.0),
        (Ty::AnonArray { sub_ty: fa, .. }, Ty::ConcreteArray { sub_ty: fb, .. }) => nominal_clash(*fa.0, *fb.0),
        _ => false,
    }
}
pub proof fn lemma_no_self_clash(a: Ty)
    ensures !nominal_clash(a, a)
    decreases a
{
    match a {
        Ty::ConcreteArray { sub_ty, .. } => { lemma_no_self_clash(*sub_ty.0); }
        _ => {}
    }
}
