"""Unit `line_index` (C25): LineIndex::line_col, Index<LineNr>, Sub impls."""
from tools.unitapi import Unit, Rewrite

LI = 'crates/line_index/src/lib.rs'

UNIT = u = Unit('line_index', ['C25'], 'offset -> (line, column)')
u.shim('text_size.rs')
u.raw('use std::ops::{Index, Sub};')
u.extract(LI, 'struct LineIndex', keep_derives=set(), pub_fields=True)
u.extract(LI, 'struct LineNr', keep_derives={'Clone', 'Copy'})
u.extract(LI, 'struct ColNr', keep_derives={'Clone', 'Copy'})
u.spec('spec.rs')
u.trusted += [
    'LineIndex::new builds an index satisfying index_wf (its iterator chain is outside the Verus dialect; bounded stand-in in the thorough tier)',
    'text_size::TextSize modelled as a u32 alias; std partition_point contract assumed from its documentation',
    'rendering of "file:line:col" in diagnostics (format!) is not under contract',
]

import re as _re


def _closure(m):
    body = m.group(1).strip()
    body2 = _re.sub(r'\bit\b', '(*it_ref)', body)
    return '|it_ref: &TextSize| -> (b: bool) ensures b == (%s) { %s })' % (body2, body2)


CLOSURE = Rewrite('R7', r'\|&it\|([^()]*)\)', _closure, count=1,
                  why='closure parameter pattern `|&it| EXPR` desugared to `|it_ref: &TextSize| EXPR[it := *it_ref]` (Verus supports only variable parameters); `ensures b == EXPR` spliced (R2); EXPR is kept')

u.extract(LI, 'impl LineIndex::fn line_col', wrap=('impl LineIndex {', '}'),
          rewrites=[CLOSURE],
          contract='''
    requires
        // `self` was built from `text` (ghost parameter of the contract only)
        exists|text: Seq<u8>| index_wf(self.line_starts@, text) && offset <= text.len(),
    ensures
        // line = newlines before the offset, column = offset - start of that line (pos_ok)
        forall|text: Seq<u8>| #[trigger] index_wf(self.line_starts@, text) && offset <= text.len()
            ==> pos_ok(text, offset, (res.0).0, (res.1).0),
''',
          inserts=[('@body_start', 'after', '''
        proof {
            let text = choose|text: Seq<u8>| index_wf(self.line_starts@, text) && offset <= text.len();
            let ls = self.line_starts@;
            // entries are strictly increasing: the predicate `<= offset` holds exactly on a prefix
            let p = lemma_pp_exists(ls, offset, ls.len() as int);
            assert(pp_hint(p));
            lemma_line_of(ls, text, offset, p);
            assert forall|t2: Seq<u8>| #[trigger] index_wf(ls, t2) && offset <= t2.len() implies
                pos_ok(t2, offset, (p - 1) as u32, (offset - ls[p - 1]) as u32) by {
                lemma_line_of(ls, t2, offset, p);
            }
        }
''')])
u.extract(LI, 'impl Index<LineNr> for LineIndex::fn index',
          wrap=('impl Index<LineNr> for LineIndex {\n    type Output = TextSize;', '}'),
          contract='''
    ensures *res == self.line_starts@[index.0 as int]
''')
u.extract(LI, 'impl Sub for LineNr::fn sub', key='LineNr.sub',
          wrap=('impl Sub for LineNr {\n    type Output = Self;', '}'), contract='''
    ensures res.0 == self.0 - rhs.0
''')
u.extract(LI, 'impl Sub for ColNr::fn sub', key='ColNr.sub',
          wrap=('impl Sub for ColNr {\n    type Output = Self;', '}'), contract='''
    ensures res.0 == self.0 - rhs.0
''')

MUTANTS = [
    (LI, 'partition_point(|&it| it <= offset) - 1;', 'partition_point(|&it| it <= offset);', 'violation'),
    (LI, 'partition_point(|&it| it <= offset) - 1;', 'partition_point(|&it| it < offset) - 1;', 'violation'),
    (LI, 'let line_start_offset = self[line];', 'let line_start_offset = self[LineNr(0)];', 'violation'),
    (LI, 'u32::from(offset - line_start_offset)', 'u32::from(line_start_offset - offset)', 'violation'),
    (LI, '&self.line_starts[index.0 as usize]', '&self.line_starts[index.0 as usize + 1]', 'violation'),
    (LI, 'let col = ColNr(u32::from(offset - line_start_offset));', 'let col = ColNr(u32::from(offset - line_start_offset) + 1);', 'violation'),
    # harmless
    (LI, 'let line_start_offset = self[line];\n        let col = ColNr(u32::from(offset - line_start_offset));',
         'let start = self[line];\n        let col = ColNr(u32::from(offset - start));', 'ok'),
]
