// Specification of C25, from the statement: "for every text and every byte offset in it, the
// computed position has line equal to the number of newlines before the offset and column
// equal to the offset minus the start of that line".  Ghost code only.

/// number of '\n' bytes among the first n bytes of the text
pub open spec fn nl_count(text: Seq<u8>, n: int) -> int decreases n {
    if n <= 0 || n > text.len() { 0 } else { nl_count(text, n - 1) + if text[n - 1] == 10u8 { 1int } else { 0int } }
}
/// start of the line that contains byte offset n: just after the last '\n' before n (or 0)
pub open spec fn line_start(text: Seq<u8>, n: int) -> int decreases n {
    if n <= 0 || n > text.len() { 0 } else if text[n - 1] == 10u8 { n } else { line_start(text, n - 1) }
}

/// C25, first sentence
pub open spec fn pos_ok(text: Seq<u8>, offset: u32, line: u32, col: u32) -> bool {
    line as int == nl_count(text, offset as int) && col as int == offset - line_start(text, offset as int)
}

/// What `LineIndex::new(text)` is ASSUMED to build (its iterator chain is outside the
/// verifier's dialect): entry k is the offset just after the k-th newline, entry 0 is 0, and
/// every newline has its entry.
pub open spec fn index_wf(ls: Seq<u32>, text: Seq<u8>) -> bool {
    &&& text.len() < 0xffff_ffff
    &&& ls.len() == nl_count(text, text.len() as int) + 1
    &&& ls[0] == 0
    &&& forall|i: int, j: int| 0 <= i < j < ls.len() ==> ls[i] < ls[j]
    &&& forall|k: int| 0 <= k < ls.len() ==> #[trigger] ls[k] <= text.len() && nl_count(text, ls[k] as int) == k
    &&& forall|k: int| 0 < k < ls.len() ==> text[#[trigger] ls[k] - 1] == 10u8
}

impl vstd::std_specs::core::IndexSpecImpl<LineNr> for LineIndex {
    open spec fn index_req(&self, index: &LineNr) -> bool { index.0 < self.line_starts@.len() }
}
impl vstd::std_specs::ops::SubSpecImpl for LineNr {
    open spec fn obeys_sub_spec() -> bool { true }
    open spec fn sub_req(self, rhs: Self) -> bool { self.0 >= rhs.0 }
    open spec fn sub_spec(self, rhs: Self) -> Self { LineNr((self.0 - rhs.0) as u32) }
}
impl vstd::std_specs::ops::SubSpecImpl for ColNr {
    open spec fn obeys_sub_spec() -> bool { true }
    open spec fn sub_req(self, rhs: Self) -> bool { self.0 >= rhs.0 }
    open spec fn sub_spec(self, rhs: Self) -> Self { ColNr((self.0 - rhs.0) as u32) }
}

pub proof fn lemma_nl_mono(text: Seq<u8>, a: int, b: int)
    requires 0 <= a <= b <= text.len()
    ensures nl_count(text, a) <= nl_count(text, b)
    decreases b - a
{
    if a < b { lemma_nl_mono(text, a, b - 1); }
}

/// no newline between a and b  ==> same line start
pub proof fn lemma_same_line(text: Seq<u8>, a: int, b: int)
    requires 0 <= a <= b <= text.len(), nl_count(text, a) == nl_count(text, b),
             a == 0 || text[a - 1] == 10u8
    ensures line_start(text, b) == a
    decreases b - a
{
    if a < b {
        lemma_nl_mono(text, a, b - 1);
        lemma_same_line(text, a, b - 1);
    }
}

/// the entry found by the partition point is the line of the offset
pub proof fn lemma_line_of(ls: Seq<u32>, text: Seq<u8>, offset: u32, p: int)
    requires
        index_wf(ls, text), offset <= text.len(), 0 <= p <= ls.len(),
        forall|i: int| 0 <= i < p ==> ls[i] <= offset,
        forall|i: int| p <= i < ls.len() ==> ls[i] > offset,
    ensures
        p >= 1,
        p - 1 == nl_count(text, offset as int),
        ls[p - 1] as int == line_start(text, offset as int),
        ls[p - 1] <= offset,
        p - 1 <= offset,
{
    lemma_nl_mono(text, 0, text.len() as int);
    lemma_nl_le(text, offset as int);
    assert(ls.len() >= 1);
    if p == 0 { assert(ls[0] > offset); }
    let l = p - 1;
    lemma_nl_mono(text, ls[l] as int, offset as int);
    if p < ls.len() {
        // offset < ls[p], and text[ls[p]-1] is the newline that ends line l
        lemma_nl_mono(text, offset as int, ls[p] - 1);
        assert(nl_count(text, ls[p] as int) == nl_count(text, ls[p] - 1) + 1);
    } else {
        lemma_nl_mono(text, offset as int, text.len() as int);
    }
    lemma_same_line(text, ls[l] as int, offset as int);
}

/// for a strictly increasing sequence the entries `<= offset` form a prefix of length p
pub proof fn lemma_pp_exists(ls: Seq<u32>, offset: u32, n: int) -> (p: int)
    requires 0 <= n <= ls.len(), forall|i: int, j: int| 0 <= i < j < ls.len() ==> ls[i] < ls[j]
    ensures 0 <= p <= n,
        forall|i: int| 0 <= i < p ==> ls[i] <= offset,
        forall|i: int| p <= i < n ==> ls[i] > offset,
    decreases n
{
    if n == 0 { 0 }
    else {
        let q = lemma_pp_exists(ls, offset, n - 1);
        if ls[n - 1] <= offset {
            // then everything before it is <= offset too
            assert forall|i: int| 0 <= i < n implies ls[i] <= offset by { if i < n - 1 { assert(ls[i] < ls[n - 1]); } }
            n
        } else { q }
    }
}

pub proof fn lemma_nl_le(text: Seq<u8>, n: int)
    requires 0 <= n <= text.len()
    ensures 0 <= nl_count(text, n) <= n
    decreases n
{
    if n > 0 { lemma_nl_le(text, n - 1); }
}
