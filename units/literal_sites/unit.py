"""Unit `literal_sites` (C09): bounded stand-in for the checker's call sites of the literal
range limit (`replace_weak_tys` / `expect_match` in hir_ty/src/globals.rs), which are out of the
verifier's reach (1 600-line inference functions over arenas and interned types).  BOUNDED."""
from tools.unitapi import Unit
from tools import bounded

UNIT = u = Unit('literal_sites', ['C09'], 'bounded: every integer type x boundary value x context in which a literal meets its type, through the real front end')
u.expected = ['replace_weak_tys']
u.trusted += ['BOUNDED stand-in (not a proof): 12 integer types x the boundary values of the property quantifier (MAX-1, MAX, MAX+1 of each width, 2^31, 2^32, 2^63, 0, 1) x 11 (quick) / 16 (thorough, also `_` separators and hex) contexts; oracle: rejected iff value > largest value of the type']


def runner(unit, prop, repo, scratch, tier):
    return bounded.run_driver(unit, prop, repo, scratch, tier, 'literal_range', ['quick'], ['thorough'], 'replace_weak_tys',
                              'IntTooBigForType is reported iff the literal exceeds the largest value of the integer type it is used at, in every listed context')


u.runner = runner
