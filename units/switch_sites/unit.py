"""Unit `switch_sites` (C11, checker half): bounded stand-in for the acceptance rule of a switch
(inside `infer_expr`, hir_ty/src/globals.rs -- out of the verifier's reach), through the real
front end.  BOUNDED."""
from tools.unitapi import Unit
from tools import bounded

UNIT = u = Unit('switch_sites', ['C11'], 'bounded: every sequence of at most 4/5 arms over the variants of an enum (and a non-variant), with and without a default arm')
u.expected = ['infer_expr']
u.trusted += ['BOUNDED stand-in (not a proof): scrutinee an enum of three variants and a distinct wrapper of it; every sequence of at most 4 (quick) / 5 (thorough) shorthand arms over {A, B, C, Z (no variant)}, with and without a default arm; oracle: accepted iff only variants, each at most once, and all of them or a default arm']


def runner(unit, prop, repo, scratch, tier):
    return bounded.run_driver(unit, prop, repo, scratch, tier, 'literal_range', ['switch', 'quick'], ['switch', 'thorough'], 'infer_expr',
                              'a switch is accepted iff it names only variants of the scrutinee type, each at most once, and either all of them or a default arm')


u.runner = runner

G = 'crates/hir_ty/src/globals.rs'
MUTANTS = [
    (G, '                                if arm_variant.included_in_switch {\n', '                                if false && arm_variant.included_in_switch {\n', 'violation'),
]
