"""Unit `defer_exec` (C03): bounded stand-in that runs generated programs through the compiler
built from the tree.  Every nest of up to 2 (quick) / 3 (thorough) constructs out of {plain
block, labelled block, while loop, if body}, with a defer before and a defer after the nested
construct at every level, and one jump at the innermost level (break to each enclosing label,
unlabelled break, continue, return, a failing `.try`, or none), is compiled and executed with
the jump taken and not taken; what it prints is compared with an interpreter of the property
statement (a reached defer runs exactly once when its block is left, last reached first, inner
blocks first, nothing else).  BOUNDED: decides changes the deductive unit `defers` cannot read
(text outside the Verus dialect, hir lowering, call sites)."""
import itertools
from tools.unitapi import Unit
from tools import execdriver

UNIT = u = Unit('defer_exec', ['C03'], 'bounded: generated defer / jump programs executed, output compared with an interpreter of the property')
u.expected = ['compile_expr_with_args']
u.trusted += ['BOUNDED stand-in (not a proof): nests of depth <= 2 (quick) / <= 3 (thorough) over {block, labelled block, while, if}, two defers per level (and, for each level, the variant in which that level registers none), one jump kind per program, jump taken / not taken; loops run two iterations; deferred expressions are prints; oracle: an interpreter written from the property statement; core.println and the host linker are trusted']

KINDS = ['B', 'L', 'W', 'I']


class Jump(Exception):
    def __init__(self, kind, label=None):
        self.kind, self.label = kind, label


def gen_nest(kinds, jump, fam, bare=frozenset()):
    """kinds: the constructs nested in the function body, outermost first -> tree for emit / interp
    nodes: ('p', tag) ('d', tag) ('blk', label|None, seq) ('while', label, var, seq) ('if', seq) ('jump', kind, label)"""
    def level(i):
        # level 0 is the function body, level i > 0 the body of construct kinds[i - 1]
        # a level in `bare` registers no defer of its own (its frame is still the place where
        # a jump to its label stops unwinding)
        body = [('p', 'a%d' % i)] + ([] if i in bare else [('d', 'd%da' % i)])
        if i < len(kinds):
            k = kinds[i]
            inner = level(i + 1)
            if k == 'B':
                body.append(('blk', None, inner))
            elif k == 'L':
                body.append(('blk', 'l%d' % (i + 1), inner))
            elif k == 'W':
                body.append(('while', 'l%d' % (i + 1), 'w%d' % (i + 1), inner))
            elif k == 'I':
                body.append(('if', inner))
        elif jump[0] != 'none':
            body.append(('if', [('jump',) + jump]))
        if i not in bare:
            body.append(('d', 'd%db' % i))
        body.append(('p', 'z%d' % i))
        return body
    return level(0)


def emit(seq, ind, fam, out):
    pad = '    ' * ind
    for n in seq:
        if n[0] == 'p':
            out.append('%score.println("%s");' % (pad, n[1]))
        elif n[0] == 'd':
            out.append('%sdefer core.println("%s");' % (pad, n[1]))
        elif n[0] == 'blk':
            out.append('%s%s{' % (pad, ('`%s: ' % n[1]) if n[1] else ''))
            emit(n[2], ind + 1, fam, out)
            out.append('%s}' % pad)
        elif n[0] == 'while':
            out.append('%s%s := 0;' % (pad, n[2]))
            out.append('%s`%s: while %s < 2 {' % (pad, n[1], n[2]))
            out.append('%s    %s = %s + 1;' % (pad, n[2], n[2]))
            emit(n[3], ind + 1, fam, out)
            out.append('%s}' % pad)
        elif n[0] == 'if':
            out.append('%sif c {' % pad)
            emit(n[1], ind + 1, fam, out)
            out.append('%s}' % pad)
        elif n[0] == 'jump':
            kind, label = n[1], n[2]
            if kind == 'break':
                out.append('%sbreak%s;' % (pad, (' `' + label) if label else ''))
            elif kind == 'continue':
                out.append('%scontinue%s;' % (pad, (' `' + label) if label else ''))
            elif kind == 'return':
                out.append('%sreturn%s;' % (pad, ' nil' if fam != 'void' else ''))
            elif kind == 'try':
                out.append('%sopt_of(c).try;' % pad)


def interp(seq, c, out, scopes):
    """the property, executable: `scopes` is the stack of enclosing (kind, label) for unlabelled jumps"""
    frame = []
    try:
        for n in seq:
            if n[0] == 'p':
                out.append(n[1])
            elif n[0] == 'd':
                frame.append(n[1])
            elif n[0] == 'blk':
                try:
                    interp(n[2], c, out, scopes + [('blk', n[1])])
                except Jump as j:
                    if not (j.kind == 'break' and n[1] is not None and j.label == n[1]):
                        raise
            elif n[0] == 'while':
                for _ in range(2):
                    try:
                        interp(n[3], c, out, scopes + [('loop', n[1])])
                    except Jump as j:
                        if j.kind == 'break' and j.label == n[1]:
                            break
                        if j.kind == 'continue' and j.label == n[1]:
                            continue
                        raise
            elif n[0] == 'if':
                if c:
                    interp(n[1], c, out, scopes + [('blk', None)])
            elif n[0] == 'jump':
                kind, label = n[1], n[2]
                if kind in ('return', 'try'):
                    raise Jump('return')
                if label is None:
                    # unlabelled: the innermost loop, or (break only) the innermost labelled block
                    for sk, sl in reversed(scopes):
                        if sk == 'loop' or (kind == 'break' and sk == 'blk' and sl is not None):
                            label = sl
                            break
                raise Jump(kind, label)
    finally:
        for t in reversed(frame):
            out.append(t)


def programs(depth, fams):
    """-> list of (fn_name, fam, tree)"""
    fns = []
    for d in range(0, depth + 1):
        for kinds in itertools.product(KINDS, repeat=d):
            labels = [('l%d' % (i + 1), k) for i, k in enumerate(kinds) if k in ('L', 'W')]
            has_loop = any(k == 'W' for k in kinds)
            has_target = bool(labels)
            jumps = [('none', None), ('return', None)]
            for lab, k in labels:
                jumps.append(('break', lab))
                if k == 'W':
                    jumps.append(('continue', lab))
            if has_target:
                jumps.append(('break', None))
            if has_loop:
                jumps.append(('continue', None))
            for fam in fams:
                js = jumps if fam == 'void' else [('try', None), ('return', None)]
                for j in js:
                    fns.append((kinds, j, fam, frozenset()))
                    if fam == 'void':
                        # the same nest with one construct that registers no defer of its own
                        for lvl in range(1, len(kinds) + 1):
                            fns.append((kinds, j, fam, frozenset([lvl])))
    return fns


def build_cases(depth, fams, per_file=120):
    fns = programs(depth, fams)
    cases = []
    for fi in range(0, len(fns), per_file):
        chunk = fns[fi:fi + per_file]
        src = ['core :: #mod("core");', '', 'opt_of :: (c: bool) -> ?u64 {', '    if c { return nil; }', '    5', '}', '']
        main = ['main :: () {']
        expected = []
        for k, (kinds, jump, fam, bare) in enumerate(chunk):
            name = 'fn_%d' % k
            tree = gen_nest(kinds, jump, fam, bare)
            ret = {'void': '', 'optvoid': ' -> ?void', 'u64': ' -> ?u64'}[fam]
            src.append('// nest %s jump %s family %s bare levels %s' % (''.join(kinds), jump, fam, sorted(bare)))
            src.append('%s :: (c: bool)%s {' % (name, ret))
            body = []
            emit(tree, 1, fam, body)
            src.extend(body)
            if fam == 'u64':
                src.append('    7')
            src.append('}')
            src.append('')
            for c in (True, False):
                head = '# %s nest=%s jump=%s%s family=%s bare=%s c=%s' % (name, ''.join(kinds), jump[0], ('`' + jump[1]) if jump[1] else '', fam, ''.join(str(x) for x in sorted(bare)) or '-', 'true' if c else 'false')
                main.append('    core.println("%s");' % head)
                main.append('    %s(%s);' % (name, 'true' if c else 'false'))
                expected.append(head)
                out = []
                try:
                    interp(tree, c, out, [])
                except Jump:
                    pass
                expected.extend(out)
        main.append('}')
        cases.append(('defers_%d' % (fi // per_file), '\n'.join(src + main) + '\n', expected))
    return cases


def runner(unit, prop, repo, scratch, tier):
    depth = 3 if tier == 'thorough' else 2
    cases = build_cases(depth, ['void', 'optvoid', 'u64'])
    return execdriver.run_cases(unit, prop, repo, scratch, tier, cases, 'compile_expr_with_args',
                                'every reached defer runs exactly once when control leaves its block -- by falling off the end, break, continue, return or a failing .try -- last reached first, inner blocks before outer ones, and no other defer runs',
                                'nests of depth <= %d over {block, labelled block, while (2 iterations), if}, 2 defers per level, one jump per program taken / not taken: %d programs' % (depth, sum(1 for _ in programs(depth, ['void', 'optvoid', 'u64']))))


u.runner = runner

F = 'crates/codegen/src/compiler/functions.rs'
MUTANTS = [
    # the seeded change C03b: the frames are put back without their defers
    (F, '            for defer in frame.defers.iter().rev() {\n                self.compile_expr(*defer);\n            }\n\n            used_frames.push(self.defer_stack.pop().unwrap());',
        '            for defer in frame.defers.iter().rev() {\n                self.compile_expr(*defer);\n            }\n\n            let mut popped = self.defer_stack.pop().unwrap(); popped.defers.clear(); used_frames.push(popped);', 'violation'),
]
