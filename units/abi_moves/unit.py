"""Unit `abi_moves` (C19 + C02): the loads and stores that move the eightbytes of an aggregate
between memory and registers (FnAbi::handle_ret, the Cast arms of get_arg_list and build_fn)."""
from tools.unitapi import Unit, Rewrite, sibling

layout = sibling('layout')
A = 'crates/codegen/src/convert/abi/mod.rs'

UNIT = u = Unit('abi_moves', ['C19', 'C02'], 'eightbyte moves: handle_ret, get_arg_list (Cast), build_fn (Cast parameter)')
layout.prelude(u)
u.shim('clif.rs')
u.shim('clif_cf.rs')
layout.api_stubs(u)
u.raw('''
pub use types::Type;
// tinyvec::ArrayVec<[Type; 4]> (Copy): a vector of at most 4 register types
#[derive(Clone, Copy)]
pub struct ArrayVec4 { pub a: [Type; 4], pub n: usize }
impl ArrayVec4 {
    pub open spec fn view(&self) -> Seq<Type> { self.a@.subrange(0, self.n as int) }
    pub open spec fn wf(&self) -> bool { self.n <= 4 }
    #[verifier::external_body]
    pub fn len(&self) -> (r: usize) requires self.wf() ensures r == self@.len() { unimplemented!() }
}
impl core::ops::Index<usize> for ArrayVec4 {
    type Output = Type;
    #[verifier::external_body]
    fn index(&self, index: usize) -> (r: &Type) ensures *r == self@[index as int] { unimplemented!() }
}
impl vstd::std_specs::core::IndexSpecImpl<usize> for ArrayVec4 {
    open spec fn index_req(&self, index: &usize) -> bool { self.wf() && *index < self@.len() }
}
#[derive(Clone, Copy)]
pub struct Inst { pub id: u32 }
/// the values a call instruction returns / the parameters of a block (uninterpreted: Cranelift
/// hands them out in signature order)
pub uninterp spec fn inst_result(call: Inst, k: int) -> Value;
pub uninterp spec fn block_param(b: Block, k: int) -> Value;
impl FunctionBuilder {
    #[verifier::external_body]
    pub fn inst_results(&self, call: Inst) -> (r: &[Value]) ensures forall|k: int| 0 <= k < r@.len() ==> #[trigger] r@[k] == inst_result(call, k), r@.len() >= 4 { unimplemented!() }
    #[verifier::external_body]
    pub fn block_params(&self, b: Block) -> (r: &[Value]) ensures forall|k: int| 0 <= k < r@.len() ==> #[trigger] r@[k] == block_param(b, k), r@.len() >= 0x20000 { unimplemented!() }
}
pub struct FunctionCompiler { pub builder: FunctionBuilder, pub ptr_ty: types::Type }
''')
ARRVEC = Rewrite('R4', r'ArrayVec<\[Type; 4\]>', 'ArrayVec4', count=None, why='tinyvec::ArrayVec<[Type; 4]> -> shim type (fixed capacity 4, Copy)')
u.extract(A, 'enum PassMode', keep_derives={'Clone', 'Copy'}, rewrites=[ARRVEC])
u.extract(A, 'struct FnAbi', keep_derives=set(), pub_fields=True)
u.spec('spec.rs')
u.trusted += [
    'Cranelift stack_store / load / stack_addr / create_sized_stack_slot footprints (shims/verus/clif.rs); inst_results / block_params hand out values in signature order (uninterpreted)',
    'Cranelift rounds a stack slot up to 8 bytes, so a register-wide store into a slot of `size` bytes stays inside rup(size, 8) bytes (the frame is stated up to that bound: e.g. a 3-byte struct is moved with a 4-byte register)',
    'the register types of a Cast are the ones split_aggregate produces (regs_shape; proved in unit abi)',
]
IMPLA = ('impl FnAbi {', '}')
UNREACH = Rewrite('R6', r'unreachable!\("indirect return without stack address"\)', 'proved_unreachable()', count=1, why='`unreachable!` -> a call whose precondition is `false`: PROVED unreachable')
FC = Rewrite('R4', r'func_cmplr: &mut FunctionCompiler', 'func_cmplr: &mut FunctionCompiler', count=None, why='(no change)')
u.raw('''
#[verifier::external_body]
pub fn proved_unreachable<T>() -> (r: T) requires false { unimplemented!() }
''')
RET_TAIL = Rewrite('R8', r'Some\(\s*func_cmplr\s*\.builder\s*\.ins\(\)\s*\.stack_addr\(func_cmplr\.ptr_ty, slot, 0\),\s*\)',
                   '{ let res_tail = Some(func_cmplr.builder.ins().stack_addr(func_cmplr.ptr_ty, slot, 0)); proof { assert(ret_stored(b0, func_cmplr.builder, slot.id as int, call, tys@, tsize(*orig.0) as int)); } res_tail }',
                   count=1, why='the tail expression is bound to a name so that the proof block can follow it')
u.extract(A, 'impl FnAbi::fn handle_ret', wrap=IMPLA, rewrites=[UNREACH, RET_TAIL], desugar_for={0: ('ri', 'enum_val')},
          contract='''
    requires
        // a register return was classified as such: at most two registers of the split_aggregate shape
        self.ret is Some && self.ret->0 is Cast ==> self.ret->0->Cast_tys.wf() && regs_shape(self.ret->0->Cast_tys@)
            && entry_ok(*self.ret->0->Cast_orig.0) && 1 <= tsize(*self.ret->0->Cast_orig.0) <= 16
            && (self.ret->0->Cast_tys@.len() == 2 <==> tsize(*self.ret->0->Cast_orig.0) > 8)
            && (forall|k: int| 0 <= k < self.ret->0->Cast_tys@.len() ==> den_bytes(#[trigger] inst_result(call, k).den@) == self.ret->0->Cast_tys@[k].bits_ / 8),
        !(self.ret is Some && self.ret->0 is Indirect && ret_slot is None),
    ensures
        ret_slot is Some ==> res == ret_slot && final(func_cmplr).builder == old(func_cmplr).builder,
        // returned in registers: a fresh slot of the aggregate's size; return register k is stored
        // at byte 8k of it, and nothing is stored anywhere else
        (ret_slot is None && self.ret is Some && self.ret->0 is Cast) ==> res is Some && res->0.den@ is Addr && ptr_off(res->0) == 0
            && exists|slot: int| #[trigger] ret_stored(old(func_cmplr).builder, final(func_cmplr).builder, slot, call, self.ret->0->Cast_tys@, tsize(*self.ret->0->Cast_orig.0) as int)
                && ptr_base(res->0) == Base::Slot(slot),
        (ret_slot is None && self.ret is Some && self.ret->0 is Direct) ==> res == Some(inst_result(call, 0)) && final(func_cmplr).builder == old(func_cmplr).builder,
        (ret_slot is None && self.ret is None) ==> res is None,
''',
          inserts=[('@after_stmt:let slot = func_cmplr.builder.create_sized_stack_slot', 'after', ' let ghost b0 = old(func_cmplr).builder; let ghost b1 = func_cmplr.builder; '),
                   ('@loop_start:0', 'after', ' proof { lemma_prefix_is_8k(tys@, ri as int); } '),
                   ],
          loops={0: '''
                    invariant
                        0 <= ri <= it_ri@.len(), it_ri == tys, tys.wf(), regs_shape(tys@),
                        self.ret == Some(PassMode::Cast { tys, orig }),
                        off as int == prefix_bytes(tys@, ri as int), off <= 16,
                        forall|k: int| 0 <= k < tys@.len() ==> den_bytes(#[trigger] inst_result(call, k).den@) == tys@[k].bits_ / 8,
                        func_cmplr.builder.slots == b1.slots, func_cmplr.ptr_ty == old(func_cmplr).ptr_ty,
                        func_cmplr.builder.log@.len() == b1.log@.len() + ri,
                        forall|i: int| 0 <= i < b1.log@.len() ==> #[trigger] func_cmplr.builder.log@[i] == b1.log@[i],
                        forall|k: int| 0 <= k < ri ==> #[trigger] func_cmplr.builder.log@[b1.log@.len() + k]
                            == (Ev::Write { base: Base::Slot(slot.id as int), lo: 8 * k, hi: 8 * k + tys@[k].bits_ as int / 8, val: inst_result(call, k).den@ }),
                    decreases it_ri@.len() - ri
'''})

# ---- get_arg_list: the Cast arm (R5: arm block lifted) --------------------------------------------
u.extract(A, 'impl FnAbi::fn get_arg_list', key='arg_regs', desugar_for={0: ('ti', 'ref')},
          lift=dict(anchor='PassMode::Cast { tys, .. } =>',
                    sig='fn arg_regs(func_cmplr: &mut FunctionCompiler, arg_list: &mut Vec<Value>, tys: &ArrayVec4, arg: Value)',
                    why='the `PassMode::Cast` arm of the loop of get_arg_list lifted into a function; assumed path condition: arg is the address of the aggregate'),
          contract='''
    requires tys.wf(), regs_shape(tys@), arg.den@ is Addr, -0x3fff_ffff <= ptr_off(arg) <= 0x3fff_ffff
    ensures
        // one value per register is appended, register k loaded from byte 8k of the aggregate
        final(arg_list)@.len() == old(arg_list)@.len() + tys@.len(),
        final(arg_list)@.subrange(0, old(arg_list)@.len() as int) == old(arg_list)@,
        regs_loaded(old(func_cmplr).builder, final(func_cmplr).builder, arg, tys@),
        forall|k: int| 0 <= k < tys@.len() ==> #[trigger] final(arg_list)@[old(arg_list)@.len() + k].den@
            == load_den(ptr_base(arg), ptr_off(arg) + 8 * k, tys@[k].bits_ as int, old(func_cmplr).builder.log@.len() + k),
''',
          inserts=[('@body_start', 'after', ' let ghost b0 = func_cmplr.builder; let ghost a0 = arg_list@; '),
                   ('@loop_start:0', 'after', ' proof { lemma_prefix_is_8k(tys@, ti as int); } ')],
          loops={0: '''
                        invariant
                            0 <= ti <= it_ti@.len(), *it_ti == *tys, tys.wf(), regs_shape(tys@), arg.den@ is Addr, -0x3fff_ffff <= ptr_off(arg) <= 0x3fff_ffff,
                            off as int == prefix_bytes(tys@, ti as int), off <= 16,
                            arg_list@.len() == a0.len() + ti, arg_list@.subrange(0, a0.len() as int) == a0,
                            func_cmplr.builder.slots == b0.slots, func_cmplr.builder.log@.len() == b0.log@.len() + ti,
                            forall|i: int| 0 <= i < b0.log@.len() ==> #[trigger] func_cmplr.builder.log@[i] == b0.log@[i],
                            forall|k: int| 0 <= k < ti ==> #[trigger] func_cmplr.builder.log@[b0.log@.len() + k]
                                == (Ev::Read { base: ptr_base(arg), lo: ptr_off(arg) + 8 * k, hi: ptr_off(arg) + 8 * k + tys@[k].bits_ as int / 8 }),
                            forall|k: int| 0 <= k < ti ==> #[trigger] arg_list@[a0.len() + k].den@
                                == load_den(ptr_base(arg), ptr_off(arg) + 8 * k, tys@[k].bits_ as int, b0.log@.len() + k),
                        decreases it_ti@.len() - ti
'''})

# ---- build_fn: a parameter that arrives in registers (R5: arm block lifted) ------------------------
IDXP = Rewrite('R5', r'\bidx_off \+= 1;', '*idx_off += 1;', count=None, why='the captured mutable local `idx_off` is a `&mut` parameter of the lifted function')
IDXM = Rewrite('R5', r'\bidx_off -= 1;', '*idx_off -= 1;', count=None, why='the captured mutable local `idx_off` is a `&mut` parameter of the lifted function')
PTAIL = Rewrite('R8', r'\(\s*func_cmplr\s*\.builder\s*\.ins\(\)\s*\.stack_addr\(func_cmplr\.ptr_ty, stack_slot, 0\),\s*func_cmplr\.ptr_ty,\s*\)',
                '{ let res_tail = (func_cmplr.builder.ins().stack_addr(func_cmplr.ptr_ty, stack_slot, 0), func_cmplr.ptr_ty); proof { assert(params_stored(b0, func_cmplr.builder, stack_slot.id as int, entry_block, param as int, tys@, tsize(*orig.0) as int)); } res_tail }',
                count=1, why='the tail expression is bound to a name so that the proof block can follow it')
u.extract(A, 'impl FnAbi::fn build_fn', key='param_regs', rewrites=[IDXP, IDXM, PTAIL], desugar_for={0: ('ri', 'enum_val')},
          lift=dict(anchor='PassMode::Cast { tys, orig, .. } =>',
                    sig='''fn param_regs(func_cmplr: &mut FunctionCompiler, tys: &ArrayVec4, orig: &Intern<Ty>, entry_block: Block,
                           param: u16, idx_off: &mut u16) -> (res: (Value, Type))''',
                    why='the `PassMode::Cast` arm of the parameter loop of build_fn lifted into a function; the captured locals entry_block, param, idx_off become parameters'),
          contract='''
    requires
        tys.wf(), regs_shape(tys@), entry_ok(*orig.0), 1 <= tsize(*orig.0) <= 16, *old(idx_off) < 0xff00,
        forall|k: int| 0 <= k < tys@.len() ==> den_bytes(#[trigger] block_param(entry_block, param + k).den@) == tys@[k].bits_ / 8,
    ensures
        // a fresh slot of the aggregate's size; incoming register `param + k` is stored at byte 8k
        res.0.den@ is Addr && ptr_off(res.0) == 0,
        exists|slot: int| #[trigger] params_stored(old(func_cmplr).builder, final(func_cmplr).builder, slot, entry_block, param as int, tys@, tsize(*orig.0) as int)
            && ptr_base(res.0) == Base::Slot(slot),
        // the registers of this parameter shift the index of the following ones by (count - 1)
        *final(idx_off) == *old(idx_off) + tys@.len() - 1,
''',
          inserts=[('@after_stmt:let stack_slot = func_cmplr.builder.create_sized_stack_slot', 'after', ' let ghost b0 = old(func_cmplr).builder; let ghost b1 = func_cmplr.builder; let ghost i0 = *idx_off; '),
                   ('@loop_start:0', 'after', ' proof { lemma_prefix_is_8k(tys@, ri as int); } ')],
          loops={0: '''
                        invariant
                            0 <= ri <= it_ri@.len(), *it_ri == *tys, tys.wf(), regs_shape(tys@), i0 < 0xff00,
                            off as int == prefix_bytes(tys@, ri as int), off <= 16, *idx_off == i0 + ri,
                            forall|k: int| 0 <= k < tys@.len() ==> den_bytes(#[trigger] block_param(entry_block, param + k).den@) == tys@[k].bits_ / 8,
                            func_cmplr.builder.slots == b1.slots, func_cmplr.ptr_ty == old(func_cmplr).ptr_ty,
                            func_cmplr.builder.log@.len() == b1.log@.len() + ri,
                            forall|i: int| 0 <= i < b1.log@.len() ==> #[trigger] func_cmplr.builder.log@[i] == b1.log@[i],
                            forall|k: int| 0 <= k < ri ==> #[trigger] func_cmplr.builder.log@[b1.log@.len() + k]
                                == (Ev::Write { base: Base::Slot(stack_slot.id as int), lo: 8 * k, hi: 8 * k + den_bytes(block_param(entry_block, param + k).den@), val: block_param(entry_block, param + k).den@ }),
                        decreases it_ri@.len() - ri
'''})

# ---- to_cl: the Cranelift signature -------------------------------------------------------------
u.raw('''
pub struct CallConv { pub _p: u8 }
pub assume_specification[u32::next_multiple_of](x: u32, m: u32) -> (r: u32)
    requires m > 0, x <= 0xffff_0000, m <= 0x1000
    ensures r >= x, r < x + m, r % m == 0;
pub struct SigParam { pub v: Ghost<ParamV> }
#[derive(Clone, Copy)]
pub enum ArgumentPurpose { Normal, StructReturn, StructArgument(u32) }
pub open spec fn purpose_view(p: ArgumentPurpose) -> Purpose {
    match p { ArgumentPurpose::Normal => Purpose::Normal, ArgumentPurpose::StructReturn => Purpose::StructReturn, ArgumentPurpose::StructArgument(n) => Purpose::StructArgument(n) }
}
impl SigParam {
    #[verifier::external_body]
    pub fn special(ty: Type, purpose: ArgumentPurpose) -> (r: SigParam) ensures r.v@ == (ParamV { ty, purpose: purpose_view(purpose) }) { unimplemented!() }
    #[verifier::external_body]
    pub fn new(ty: Type) -> (r: SigParam) ensures r.v@ == (ParamV { ty, purpose: Purpose::Normal }) { unimplemented!() }
}
// `tys.into_iter().map(AbiParam::new).collect()` (ASSUMED): one plain parameter per register type
#[verifier::external_body]
pub fn params_of_regs(tys: ArrayVec4) -> (r: Vec<SigParam>)
    ensures pview(r@) == Seq::new(tys@.len(), |i: int| ParamV { ty: tys@[i], purpose: Purpose::Normal })
{ unimplemented!() }
pub open spec fn pview(s: Seq<SigParam>) -> Seq<ParamV> { Seq::new(s.len(), |i: int| s[i].v@) }
pub struct Signature { pub params: Vec<SigParam>, pub returns: Vec<SigParam> }
impl Signature {
    #[verifier::external_body]
    pub fn new(conv: CallConv) -> (r: Signature) ensures r.params@.len() == 0, r.returns@.len() == 0 { unimplemented!() }
}
impl PassMode {
    pub fn is_indirect(&self) -> (r: bool) ensures r == (*self is Indirect) { matches!(self, PassMode::Indirect(_)) }
}
// `v.append(&mut w)` (ASSUMED std behaviour)
#[verifier::external_body]
pub fn vec_append(v: &mut Vec<SigParam>, w: Vec<SigParam>) ensures pview(final(v)@) == pview(old(v)@) + pview(w@) { unimplemented!() }
''')
MAPNEW = Rewrite('R7', r'tys\.into_iter\(\)\.map\(AbiParam::new\)\.collect\(\)', 'params_of_regs(tys)', count=1, why='`tys.into_iter().map(AbiParam::new).collect()` -> shim with that meaning')
SIGP_ALL = Rewrite('R4', r'\bAbiParam\b', 'SigParam', count=None, why='cranelift AbiParam -> shim type carrying the argument purpose')
u.extract(A, 'impl PassMode::fn to_abiparam', wrap=('impl PassMode {', '}'), rewrites=[MAPNEW, SIGP_ALL], contract='''
    ensures
        // one plain parameter per register; a scalar as itself; a MEMORY-class struct as a by-value
        // stack argument of EXACTLY its (eightbyte-rounded) size -- Cranelift advances the stack
        // cursor by that size, so it fixes where every later stack argument sits
        pview(res@) == abiparams_of(self, ptr_ty),
''')
APP1 = Rewrite('R7', r'sig\.returns\.append\(&mut ret\.to_abiparam\(ptr_ty\)\);', 'vec_append(&mut sig.returns, ret.to_abiparam(ptr_ty));', count=1, why='`v.append(&mut w)` -> shim with that meaning')
APP2 = Rewrite('R7', r'sig\.params\.append\(&mut arg\.to_abiparam\(ptr_ty\)\);', 'vec_append(&mut sig.params, arg.to_abiparam(ptr_ty));', count=1, why='`v.append(&mut w)` -> shim with that meaning')
SIGP = Rewrite('R4', r'\bAbiParam::special\(', 'SigParam::special(', count=1, why='cranelift AbiParam -> shim type carrying the argument purpose')
u.extract(A, 'impl FnAbi::fn to_cl', wrap=IMPLA, rewrites=[APP1, APP2, SIGP], desugar_for={0: ('ai', 'ref')},
          contract='''
    ensures
        // a MEMORY-class return value: the hidden pointer is the FIRST parameter (%rdi), nothing is
        // returned in registers; otherwise the return registers in order
        (self.ret is Some && self.ret->0 is Indirect) ==> pview(res.returns@).len() == 0
            && pview(res.params@) == seq![ParamV { ty: ptr_ty, purpose: if self.simple_ret { Purpose::Normal } else { Purpose::StructReturn } }]
                + args_params(self.args@, self.args@.len() as int, ptr_ty),
        (self.ret is Some && !(self.ret->0 is Indirect)) ==> pview(res.returns@) == abiparams_of(self.ret->0, ptr_ty)
            && pview(res.params@) == args_params(self.args@, self.args@.len() as int, ptr_ty),
        self.ret is None ==> pview(res.returns@).len() == 0 && pview(res.params@) == args_params(self.args@, self.args@.len() as int, ptr_ty),
''',
          inserts=[('@after_stmt:let mut sig = Signature::new(conv)', 'after', ' proof { assert(pview(sig.params@) =~= Seq::<ParamV>::empty()); assert(pview(sig.returns@) =~= Seq::<ParamV>::empty()); } '),
                   ('{ let it_ai = &self.args;', 'before', ' let ghost p0 = pview(sig.params@); let ghost sret = sig.returns@; proof { assert(p0 + args_params(self.args@, 0, ptr_ty) =~= p0); } ')],
          loops={0: '''
            invariant
                0 <= ai <= it_ai@.len(), it_ai@ == self.args@, sig.returns@ == sret,
                pview(sig.params@) == p0 + args_params(self.args@, ai as int, ptr_ty),
            decreases it_ai@.len() - ai
'''})

u.expected += ['lemma_prefix_is_8k']
u.fn_props = {}

MUTANTS = [
    (A, 'ArgumentPurpose::StructArgument(sz as u32),', 'ArgumentPurpose::StructArgument((sz as u32).next_multiple_of(16)),', 'violation'),
    (A, '''                    func_cmplr.builder.ins().stack_store(val, slot, off as i32);
                    off += ty.bytes();''', '''                    func_cmplr.builder.ins().stack_store(val, slot, off as i32);
                    off += 4;''', 'violation'),
    (A, '.load(ty, MemFlags::trusted(), arg, off as i32);', '.load(ty, MemFlags::trusted(), arg, 0);', 'violation'),
    (A, 'func_cmplr.builder.block_params(entry_block)[idx + param as usize];', 'func_cmplr.builder.block_params(entry_block)[param as usize];', 'violation'),
    (A, '                    idx_off -= 1;\n', '', 'violation'),
    (A, '''                    ArgumentPurpose::StructReturn
                };''', '''                    ArgumentPurpose::Normal
                };''', 'violation'),
    (A, '''                sig.params.push(AbiParam::special(ptr_ty, purpose))
            } else {
                sig.returns.append(&mut ret.to_abiparam(ptr_ty));''', '''                sig.returns.push(AbiParam::special(ptr_ty, purpose))
            } else {
                sig.returns.append(&mut ret.to_abiparam(ptr_ty));''', 'violation'),
    (A, '// TODO: actually use the correct calling convention here', '// TODO: use the correct calling convention here', 'ok'),
]
