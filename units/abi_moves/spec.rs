// Specification for the moves of C19 (and the argument / return slots of C02): "transfers every
// value exactly as the host C calling convention requires" -- eightbyte k of an aggregate that
// travels in registers is register k, and register k is loaded from / stored to the bytes that
// follow the bytes of registers 0..k-1.  Ghost code only.

/// bytes taken by the first k registers
pub open spec fn prefix_bytes(tys: Seq<Type>, k: int) -> int decreases k {
    if k <= 0 { 0 } else { prefix_bytes(tys, k - 1) + tys[k - 1].bits_ as int / 8 }
}
/// register types as split_aggregate produces them (unit abi): one or two registers, the first
/// one 8 bytes wide when there are two, none wider than 8 bytes
pub open spec fn regs_shape(tys: Seq<Type>) -> bool {
    &&& 1 <= tys.len() <= 2
    &&& forall|k: int| 0 <= k < tys.len() ==> 1 <= (#[trigger] tys[k]).bits_ / 8 <= 8 && tys[k].bits_ % 8 == 0
    &&& tys.len() == 2 ==> tys[0].bits_ == 64
}
/// ... so register k covers the bytes from 8k on
pub proof fn lemma_prefix_is_8k(tys: Seq<Type>, k: int)
    requires regs_shape(tys), 0 <= k < tys.len()
    ensures prefix_bytes(tys, k) == 8 * k, prefix_bytes(tys, k) + tys[k].bits_ / 8 <= 16
{
    reveal_with_fuel(prefix_bytes, 3);
}
/// handle_ret (Cast): a fresh slot `slot` of `size` bytes; the events added are the slot, one
/// store per return register at byte 8k with that register's value, and the address of the slot
pub open spec fn ret_stored(b0: FunctionBuilder, b1: FunctionBuilder, slot: int, call: Inst, tys: Seq<Type>, size: int) -> bool {
    &&& !b0.slots@.dom().contains(slot) && b1.slots@ == b0.slots@.insert(slot, size)
    &&& b1.log@.len() == b0.log@.len() + 1 + tys.len() + 1
    &&& forall|i: int| 0 <= i < b0.log@.len() ==> #[trigger] b1.log@[i] == b0.log@[i]
    &&& b1.log@[b0.log@.len() as int] == (Ev::NewSlot { slot: slot, size: size })
    &&& forall|k: int| 0 <= k < tys.len() ==> #[trigger] b1.log@[b0.log@.len() + 1 + k]
            == (Ev::Write { base: Base::Slot(slot), lo: 8 * k, hi: 8 * k + tys[k].bits_ as int / 8, val: inst_result(call, k).den@ })
    &&& b1.log@[b1.log@.len() - 1] is Pure
}
/// get_arg_list (Cast): one load per register, register k from byte 8k of the argument value
pub open spec fn regs_loaded(b0: FunctionBuilder, b1: FunctionBuilder, arg: Value, tys: Seq<Type>) -> bool {
    &&& b1.log@.len() == b0.log@.len() + tys.len() && b1.slots == b0.slots
    &&& forall|i: int| 0 <= i < b0.log@.len() ==> #[trigger] b1.log@[i] == b0.log@[i]
    &&& forall|k: int| 0 <= k < tys.len() ==> #[trigger] b1.log@[b0.log@.len() + k]
            == (Ev::Read { base: ptr_base(arg), lo: ptr_off(arg) + 8 * k, hi: ptr_off(arg) + 8 * k + tys[k].bits_ as int / 8 })
}
/// build_fn (Cast parameter): a fresh slot of `size` bytes; incoming register `param + k` is
/// stored at byte 8k of it
pub open spec fn params_stored(b0: FunctionBuilder, b1: FunctionBuilder, slot: int, entry: Block, param: int, tys: Seq<Type>, size: int) -> bool {
    &&& !b0.slots@.dom().contains(slot) && b1.slots@ == b0.slots@.insert(slot, size)
    &&& b1.log@.len() == b0.log@.len() + 1 + tys.len() + 1
    &&& forall|i: int| 0 <= i < b0.log@.len() ==> #[trigger] b1.log@[i] == b0.log@[i]
    &&& b1.log@[b0.log@.len() as int] == (Ev::NewSlot { slot: slot, size: size })
    &&& forall|k: int| 0 <= k < tys.len() ==> #[trigger] b1.log@[b0.log@.len() + 1 + k]
            == (Ev::Write { base: Base::Slot(slot), lo: 8 * k, hi: 8 * k + den_bytes(block_param(entry, param + k).den@), val: block_param(entry, param + k).den@ })
    &&& b1.log@[b1.log@.len() - 1] is Pure
}

// ---- the Cranelift signature (to_cl) ---------------------------------------------------------
pub ghost enum Purpose { Normal, StructReturn, StructArgument(u32) }
pub ghost struct ParamV { pub ty: Type, pub purpose: Purpose }
/// the signature parameters one PassMode stands for (to_abiparam: ASSUMED, it is an iterator chain)
pub open spec fn abiparams_of(p: PassMode, ptr_ty: Type) -> Seq<ParamV> {
    match p {
        PassMode::Cast { tys, orig } => Seq::new(tys@.len(), |i: int| ParamV { ty: tys@[i], purpose: Purpose::Normal }),
        PassMode::Direct(t) => seq![ParamV { ty: t, purpose: Purpose::Normal }],
        PassMode::Indirect(Some(sz)) => seq![ParamV { ty: ptr_ty, purpose: Purpose::StructArgument(sz as u32) }],
        PassMode::Indirect(None) => seq![ParamV { ty: ptr_ty, purpose: Purpose::Normal }],
    }
}
/// all arguments, left to right
pub open spec fn args_params(args: Seq<(PassMode, u16)>, n: int, ptr_ty: Type) -> Seq<ParamV> decreases n {
    if n <= 0 { Seq::empty() } else { args_params(args, n - 1, ptr_ty) + abiparams_of(args[n - 1].0, ptr_ty) }
}
