"""Unit `render_sites` (C25, rendering clause): bounded stand-in for the `file:line:col` header
printed by the diagnostics crate (format! over iterator chains: out of the verifier's reach),
through the real `diagnostics::Diagnostic::display`.  BOUNDED."""
from tools.unitapi import Unit
from tools import bounded

UNIT = u = Unit('render_sites', ['C25'], 'bounded: rendered header of a diagnostic at every offset of every short text')
u.expected = ['input_snippet']
u.trusted += ['BOUNDED stand-in (not a proof): every text of at most 5 (quick) / 7 (thorough) symbols over {a, newline, tab, space} and every offset that is not a line break; a synthetic syntax error at that offset is rendered by diagnostics::Diagnostic::display; oracle: header ends with `:<newlines before + 1>:<bytes since line start + 1>`']


def runner(unit, prop, repo, scratch, tier):
    return bounded.run_driver(unit, prop, repo, scratch, tier, 'literal_range', ['render', 'quick'], ['render', 'thorough'], 'input_snippet',
                              'the header of a rendered diagnostic names line = newlines before the offset + 1 and column = bytes since the start of the line + 1')


u.runner = runner

D = 'crates/diagnostics/src/lib.rs'
MUTANTS = [
    (D, '        start_line.0 + 1,\n        start_col.0 + 1,\n    ));', '        start_line.0 + 1,\n        start_col.0,\n    ));', 'violation'),
]
