// Specification for C19, written from the System V AMD64 psABI, section 3.2.3 "Parameter
// Passing" (the text the repository's own comments quote).  Ghost code only.

/// "(a) If both classes are equal, this is the resulting class. (b) If one of the classes is
/// NO_CLASS, the resulting class is the other class. (c) [MEMORY -- not represented] (d) If one
/// of the classes is INTEGER, the result is the INTEGER. (e) [X87 -- not represented]
/// (f) Otherwise class SSE is used."
pub open spec fn psabi_merge(a: Class, b: Class) -> Class {
    if a == b { a }
    else if a == Class::NoClass { b }
    else if b == Class::NoClass { a }
    else if a == Class::Int || b == Class::Int { Class::Int }
    else { Class::Sse }
}
/// the order in which the fields of an eightbyte are merged does not matter
pub proof fn lemma_merge_laws(a: Class, b: Class, c: Class)
    ensures
        psabi_merge(a, b) == psabi_merge(b, a),
        psabi_merge(psabi_merge(a, b), c) == psabi_merge(a, psabi_merge(b, c)),
        psabi_merge(a, a) == a,
        psabi_merge(a, Class::NoClass) == a,
{
}
/// classes that scalar fields can have; merging never leaves this set
pub open spec fn scalar_class(c: Class) -> bool { c == Class::Int || c == Class::Sse || c == Class::NoClass }
pub proof fn lemma_merge_closed(a: Class, b: Class)
    requires scalar_class(a), scalar_class(b)
    ensures scalar_class(psabi_merge(a, b))
{
}

/// the register that carries `k` remaining bytes (1..=8 of them used) of an eightbyte of
/// class `c`: "INTEGER: the next available register of %rdi.. is used; SSE: the next available
/// vector register is used" -- as a Cranelift value type wide enough for those bytes
pub open spec fn eightbyte_reg(c: Class, k: int) -> Type {
    if c == Class::Int {
        if k >= 8 { types::I64 } else if k > 4 { types::I64 } else if k > 2 { types::I32 } else if k > 1 { types::I16 } else { types::I8 }
    } else {
        if k == 4 { types::F32 } else { types::F64 }
    }
}
/// how an aggregate of `size` bytes (1..=16) whose eightbytes have classes c0, c1 travels
pub open spec fn psabi_regs(c0: Class, c1: Class, size: int) -> Seq<Type> {
    if size <= 8 { seq![eightbyte_reg(c0, size)] }
    else { seq![eightbyte_reg(c0, 8), eightbyte_reg(c1, size - 8)] }
}

/// "(d) If SSEUP is not preceded by SSE or SSEUP, it is converted to SSE." (eightbytes below n)
pub open spec fn cleaned(c: Seq<Class>, n: int, k: int) -> Class {
    if k < n && c[k] == Class::SseUp && (k == 0 || !(c[k - 1] == Class::Sse || c[k - 1] == Class::SseUp)) { Class::Sse } else { c[k] }
}

// ---- how one value travels -------------------------------------------------------------------
pub ghost enum PMV {
    /// in registers, one per eightbyte
    Cast { tys: Seq<Type>, orig: Ty },
    /// a scalar, in the register (or stack slot) of its own type
    Direct(Type),
    /// in memory (class MEMORY): on the stack by value / through a hidden pointer
    Indirect(Option<usize>),
}
pub open spec fn pm_view(p: PassMode) -> PMV {
    match p {
        PassMode::Cast { tys, orig } => PMV::Cast { tys: tys@, orig: *orig.0 },
        PassMode::Direct(t) => PMV::Direct(t),
        PassMode::Indirect(s) => PMV::Indirect(s),
    }
}
