// Specification for C19, written from the System V AMD64 psABI, section 3.2.3 "Parameter
// Passing" (the text the repository's own comments quote).  Ghost code only.

/// "(a) If both classes are equal, this is the resulting class. (b) If one of the classes is
/// NO_CLASS, the resulting class is the other class. (c) [MEMORY -- not represented] (d) If one
/// of the classes is INTEGER, the result is the INTEGER. (e) [X87 -- not represented]
/// (f) Otherwise class SSE is used."
pub open spec fn psabi_merge(a: Class, b: Class) -> Class {
    if a == b { a }
    else if a == Class::NoClass { b }
    else if b == Class::NoClass { a }
    else if a == Class::Int || b == Class::Int { Class::Int }
    else { Class::Sse }
}
/// the order in which the fields of an eightbyte are merged does not matter
pub proof fn lemma_merge_laws(a: Class, b: Class, c: Class)
    ensures
        psabi_merge(a, b) == psabi_merge(b, a),
        psabi_merge(psabi_merge(a, b), c) == psabi_merge(a, psabi_merge(b, c)),
        psabi_merge(a, a) == a,
        psabi_merge(a, Class::NoClass) == a,
{
}
/// classes that scalar fields can have; merging never leaves this set
pub open spec fn scalar_class(c: Class) -> bool { c == Class::Int || c == Class::Sse || c == Class::NoClass }
pub proof fn lemma_merge_closed(a: Class, b: Class)
    requires scalar_class(a), scalar_class(b)
    ensures scalar_class(psabi_merge(a, b))
{
}

/// the register that carries `k` remaining bytes (1..=8 of them used) of an eightbyte of
/// class `c`: "INTEGER: the next available register of %rdi.. is used; SSE: the next available
/// vector register is used" -- as a Cranelift value type wide enough for those bytes
pub open spec fn eightbyte_reg(c: Class, k: int) -> Type {
    if c == Class::Int {
        if k >= 8 { types::I64 } else if k > 4 { types::I64 } else if k > 2 { types::I32 } else if k > 1 { types::I16 } else { types::I8 }
    } else {
        if k == 4 { types::F32 } else { types::F64 }
    }
}
/// how an aggregate of `size` bytes (1..=16) whose eightbytes have classes c0, c1 travels
pub open spec fn psabi_regs(c0: Class, c1: Class, size: int) -> Seq<Type> {
    if size <= 8 { seq![eightbyte_reg(c0, size)] }
    else { seq![eightbyte_reg(c0, 8), eightbyte_reg(c1, size - 8)] }
}

/// "(d) If SSEUP is not preceded by SSE or SSEUP, it is converted to SSE." (eightbytes below n)
pub open spec fn cleaned(c: Seq<Class>, n: int, k: int) -> Class {
    if k < n && c[k] == Class::SseUp && (k == 0 || !(c[k - 1] == Class::Sse || c[k - 1] == Class::SseUp)) { Class::Sse } else { c[k] }
}

// ---- how one value travels -------------------------------------------------------------------
pub ghost enum PMV {
    /// in registers, one per eightbyte
    Cast { tys: Seq<Type>, orig: Ty },
    /// a scalar, in the register (or stack slot) of its own type
    Direct(Type),
    /// in memory (class MEMORY): on the stack by value / through a hidden pointer
    Indirect(Option<usize>),
}
pub open spec fn pm_view(p: PassMode) -> PMV {
    match p {
        PassMode::Cast { tys, orig } => PMV::Cast { tys: tys@, orig: *orig.0 },
        PassMode::Direct(t) => PMV::Direct(t),
        PassMode::Indirect(s) => PMV::Indirect(s),
    }
}
/// what fn_ty_to_abi relies on about a classification (established by classify_arg)
pub open spec fn classes_ok(ty: Ty, cls: Seq<Class>) -> bool {
    &&& cls.len() == 8
    &&& forall|k: int| 0 <= k < 8 ==> scalar_class(#[trigger] cls[k])
    &&& ty_is_aggregate(ty) ==> 1 <= tsize(ty) <= 16 && cls[0] != Class::NoClass && (tsize(ty) > 8 ==> cls[1] != Class::NoClass)
}
pub open spec fn has_machine_type(ty: Ty) -> bool { tfinal(ty) is Number || tfinal(ty) is Pointer }
pub open spec fn machine_type(ty: Ty) -> Type {
    match tfinal(ty) { FinalTy::Number(nt) => nt.ty, FinalTy::Pointer(t) => t, _ => types::I64 }
}
/// a value that got its registers: an aggregate one register per eightbyte, a scalar as itself
pub open spec fn in_registers(ty: Ty, cls: Seq<Class>) -> PMV {
    if ty_is_aggregate(ty) { PMV::Cast { tys: psabi_regs(cls[0], cls[1], tsize(ty) as int), orig: ty } }
    else { PMV::Direct(machine_type(ty)) }
}

// ---- register assignment: psABI 3.2.3 "Passing" ----------------------------------------------
/// registers still free: "%rdi, %rsi, %rdx, %rcx, %r8 and %r9" / "%xmm0 to %xmm7"
pub ghost struct Regs { pub ints: int, pub sses: int }
pub open spec fn count_class(cls: Seq<Class>, c: Class, upto: int) -> int decreases upto {
    if upto <= 0 { 0 } else { count_class(cls, c, upto - 1) + (if cls[upto - 1] == c { 1int } else { 0int }) }
}
/// bytes an argument of class MEMORY occupies on the stack ("rounded up to eightbytes")
pub open spec fn stack_size(ty: Ty) -> nat { rup(stride_of(ty), 8) }
/// one argument, given the registers still free: how it travels and what is left.
/// "If there are no registers available for any eightbyte of an argument, the whole argument
/// is passed on the stack. If registers have already been assigned for some eightbytes of such
/// an argument, the assignments get reverted."
pub open spec fn pass_arg(ty: Ty, r: Regs) -> (Option<PMV>, Regs) {
    if ty_zero_sized(ty) { (None, r) }
    else {
        match classify_spec(ty) {
            Some(cls) => {
                let ni = count_class(cls, Class::Int, 8);
                let ns = count_class(cls, Class::Sse, 8);
                if ni <= r.ints && ns <= r.sses { (Some(in_registers(ty, cls)), Regs { ints: r.ints - ni, sses: r.sses - ns }) }
                else if ty_is_aggregate(ty) { (Some(PMV::Indirect(Some(stack_size(ty) as usize))), r) }
                else { (Some(PMV::Direct(machine_type(ty))), r) }
            },
            // class MEMORY
            None => (Some(PMV::Indirect(Some(stack_size(ty) as usize))), r),
        }
    }
}
pub open spec fn pass_args(args: Seq<ParamTy>, k: int, r0: Regs) -> (Seq<(PMV, u16)>, Regs) decreases k {
    if k <= 0 { (Seq::empty(), r0) } else {
        let prev = pass_args(args, k - 1, r0);
        let one = pass_arg(*args[k - 1].ty.0, prev.1);
        (if one.0 is Some { prev.0.push((one.0->0, (k - 1) as u16)) } else { prev.0 }, one.1)
    }
}
/// the return value: "If the type has class MEMORY, then the caller provides space for the
/// return value and passes the address of this storage in %rdi as if it were the first
/// argument" -- which costs one integer register
pub open spec fn pass_ret(ty: Ty) -> (Option<PMV>, Regs) {
    if ty_zero_sized(ty) { (None, Regs { ints: 6, sses: 8 }) }
    else {
        match classify_spec(ty) {
            Some(cls) => (Some(in_registers(ty, cls)), Regs { ints: 6, sses: 8 }),
            None => (Some(PMV::Indirect(Some(tsize(ty) as usize))), Regs { ints: 5, sses: 8 }),
        }
    }
}
pub open spec fn args_match(v: Seq<(PassMode, u16)>, p: Seq<(PMV, u16)>) -> bool {
    v.len() == p.len() && forall|j: int| 0 <= j < v.len() ==> pm_view(#[trigger] v[j].0) == p[j].0 && v[j].1 == p[j].1
}
pub open spec fn ret_view(r: Option<PassMode>) -> Option<PMV> { match r { Some(m) => Some(pm_view(m)), None => None } }
