// Specification for C19, written from the System V AMD64 psABI, section 3.2.3 "Parameter
// Passing" (the text the repository's own comments quote).  Ghost code only.

/// "(a) If both classes are equal, this is the resulting class. (b) If one of the classes is
/// NO_CLASS, the resulting class is the other class. (c) [MEMORY -- not represented] (d) If one
/// of the classes is INTEGER, the result is the INTEGER. (e) [X87 -- not represented]
/// (f) Otherwise class SSE is used."
pub open spec fn psabi_merge(a: Class, b: Class) -> Class {
    if a == b { a }
    else if a == Class::NoClass { b }
    else if b == Class::NoClass { a }
    else if a == Class::Int || b == Class::Int { Class::Int }
    else { Class::Sse }
}
/// the order in which the fields of an eightbyte are merged does not matter
pub proof fn lemma_merge_laws(a: Class, b: Class, c: Class)
    ensures
        psabi_merge(a, b) == psabi_merge(b, a),
        psabi_merge(psabi_merge(a, b), c) == psabi_merge(a, psabi_merge(b, c)),
        psabi_merge(a, a) == a,
        psabi_merge(a, Class::NoClass) == a,
{
}
/// classes that scalar fields can have; merging never leaves this set
pub open spec fn scalar_class(c: Class) -> bool { c == Class::Int || c == Class::Sse || c == Class::NoClass }
pub proof fn lemma_merge_closed(a: Class, b: Class)
    requires scalar_class(a), scalar_class(b)
    ensures scalar_class(psabi_merge(a, b))
{
}

/// the register that carries `k` remaining bytes (1..=8 of them used) of an eightbyte of
/// class `c`: "INTEGER: the next available register of %rdi.. is used; SSE: the next available
/// vector register is used" -- as a Cranelift value type wide enough for those bytes
pub open spec fn eightbyte_reg(c: Class, k: int) -> Type {
    if c == Class::Int {
        if k >= 8 { types::I64 } else if k > 4 { types::I64 } else if k > 2 { types::I32 } else if k > 1 { types::I16 } else { types::I8 }
    } else {
        if k == 4 { types::F32 } else { types::F64 }
    }
}
/// how an aggregate of `size` bytes (1..=16) whose eightbytes have classes c0, c1 travels
pub open spec fn psabi_regs(c0: Class, c1: Class, size: int) -> Seq<Type> {
    if size <= 8 { seq![eightbyte_reg(c0, size)] }
    else { seq![eightbyte_reg(c0, 8), eightbyte_reg(c1, size - 8)] }
}

/// "(d) If SSEUP is not preceded by SSE or SSEUP, it is converted to SSE." (eightbytes below n)
pub open spec fn cleaned(c: Seq<Class>, n: int, k: int) -> Class {
    if k < n && c[k] == Class::SseUp && (k == 0 || !(c[k - 1] == Class::Sse || c[k - 1] == Class::SseUp)) { Class::Sse } else { c[k] }
}

// ---- how one value travels -------------------------------------------------------------------
pub ghost enum PMV {
    /// in registers, one per eightbyte
    Cast { tys: Seq<Type>, orig: Ty },
    /// a scalar, in the register (or stack slot) of its own type
    Direct(Type),
    /// in memory (class MEMORY): on the stack by value / through a hidden pointer
    Indirect(Option<usize>),
}
pub open spec fn pm_view(p: PassMode) -> PMV {
    match p {
        PassMode::Cast { tys, orig } => PMV::Cast { tys: tys@, orig: *orig.0 },
        PassMode::Direct(t) => PMV::Direct(t),
        PassMode::Indirect(s) => PMV::Indirect(s),
    }
}
/// "The size of each argument gets rounded up to eightbytes ... If the size of an object is
/// larger than [two] eightbytes ... it has class MEMORY" (vector classes do not occur): the
/// classes of the eightbytes of a type that travels in registers
pub open spec fn classify_spec(ty: Ty) -> Option<Seq<Class>> {
    if tsize(ty) <= 16 { Some(Seq::new(8, |k: int| eb_class(ty, 0, k))) } else { None }
}
/// domain condition: no eightbyte of a small aggregate is pure padding (true of every C
/// layout: each eightbyte below the size holds a field; not proved here)
pub open spec fn no_padding_eightbyte(ty: Ty) -> bool {
    tsize(ty) >= 1 && eb_class(ty, 0, 0) != Class::NoClass && (tsize(ty) > 8 ==> eb_class(ty, 0, 1) != Class::NoClass)
}
/// what classify_arg needs to know about a type
pub open spec fn classifiable(ty: Ty) -> bool {
    lk(ty) && (tsize(ty) <= 63 || tsize(ty) > 64) && (ty_is_aggregate(ty) && tsize(ty) <= 16 ==> no_padding_eightbyte(ty))
}
/// what fn_ty_to_abi relies on about a classification (established by classify_arg)
pub open spec fn classes_ok(ty: Ty, cls: Seq<Class>) -> bool {
    &&& cls.len() == 8
    &&& forall|k: int| 0 <= k < 8 ==> scalar_class(#[trigger] cls[k])
    &&& ty_is_aggregate(ty) ==> 1 <= tsize(ty) <= 16 && cls[0] != Class::NoClass && (tsize(ty) > 8 ==> cls[1] != Class::NoClass)
}
pub open spec fn has_machine_type(ty: Ty) -> bool { tfinal(ty) is Number || tfinal(ty) is Pointer }
pub open spec fn machine_type(ty: Ty) -> Type {
    match tfinal(ty) { FinalTy::Number(nt) => nt.ty, FinalTy::Pointer(t) => t, _ => types::I64 }
}
/// a value that got its registers: an aggregate one register per eightbyte, a scalar as itself
pub open spec fn in_registers(ty: Ty, cls: Seq<Class>) -> PMV {
    if ty_is_aggregate(ty) { PMV::Cast { tys: psabi_regs(cls[0], cls[1], tsize(ty) as int), orig: ty } }
    else { PMV::Direct(machine_type(ty)) }
}

// ---- register assignment: psABI 3.2.3 "Passing" ----------------------------------------------
/// registers still free: "%rdi, %rsi, %rdx, %rcx, %r8 and %r9" / "%xmm0 to %xmm7"
pub ghost struct Regs { pub ints: int, pub sses: int }
pub open spec fn count_class(cls: Seq<Class>, c: Class, upto: int) -> int decreases upto {
    if upto <= 0 { 0 } else { count_class(cls, c, upto - 1) + (if cls[upto - 1] == c { 1int } else { 0int }) }
}
/// bytes an argument of class MEMORY occupies on the stack ("rounded up to eightbytes")
pub open spec fn stack_size(ty: Ty) -> nat { rup(stride_of(ty), 8) }
/// one argument, given the registers still free: how it travels and what is left.
/// "If there are no registers available for any eightbyte of an argument, the whole argument
/// is passed on the stack. If registers have already been assigned for some eightbytes of such
/// an argument, the assignments get reverted."
pub open spec fn pass_arg(ty: Ty, r: Regs) -> (Option<PMV>, Regs) {
    if ty_zero_sized(ty) { (None, r) }
    else {
        match classify_spec(ty) {
            Some(cls) => {
                let ni = count_class(cls, Class::Int, 8);
                let ns = count_class(cls, Class::Sse, 8);
                if ni <= r.ints && ns <= r.sses { (Some(in_registers(ty, cls)), Regs { ints: r.ints - ni, sses: r.sses - ns }) }
                else if ty_is_aggregate(ty) { (Some(PMV::Indirect(Some(stack_size(ty) as usize))), r) }
                else { (Some(PMV::Direct(machine_type(ty))), r) }
            },
            // class MEMORY
            None => (Some(PMV::Indirect(Some(stack_size(ty) as usize))), r),
        }
    }
}
pub open spec fn pass_args(args: Seq<ParamTy>, k: int, r0: Regs) -> (Seq<(PMV, u16)>, Regs) decreases k {
    if k <= 0 { (Seq::empty(), r0) } else {
        let prev = pass_args(args, k - 1, r0);
        let one = pass_arg(*args[k - 1].ty.0, prev.1);
        (if one.0 is Some { prev.0.push((one.0->0, (k - 1) as u16)) } else { prev.0 }, one.1)
    }
}
/// the return value: "If the type has class MEMORY, then the caller provides space for the
/// return value and passes the address of this storage in %rdi as if it were the first
/// argument" -- which costs one integer register
pub open spec fn pass_ret(ty: Ty) -> (Option<PMV>, Regs) {
    if ty_zero_sized(ty) { (None, Regs { ints: 6, sses: 8 }) }
    else {
        match classify_spec(ty) {
            Some(cls) => (Some(in_registers(ty, cls)), Regs { ints: 6, sses: 8 }),
            None => (Some(PMV::Indirect(Some(tsize(ty) as usize))), Regs { ints: 5, sses: 8 }),
        }
    }
}
pub open spec fn args_match(v: Seq<(PassMode, u16)>, p: Seq<(PMV, u16)>) -> bool {
    v.len() == p.len() && forall|j: int| 0 <= j < v.len() ==> pm_view(#[trigger] v[j].0) == p[j].0 && v[j].1 == p[j].1
}
pub open spec fn ret_view(r: Option<PassMode>) -> Option<PMV> { match r { Some(m) => Some(pm_view(m)), None => None } }

// ---- classification of the eightbytes of a type: psABI 3.2.3 "Classification" ---------------
/// "Arguments of types (signed and unsigned) _Bool, char, short, int, long, long long, and
/// pointers are in the INTEGER class."  (capy: type ids, strings = pointers, function values)
pub open spec fn int_scalar(ty: Ty) -> bool {
    match ty {
        Ty::Type => true, Ty::String => true, Ty::Char => true, Ty::IInt(_) => true, Ty::UInt(_) => true, Ty::Bool => true,
        Ty::Pointer { .. } => true, Ty::RawPtr { .. } => true, Ty::ConcreteFunction { .. } => true, Ty::File(_) => true,
        _ => false,
    }
}
/// a scalar of class c placed at byte `off`: the eightbyte that holds its first byte, and the
/// next one when it is wider than 8 bytes (scalars are aligned to min(size, 8) -- C17 -- so
/// these are exactly the eightbytes it overlaps)
pub open spec fn leaf(c: Class, off: int, size: nat, k: int) -> Class {
    if k == off / 8 || (size > 8 && k == off / 8 + 1) { c } else { Class::NoClass }
}
pub open spec fn tag_class(ty: Ty, off: int, k: int) -> Class {
    if k == (off + tenum(ty).discriminant_offset) / 8 { Class::Int } else { Class::NoClass }
}
/// "Each field of an object is classified recursively so that always two fields are
/// considered.  The resulting class is calculated according to the classes of the fields in
/// the eightbyte": the class that `ty`, placed at byte `off`, contributes to eightbyte `k`
#[verifier::opaque]
pub open spec fn eb_class(ty: Ty, off: int, k: int) -> Class decreases ty, 1nat, 0nat {
    if int_scalar(ty) { leaf(Class::Int, off, tsize(ty), k) } else {
    match ty {
        // "Arguments of types float, double ... are in class SSE."
        Ty::Float(_) => leaf(Class::Sse, off, 0, k),
        Ty::ConcreteArray { size, sub_ty } => eb_parts(ty, size as nat, off, k),
        Ty::AnonArray { size, sub_ty } => eb_parts(ty, size as nat, off, k),
        // two words: pointer and length / type id and pointer
        Ty::Slice { .. } => leaf(Class::Int, off, 16, k),
        Ty::RawSlice => leaf(Class::Int, off, 16, k),
        Ty::Any => leaf(Class::Int, off, 16, k),
        Ty::Distinct { sub_ty, .. } => eb_class(*sub_ty.0, off, k),
        Ty::EnumVariant { sub_ty, .. } => eb_class(*sub_ty.0, off, k),
        Ty::ConcreteStruct { members, .. } => eb_parts(ty, members@.len(), off, k),
        Ty::AnonStruct { members } => eb_parts(ty, members@.len(), off, k),
        // a union of the payloads, plus the tag byte
        Ty::Enum { variants, .. } => psabi_merge(eb_parts(ty, variants@.len(), off, k), tag_class(ty, off, k)),
        Ty::ErrorUnion { error_ty, payload_ty } =>
            psabi_merge(psabi_merge(eb_class(*payload_ty.0, off, k), eb_class(*error_ty.0, off, k)), tag_class(ty, off, k)),
        Ty::Optional { sub_ty } =>
            if has_enum_layout(ty) { psabi_merge(eb_class(*sub_ty.0, off, k), tag_class(ty, off, k)) }
            else { leaf(Class::Int, off, tsize(ty), k) },
        _ => Class::NoClass,
    } }
}
/// the first n elements / fields / variants of `ty` merged
#[verifier::opaque]
pub open spec fn eb_parts(ty: Ty, n: nat, off: int, k: int) -> Class decreases ty, 0nat, n {
    if n == 0 { Class::NoClass } else {
        psabi_merge(eb_parts(ty, (n - 1) as nat, off, k), match ty {
            Ty::ConcreteArray { size, sub_ty } => eb_class(*sub_ty.0, off + (n - 1) * stride_of(*sub_ty.0), k),
            Ty::AnonArray { size, sub_ty } => eb_class(*sub_ty.0, off + (n - 1) * stride_of(*sub_ty.0), k),
            Ty::ConcreteStruct { members, .. } => if n - 1 < members@.len() { eb_class(*members@[n - 1].ty.0, off + tstruct(ty).offsets[n - 1], k) } else { Class::NoClass },
            Ty::AnonStruct { members } => if n - 1 < members@.len() { eb_class(*members@[n - 1].ty.0, off + tstruct(ty).offsets[n - 1], k) } else { Class::NoClass },
            Ty::Enum { variants, .. } => if n - 1 < variants@.len() { eb_class(*variants@[n - 1].0, off, k) } else { Class::NoClass },
            _ => Class::NoClass,
        })
    }
}
/// the layout tables know the type and every type inside it (calc_single computes the parts
/// before the whole)
#[verifier::opaque]
pub open spec fn lk(ty: Ty) -> bool decreases ty, 1nat, 0nat {
    &&& entry_ok(ty)
    &&& match ty {
        Ty::ConcreteArray { size, sub_ty } => lk(*sub_ty.0),
        Ty::AnonArray { size, sub_ty } => lk(*sub_ty.0),
        Ty::Distinct { sub_ty, .. } => lk(*sub_ty.0),
        Ty::EnumVariant { sub_ty, .. } => lk(*sub_ty.0),
        Ty::ConcreteStruct { members, .. } => lk_parts(ty, members@.len()),
        Ty::AnonStruct { members } => lk_parts(ty, members@.len()),
        Ty::Enum { variants, .. } => lk_parts(ty, variants@.len()),
        Ty::ErrorUnion { error_ty, payload_ty } => lk(*error_ty.0) && lk(*payload_ty.0),
        Ty::Optional { sub_ty } => lk(*sub_ty.0),
        _ => true,
    }
}
#[verifier::opaque]
pub open spec fn lk_parts(ty: Ty, n: nat) -> bool decreases ty, 0nat, n {
    if n == 0 { true } else {
        lk_parts(ty, (n - 1) as nat) && match ty {
            Ty::ConcreteStruct { members, .. } => n - 1 < members@.len() ==> lk(*members@[n - 1].ty.0),
            Ty::AnonStruct { members } => n - 1 < members@.len() ==> lk(*members@[n - 1].ty.0),
            Ty::Enum { variants, .. } => n - 1 < variants@.len() ==> lk(*variants@[n - 1].0),
            _ => true,
        }
    }
}

// ---- unfolding lemmas: one per arm of classify_eight_byte ------------------------------------
// (eb_class / eb_parts / lk / lk_parts are opaque; the exec proof sees only these facts.  The
// `forall a` forms are stated left-nested, the way the code accumulates into `classes`.)
pub proof fn lemma_cls_scalar(ty: Ty, off: int)
    requires int_scalar(ty)
    ensures forall|k: int| #[trigger] eb_class(ty, off, k) == leaf(Class::Int, off, tsize(ty), k)
{ reveal_with_fuel(eb_class, 2); reveal_with_fuel(eb_parts, 2); }
pub proof fn lemma_cls_float(ty: Ty, off: int)
    requires ty is Float
    ensures forall|k: int| #[trigger] eb_class(ty, off, k) == leaf(Class::Sse, off, 0, k)
{ reveal_with_fuel(eb_class, 2); reveal_with_fuel(eb_parts, 2); }
pub proof fn lemma_cls_two_words(ty: Ty, off: int)
    requires ty is Slice || ty is RawSlice || ty is Any, lk(ty), ptr_bytes() == 8
    ensures forall|k: int| #[trigger] eb_class(ty, off, k) == leaf(Class::Int, off, 16, k), tsize(ty) == 16
{ reveal_with_fuel(eb_class, 2); reveal_with_fuel(eb_parts, 2); reveal_with_fuel(lk, 2); reveal_with_fuel(lk_parts, 2); }
pub open spec fn wrapped(ty: Ty) -> Option<Ty> {
    match ty { Ty::Distinct { sub_ty, .. } => Some(*sub_ty.0), Ty::EnumVariant { sub_ty, .. } => Some(*sub_ty.0), _ => None }
}
pub proof fn lemma_cls_wrapper(ty: Ty, off: int)
    requires wrapped(ty) is Some, lk(ty)
    ensures forall|k: int| #[trigger] eb_class(ty, off, k) == eb_class(wrapped(ty)->0, off, k),
        lk(wrapped(ty)->0), tsize(ty) == tsize(wrapped(ty)->0)
{ reveal_with_fuel(eb_class, 2); reveal_with_fuel(eb_parts, 2); reveal_with_fuel(lk, 2); reveal_with_fuel(lk_parts, 2); }
pub open spec fn arr_parts(ty: Ty) -> Option<(nat, Ty)> {
    match ty { Ty::ConcreteArray { size, sub_ty } => Some((size as nat, *sub_ty.0)), Ty::AnonArray { size, sub_ty } => Some((size as nat, *sub_ty.0)), _ => None }
}
pub open spec fn arr_n(ty: Ty) -> nat { (arr_parts(ty)->0).0 }
pub open spec fn arr_sub(ty: Ty) -> Ty { (arr_parts(ty)->0).1 }
pub proof fn lemma_cls_array(ty: Ty, off: int)
    requires arr_parts(ty) is Some, lk(ty)
    ensures
        forall|k: int| #[trigger] eb_class(ty, off, k) == eb_parts(ty, arr_n(ty), off, k),
        forall|k: int| #[trigger] eb_parts(ty, 0, off, k) == Class::NoClass,
        lk(arr_sub(ty)), tsize(ty) == arr_n(ty) * stride_of(arr_sub(ty)),
        tsize(arr_sub(ty)) <= stride_of(arr_sub(ty)),
{ reveal_with_fuel(eb_class, 2); reveal_with_fuel(eb_parts, 2); reveal_with_fuel(lk, 2); reveal_with_fuel(lk_parts, 2); }
pub proof fn lemma_cls_array_step(ty: Ty, off: int, idx: nat)
    requires arr_parts(ty) is Some, idx < arr_n(ty)
    ensures
        forall|k: int| #[trigger] eb_parts(ty, (idx + 1) as nat, off, k)
            == psabi_merge(eb_parts(ty, idx, off, k), eb_class(arr_sub(ty), off + idx * stride_of(arr_sub(ty)), k)),
        (idx + 1) * stride_of(arr_sub(ty)) <= arr_n(ty) * stride_of(arr_sub(ty)),
        idx * stride_of(arr_sub(ty)) + stride_of(arr_sub(ty)) == (idx + 1) * stride_of(arr_sub(ty)),
{
    reveal_with_fuel(eb_class, 2); reveal_with_fuel(eb_parts, 2);
    let st = stride_of(arr_sub(ty)); let n = arr_n(ty);
    assert((idx + 1) * st <= n * st) by (nonlinear_arith) requires idx + 1 <= n, st >= 0;
    assert(idx * st + st == (idx + 1) * st) by (nonlinear_arith);
    assert forall|k: int| #[trigger] eb_parts(ty, (idx + 1) as nat, off, k)
            == psabi_merge(eb_parts(ty, idx, off, k), eb_class(arr_sub(ty), off + idx * st, k)) by {
        assert(((idx + 1) as nat - 1) as nat == idx);
        assert(((idx + 1) as nat - 1) * st == idx * st);
        match ty {
            Ty::ConcreteArray { size, sub_ty } => { assert(arr_sub(ty) == *sub_ty.0); }
            Ty::AnonArray { size, sub_ty } => { assert(arr_sub(ty) == *sub_ty.0); }
            _ => {}
        }
    }
}
pub proof fn lemma_cls_struct(ty: Ty, off: int)
    requires is_struct_ty(ty), lk(ty)
    ensures
        forall|k: int| #[trigger] eb_class(ty, off, k) == eb_parts(ty, members_of(ty).len(), off, k),
        forall|k: int| #[trigger] eb_parts(ty, 0, off, k) == Class::NoClass,
        tstruct(ty).offsets.len() == members_of(ty).len(), tsize(ty) == tstruct(ty).size,
{ reveal_with_fuel(eb_class, 2); reveal_with_fuel(eb_parts, 2); reveal_with_fuel(lk, 2); reveal_with_fuel(lk_parts, 2); }
pub proof fn lemma_lk_part(ty: Ty, n: nat, i: int)
    requires lk_parts(ty, n), 0 <= i < n
    ensures lk_parts(ty, (i + 1) as nat)
    decreases n
{
    reveal_with_fuel(lk, 2); reveal_with_fuel(lk_parts, 2);
    if i + 1 < n { lemma_lk_part(ty, (n - 1) as nat, i); }
}
pub proof fn lemma_struct_member(ty: Ty, i: int)
    requires is_struct_ty(ty), lk(ty), 0 <= i < members_of(ty).len()
    ensures lk(*members_of(ty)[i].ty.0), tstruct(ty).offsets[i] + tsize(*members_of(ty)[i].ty.0) <= tsize(ty),
{
    reveal_with_fuel(lk, 2); reveal_with_fuel(lk_parts, 2);
    lemma_lk_part(ty, members_of(ty).len(), i);
    assert(field_tys(ty)[i] == *members_of(ty)[i].ty.0);
}
pub proof fn lemma_cls_struct_step(ty: Ty, off: int, i: int)
    requires is_struct_ty(ty), lk(ty), 0 <= i < members_of(ty).len()
    ensures
        forall|k: int| #[trigger] eb_parts(ty, (i + 1) as nat, off, k)
            == psabi_merge(eb_parts(ty, i as nat, off, k), eb_class(*members_of(ty)[i].ty.0, off + tstruct(ty).offsets[i], k)),
        lk(*members_of(ty)[i].ty.0),
        tstruct(ty).offsets[i] + tsize(*members_of(ty)[i].ty.0) <= tsize(ty),
{
    lemma_struct_member(ty, i);
    reveal_with_fuel(eb_class, 2); reveal_with_fuel(eb_parts, 2);
    assert forall|k: int| #[trigger] eb_parts(ty, (i + 1) as nat, off, k)
            == psabi_merge(eb_parts(ty, i as nat, off, k), eb_class(*members_of(ty)[i].ty.0, off + tstruct(ty).offsets[i], k)) by {
        assert(((i + 1) as nat - 1) as nat == i as nat);
    }
}
pub open spec fn variants_of(ty: Ty) -> Seq<Intern<Ty>> { match ty { Ty::Enum { variants, .. } => variants@, _ => Seq::empty() } }
pub proof fn lemma_cls_enum(ty: Ty, off: int)
    requires ty is Enum, lk(ty)
    ensures
        forall|k: int| #[trigger] eb_class(ty, off, k) == psabi_merge(eb_parts(ty, variants_of(ty).len(), off, k), tag_class(ty, off, k)),
        forall|k: int| #[trigger] eb_parts(ty, 0, off, k) == Class::NoClass,
        tenum(ty).discriminant_offset + 1 == tsize(ty),
{
    reveal_with_fuel(eb_class, 2); reveal_with_fuel(eb_parts, 2); reveal_with_fuel(lk, 2); reveal_with_fuel(lk_parts, 2);
}
pub proof fn lemma_enum_variant(ty: Ty, i: int)
    requires ty is Enum, lk(ty), 0 <= i < variants_of(ty).len()
    ensures lk(*variants_of(ty)[i].0), tsize(*variants_of(ty)[i].0) <= tenum(ty).discriminant_offset,
{
    reveal_with_fuel(lk, 2); reveal_with_fuel(lk_parts, 2);
    lemma_lk_part(ty, variants_of(ty).len(), i);
    assert(payloads_of(ty)[i] == *variants_of(ty)[i].0);
}
pub proof fn lemma_cls_enum_step(ty: Ty, off: int, i: int)
    requires ty is Enum, lk(ty), 0 <= i < variants_of(ty).len()
    ensures
        forall|k: int| #[trigger] eb_parts(ty, (i + 1) as nat, off, k)
            == psabi_merge(eb_parts(ty, i as nat, off, k), eb_class(*variants_of(ty)[i].0, off, k)),
        lk(*variants_of(ty)[i].0),
        tsize(*variants_of(ty)[i].0) <= tenum(ty).discriminant_offset,
{
    lemma_enum_variant(ty, i);
    reveal_with_fuel(eb_class, 2); reveal_with_fuel(eb_parts, 2);
    assert forall|k: int| #[trigger] eb_parts(ty, (i + 1) as nat, off, k)
            == psabi_merge(eb_parts(ty, i as nat, off, k), eb_class(*variants_of(ty)[i].0, off, k)) by {
        assert(((i + 1) as nat - 1) as nat == i as nat);
    }
}
pub proof fn lemma_eu_layout(ty: Ty)
    requires ty is ErrorUnion, lk(ty)
    ensures
        lk(*ty->ErrorUnion_payload_ty.0), lk(*ty->ErrorUnion_error_ty.0),
        tsize(*ty->ErrorUnion_payload_ty.0) <= tenum(ty).discriminant_offset, tsize(*ty->ErrorUnion_error_ty.0) <= tenum(ty).discriminant_offset,
        tenum(ty).discriminant_offset + 1 == tsize(ty),
{
    reveal_with_fuel(lk, 2); reveal_with_fuel(lk_parts, 2);
    assert(entry_ok(ty));
    assert(size_ok(ty, tsize(ty)));
    assert(enum_layout_ok(ty, tenum(ty)));
    assert(payloads_of(ty).len() == 2);
    assert(payloads_of(ty)[0] == *ty->ErrorUnion_error_ty.0 && payloads_of(ty)[1] == *ty->ErrorUnion_payload_ty.0);
    assert(tsize(payloads_of(ty)[0]) <= tenum(ty).discriminant_offset);
    assert(tsize(payloads_of(ty)[1]) <= tenum(ty).discriminant_offset);
}
pub proof fn lemma_eu_class(ty: Ty, off: int, k: int)
    requires ty is ErrorUnion
    ensures eb_class(ty, off, k) == psabi_merge(psabi_merge(eb_class(*ty->ErrorUnion_payload_ty.0, off, k), eb_class(*ty->ErrorUnion_error_ty.0, off, k)), tag_class(ty, off, k))
{
    reveal_with_fuel(eb_class, 2); reveal_with_fuel(eb_parts, 2);
}
pub proof fn lemma_merge4(a: Class, p: Class, e: Class, t: Class)
    ensures psabi_merge(a, psabi_merge(psabi_merge(p, e), t)) == psabi_merge(psabi_merge(psabi_merge(a, p), e), t)
{
}
pub proof fn lemma_opt_layout(ty: Ty)
    requires ty is Optional, lk(ty)
    ensures
        lk(*ty->Optional_sub_ty.0),
        has_enum_layout(ty) ==> tsize(*ty->Optional_sub_ty.0) <= tenum(ty).discriminant_offset && tenum(ty).discriminant_offset + 1 == tsize(ty),
{
    reveal_with_fuel(lk, 2); reveal_with_fuel(lk_parts, 2);
    if has_enum_layout(ty) {
        assert(entry_ok(ty));
        assert(size_ok(ty, tsize(ty)));
        assert(enum_layout_ok(ty, tenum(ty)));
        assert(payloads_of(ty).len() == 1 && payloads_of(ty)[0] == *ty->Optional_sub_ty.0);
        assert(tsize(payloads_of(ty)[0]) <= tenum(ty).discriminant_offset);
    }
}
pub proof fn lemma_opt_class(ty: Ty, off: int, k: int)
    requires ty is Optional
    ensures
        has_enum_layout(ty) ==> eb_class(ty, off, k) == psabi_merge(eb_class(*ty->Optional_sub_ty.0, off, k), tag_class(ty, off, k)),
        !has_enum_layout(ty) ==> eb_class(ty, off, k) == leaf(Class::Int, off, tsize(ty), k),
{
    reveal_with_fuel(eb_class, 2); reveal_with_fuel(eb_parts, 2);
}
/// the pointer-shaped optional: an INTEGER scalar
pub proof fn lemma_cls_optional_ptr(ty: Ty, off: int)
    requires ty is Optional, !has_enum_layout(ty)
    ensures forall|k: int| #[trigger] eb_class(ty, off, k) == leaf(Class::Int, off, tsize(ty), k)
{
    assert forall|k: int| #[trigger] eb_class(ty, off, k) == leaf(Class::Int, off, tsize(ty), k) by { lemma_opt_class(ty, off, k); }
}
pub open spec fn classified_variant(ty: Ty) -> bool {
    int_scalar(ty) || ty is Float || arr_parts(ty) is Some || ty is Slice || ty is RawSlice || ty is Any || wrapped(ty) is Some
    || is_struct_ty(ty) || ty is Enum || ty is ErrorUnion || ty is Optional
}
pub proof fn lemma_cls_other(ty: Ty, off: int)
    requires !classified_variant(ty)
    ensures forall|k: int| #[trigger] eb_class(ty, off, k) == Class::NoClass
{ reveal_with_fuel(eb_class, 2); reveal_with_fuel(eb_parts, 2); }

/// storing the tag's class: `c3` is `c2` with INTEGER merged into the eightbyte of the tag byte
pub proof fn lemma_tag_store(c2: Seq<Class>, c3: Seq<Class>, ty: Ty, off: int, j: int)
    requires c2.len() == 8, c3.len() == 8, 0 <= j < 8, j == (off + tenum(ty).discriminant_offset) / 8,
        c3 == c2.update(j, psabi_merge(c2[j], Class::Int)),
    ensures forall|k: int| 0 <= k < 8 ==> #[trigger] c3[k] == psabi_merge(c2[k], tag_class(ty, off, k))
{
}

/// merging scalar classes never yields SSEUP (no vector types): by induction over the type
pub proof fn lemma_eb_scalar(ty: Ty, off: int, k: int)
    ensures scalar_class(eb_class(ty, off, k))
    decreases ty, 1nat, 0nat
{
    reveal_with_fuel(eb_class, 2); reveal_with_fuel(eb_parts, 2);
    if !int_scalar(ty) {
        match ty {
            Ty::ConcreteArray { size, sub_ty } => { lemma_parts_scalar(ty, size as nat, off, k); }
            Ty::AnonArray { size, sub_ty } => { lemma_parts_scalar(ty, size as nat, off, k); }
            Ty::Distinct { sub_ty, .. } => { lemma_eb_scalar(*sub_ty.0, off, k); }
            Ty::EnumVariant { sub_ty, .. } => { lemma_eb_scalar(*sub_ty.0, off, k); }
            Ty::ConcreteStruct { members, .. } => { lemma_parts_scalar(ty, members@.len(), off, k); }
            Ty::AnonStruct { members } => { lemma_parts_scalar(ty, members@.len(), off, k); }
            Ty::Enum { variants, .. } => { lemma_parts_scalar(ty, variants@.len(), off, k); }
            Ty::ErrorUnion { error_ty, payload_ty } => { lemma_eb_scalar(*payload_ty.0, off, k); lemma_eb_scalar(*error_ty.0, off, k); }
            Ty::Optional { sub_ty } => { lemma_eb_scalar(*sub_ty.0, off, k); }
            _ => {}
        }
    }
}
pub proof fn lemma_parts_scalar(ty: Ty, n: nat, off: int, k: int)
    ensures scalar_class(eb_parts(ty, n, off, k))
    decreases ty, 0nat, n
{
    reveal_with_fuel(eb_class, 2); reveal_with_fuel(eb_parts, 2);
    if n > 0 {
        lemma_parts_scalar(ty, (n - 1) as nat, off, k);
        match ty {
            Ty::ConcreteArray { size, sub_ty } => { lemma_eb_scalar(*sub_ty.0, off + (n - 1) * stride_of(*sub_ty.0), k); }
            Ty::AnonArray { size, sub_ty } => { lemma_eb_scalar(*sub_ty.0, off + (n - 1) * stride_of(*sub_ty.0), k); }
            Ty::ConcreteStruct { members, .. } => { if n - 1 < members@.len() { lemma_eb_scalar(*members@[n - 1].ty.0, off + tstruct(ty).offsets[n - 1], k); } }
            Ty::AnonStruct { members } => { if n - 1 < members@.len() { lemma_eb_scalar(*members@[n - 1].ty.0, off + tstruct(ty).offsets[n - 1], k); } }
            Ty::Enum { variants, .. } => { if n - 1 < variants@.len() { lemma_eb_scalar(*variants@[n - 1].0, off, k); } }
            _ => {}
        }
    }
}
