"""Unit `abi` (C19): System V x86-64 classification and register assignment."""
from tools.unitapi import Unit, Rewrite, sibling, contract_of

layout = sibling('layout')
X = 'crates/codegen/src/convert/abi/x86_64.rs'
A = 'crates/codegen/src/convert/abi/mod.rs'

UNIT = u = Unit('abi', ['C19'], 'SysV x86-64: merge_eigthbyte, post-merger clean-up, reg_component, split_aggregate, register accounting')
layout.prelude(u)
u.shim('clif_types.rs')
u.shim('abi_deps.rs')
layout.api_stubs(u)
u.extract(X, 'enum Class', keep_derives={'Clone', 'Copy', 'PartialEq', 'Eq'}, wrap=('#[derive(Structural)]', ''))
u.spec('spec.rs')
u.trusted += [
    'the psABI rules as transcribed in units/abi/spec.rs (MEMORY, X87 and vector classes are not represented in the code and not in the spec)',
    'scalars are aligned to min(size, 8) (C17), so a scalar occupies the eightbyte of its first byte, plus the next one when it is wider than 8 bytes; the spec `leaf` states it that way',
    'domain: the layout tables know the type and all its parts (lk), types of exactly 64 bytes are excluded (a zero-sized member at offset 64 would index past the class array), pointers are 8 bytes, and no eightbyte of an aggregate of at most 16 bytes is pure padding (no_padding_eightbyte; true of C layouts, not proved)',
    'case split: classify_eight_byte is verified once per match arm, the other arms cut by assume(false) in that copy (reported as case-split-cut); the copies together cover every path',
    '`(*ty).clone()` returns an equal value; enum_layout() is None for an optional pointer (table assumption T4)',
    'tinyvec::ArrayVec, u16::next_power_of_two, Type::int_with_byte_size as specified in shims/verus/abi_deps.rs and clif_types.rs',
    'Cranelift assigns the registers of the host calling convention to a signature whose parameter types are the ones computed here (to_cl is not under contract)',
]

u.extract(X, 'impl Class::fn merge_eigthbyte', wrap=('impl Class {', '}'), contract='''
    ensures res == psabi_merge(self, other)
''')

PRINTLN = Rewrite('R6', r'println!\([^;]*\);', '', count=None, why='debug output dropped')
TAKEW = Rewrite('R7', r'cls\[\*i \+ 1\.\.\]\s*\.iter\(\)\s*\.take_while\(\|&&c\| c == Class::SseUp\)\s*\.count\(\)', 'count_while(cls, *i + 1, |c: Class| -> (b: bool) ensures b == (c == Class::SseUp) { c == Class::SseUp })', count=1,
                why='`slice[a..].iter().take_while(p).count()` -> shim taking the same predicate (closure parameter pattern `&&c` -> `c: Class`)')
TODO = Rewrite('R6', r'todo!\("vector types"\)', 'proved_unreachable()', count=1, why='`todo!` -> a call whose precondition is `false`: PROVED unreachable')
UNREACH = Rewrite('R6', r'c => unreachable!\("reg_component: unhandled class \{:\?\}", c\),', 'c => proved_unreachable(),', count=1, why='`unreachable!` -> a call whose precondition is `false`: PROVED unreachable')
u.raw('''
#[verifier::external_body]
pub fn proved_unreachable<T>() -> (r: T) requires false { unimplemented!() }
// ASSUMED: `s[from..].iter().take_while(p).count()`: p returned true on the first r
// elements and, unless the slice ended, false on the next one
#[verifier::external_body]
pub fn count_while<F: Fn(Class) -> bool>(s: &[Class], from: usize, p: F) -> (r: usize)
    requires from <= s@.len(), forall|c: Class| call_requires(p, (c,)),
    ensures r <= s@.len() - from,
        forall|k: int| 0 <= k < r ==> call_ensures(p, (#[trigger] s@[from + k],), true),
        from + r < s@.len() ==> call_ensures(p, (s@[from + r],), false),
{ unimplemented!() }
''')
u.extract(X, 'fn reg_component', rewrites=[PRINTLN, TAKEW, TODO, UNREACH], contract='''
    requires
        *old(i) < 8, cls@.len() <= 8, 1 <= size,
        forall|k: int| 0 <= k < cls@.len() ==> scalar_class(#[trigger] cls@[k]),
    ensures
        // no register for padding / past the end
        (*old(i) >= cls@.len() || cls@[*old(i) as int] == Class::NoClass) ==> res is None && *final(i) == *old(i),
        // one register per eightbyte, of the eightbyte's class, wide enough for the bytes left
        (*old(i) < cls@.len() && cls@[*old(i) as int] != Class::NoClass) ==>
            res == Some(eightbyte_reg(cls@[*old(i) as int], size as int)) && *final(i) == *old(i) + 1,
''', inserts=[('@after_stmt:let vec_len =', 'after', '''
            proof {
                // no field of a capy type is a vector: the eightbyte after an SSE one is never SSEUP
                if vec_len > 1 { assert(scalar_class(cls@[*i + 1 + 0])); }
            }
''')])

ARRVEC = Rewrite('R4', r'ArrayVec<\[Type; 4\]>', 'ArrayVec4', count=None, why='tinyvec::ArrayVec<[Type; 4]> -> shim type (fixed capacity 4)')
ARRNEW = Rewrite('R4', r'array_vec!\(\)', 'ArrayVec4::new()', count=1, why='tinyvec macro `array_vec!()` -> shim constructor')
TYANN = Rewrite('R4', r'let mut tys = ArrayVec4::new\(\);', 'let mut tys: ArrayVec4 = ArrayVec4::new();', count=1, why='type annotation')
u.extract(X, 'fn split_aggregate', rewrites=[PRINTLN, ARRVEC, ARRNEW], contract='''
    requires
        // an aggregate that classify_arg decided to pass in registers: 1..=16 bytes, at most
        // two eightbytes, the first of them not padding
        1 <= tsize(*aggr.0) <= 16, cls@.len() == 8,
        forall|k: int| 0 <= k < 8 ==> scalar_class(#[trigger] cls@[k]),
        cls@[0] != Class::NoClass,
        tsize(*aggr.0) > 8 ==> cls@[1] != Class::NoClass,
    ensures
        res@ == psabi_regs(cls@[0], cls@[1], tsize(*aggr.0) as int),
''')

# ---- post-merger clean-up (R5: the tail of classify_arg lifted) ------------------------------
ANY = Rewrite('R7', r'classes\[1\.\.n\]\.iter\(\)\.any\(\|&class\| class != Class::SseUp\)', 'any_in(&classes, 1, n, |class: Class| -> (b: bool) ensures b == (class != Class::SseUp) { class != Class::SseUp })', count=1,
              why='`slice[a..b].iter().any(p)` -> shim taking the same predicate (closure parameter pattern `&class` -> `class: Class`)')
ATTR = Rewrite('R1', r'#\[allow\(clippy::if_same_then_else\)\]', '', count=1, why='lint attribute dropped')
u.raw('''
// ASSUMED: `s[a..b].iter().any(p)`
#[verifier::external_body]
pub fn any_in<F: Fn(Class) -> bool>(s: &[Class; 8], a: usize, b: usize, p: F) -> (r: bool)
    requires a <= b <= 8, forall|c: Class| call_requires(p, (c,)),
    ensures r ==> exists|k: int| a <= k < b && call_ensures(p, (#[trigger] s@[k],), true),
        !r ==> forall|k: int| a <= k < b ==> call_ensures(p, (#[trigger] s@[k],), false),
{ unimplemented!() }
''')
u.extract(X, 'fn classify_arg', key='post_merge', rewrites=[ANY],
          lift=dict(start_after='classify_eight_byte(ty, &mut classes, 0);', end_at='Some(classes)\n    }',
                    sig='fn post_merge(mut classes: [Class; 8], n: usize) -> (res: Option<[Class; 8]>)',
                    why='the tail of classify_arg after the recursive classification (the psABI "post merger cleanup") lifted into a function'),
          contract='''
    requires n <= 8
    ensures
        // "(c) If the size of the aggregate exceeds two eightbytes and the first eightbyte isn't
        //  SSE or any other eightbyte isn't SSEUP, the whole argument is passed in memory."
        n > 2 ==> (res is Some <==> (classes@[0] == Class::Sse && forall|k: int| 1 <= k < n ==> #[trigger] classes@[k] == Class::SseUp)),
        n > 2 && res is Some ==> res->0@ == classes@,
        // "(d) If SSEUP is not preceded by SSE or SSEUP, it is converted to SSE."
        n <= 2 ==> res is Some && forall|k: int| 0 <= k < 8 ==> #[trigger] res->0@[k] == cleaned(classes@, n as int, k),
''',
          inserts=[('@body_start', 'after', ' let ghost c0 = classes@; '),
                   ('while i != n && classes[i] == Class::SseUp', 'before', 'let ghost i0 = i; ')],
          loops={0: '''
            invariant
                i <= n <= 8, c0.len() == 8,
                forall|k: int| 0 <= k < i ==> #[trigger] classes@[k] == cleaned(c0, n as int, k),
                forall|k: int| i < k < 8 ==> #[trigger] classes@[k] == c0[k],
                i < 8 ==> classes@[i as int] == c0[i as int]
                    || (i < n && c0[i as int] == Class::SseUp && classes@[i as int] == Class::Sse && (i == 0 || !(c0[i - 1] == Class::Sse || c0[i - 1] == Class::SseUp))),
                // an SSEUP met here is not the continuation of an SSE run
                0 < i < n && classes@[i as int] == Class::SseUp ==> !(c0[i - 1] == Class::Sse || c0[i - 1] == Class::SseUp),
            decreases 2 * (n - i) + (if i < n && classes@[i as int] == Class::SseUp { 1int } else { 0int })
''', 1: '''
                    invariant
                        1 <= i0 <= i <= n <= 8, c0.len() == 8,
                        c0[i - 1] == Class::Sse || c0[i - 1] == Class::SseUp,
                        forall|k: int| 0 <= k < i ==> #[trigger] classes@[k] == cleaned(c0, n as int, k),
                        forall|k: int| i <= k < 8 ==> #[trigger] classes@[k] == c0[k],
                    decreases n - i
'''})

# ---- register assignment (fn_ty_to_abi) ------------------------------------------------------
u.extract(A, 'enum PassMode', keep_derives=set(), rewrites=[ARRVEC])
IMPLP = ('impl PassMode {', '}')
u.extract(A, 'impl PassMode::fn cast', wrap=IMPLP, rewrites=[ARRVEC], contract='    ensures pm_view(res) == (PMV::Cast { tys: tys@, orig: *orig.0 })')
u.extract(A, 'impl PassMode::fn direct', wrap=IMPLP, contract='    ensures pm_view(res) == PMV::Direct(ty)')
u.extract(A, 'impl PassMode::fn indirect_by_val', wrap=IMPLP, contract='    ensures pm_view(res) == PMV::Indirect(Some(size))')
u.extract(A, 'struct FnAbi', keep_derives=set(), pub_fields=True)
u.extract(A, 'impl FnAbi::fn new', wrap=('impl FnAbi {', '}'), contract='    ensures res.args@.len() == 0, res.ret is None')

u.extract('crates/codegen/src/convert.rs', 'enum FinalTy', keep_derives={'Clone', 'Copy'})
u.extract('crates/codegen/src/convert.rs', 'struct NumberType', keep_derives={'Clone', 'Copy'})
u.raw('''
pub uninterp spec fn tfinal(ty: Ty) -> FinalTy;
pub uninterp spec fn ty_is_aggregate(t: Ty) -> bool;
pub uninterp spec fn ty_zero_sized(t: Ty) -> bool;
impl Ty {
    // ASSUMED names only (bodies are under contract in units memory / not at all)
    #[verifier::external_body]
    pub fn is_aggregate(&self) -> (r: bool) ensures r == ty_is_aggregate(*self) { unimplemented!() }
    #[verifier::external_body]
    pub fn is_zero_sized(&self) -> (r: bool) ensures r == ty_zero_sized(*self) { unimplemented!() }
}
impl Intern<Ty> {
    // `GetFinalTy::get_final_ty`: a table read
    #[verifier::external_body]
    pub fn get_final_ty(&self) -> (r: FinalTy) ensures r == tfinal(*self.0) { unimplemented!() }
}
pub fn usize_to_u16(x: usize) -> (r: u16) requires x <= 0xffff ensures r == x { x as u16 }
pub assume_specification[u32::next_multiple_of](x: u32, m: u32) -> (r: u32)
    requires m > 0, x <= 0xffff_0000, m <= 0x1000
    ensures r >= x, r < x + m, r % m == 0;
''')
u.extract('crates/codegen/src/convert.rs', 'impl FinalTy::fn into_real_type', wrap=('impl FinalTy {', '}'), contract='''
    ensures self is Number ==> res == Some(self->Number_0.ty), self is Pointer ==> res == Some(self->Pointer_0),
        !(self is Number) && !(self is Pointer) ==> res is None
''')
# the closure `push_direct` captures nothing: its body is verified as a function of the same
# name (R5) and its definition is removed from fn_ty_to_abi, whose calls then reach that function
u.extract(X, 'fn fn_ty_to_abi', key='push_direct',
          lift=dict(anchor='let push_direct = |arg: Intern<Ty>, cls: &[_], to: &mut Vec<_>, idx: u16|',
                    sig='fn push_direct(arg: Intern<Ty>, cls: &[Class], to: &mut Vec<(PassMode, u16)>, idx: u16)',
                    why='the body of the capture-free closure `push_direct` of fn_ty_to_abi lifted into a function of the same name and parameter list'),
          contract='''
    requires
        ty_is_aggregate(*arg.0) ==> cls@.len() == 8 && classes_ok(*arg.0, cls@),
        !ty_is_aggregate(*arg.0) ==> has_machine_type(*arg.0),
    ensures
        final(to)@.len() == old(to)@.len() + 1, final(to)@.drop_last() == old(to)@,
        final(to)@.last().1 == idx,
        pm_view(final(to)@.last().0) == in_registers(*arg.0, cls@),
''')

SIG = Rewrite('R4', r'pub fn fn_ty_to_abi\(\(args, ret\): \(&\[ParamTy\], Intern<Ty>\)\) -> FnAbi', 'pub fn fn_ty_to_abi(args: &[ParamTy], ret: Intern<Ty>) -> FnAbi', count=1,
              why='tuple pattern in the parameter list -> two parameters (callers pass a tuple literal)')
NOCLOSURE = Rewrite('R5', r'let push_direct = \|arg: Intern<Ty>, cls: &\[_\], to: &mut Vec<_>, idx: u16\| \{[\s\S]*?\n    \};\n', '', count=1,
                    why='definition of the capture-free closure `push_direct` removed: its body is verified as function push_direct above, which the calls now reach')
TRYINTO = Rewrite('R4', r'idx\.try_into\(\)\.unwrap\(\)', 'usize_to_u16(idx)', count=4, why='`usize -> u16` via TryInto + unwrap -> a function that REQUIRES the value to fit (proved)')
u.extract(X, 'fn fn_ty_to_abi', rewrites=[SIG, NOCLOSURE, TRYINTO], desugar_for={0: ('ai', 'enum_ref'), 1: ('ci', 'val')},
          contract='''
    requires
        args@.len() <= 0xffff, ptr_bytes() == 8,
        !ty_zero_sized(*ret.0) ==> classifiable(*ret.0),
        forall|i: int| 0 <= i < args@.len() && !ty_zero_sized(*(#[trigger] args@[i]).ty.0) ==> classifiable(*args@[i].ty.0),
        !ty_zero_sized(*ret.0) && !ty_is_aggregate(*ret.0) ==> has_machine_type(*ret.0),
        forall|i: int| 0 <= i < args@.len() && !ty_zero_sized(*(#[trigger] args@[i]).ty.0) && !ty_is_aggregate(*args@[i].ty.0) ==> has_machine_type(*args@[i].ty.0),
        forall|i: int| 0 <= i < args@.len() ==> stride_of(*(#[trigger] args@[i]).ty.0) <= 0x4000_0000,
    ensures
        // the return value, then the arguments left to right with the registers that are left
        ret_view(res.ret) == pass_ret(*ret.0).0,
        args_match(res.args@, pass_args(args@, args@.len() as int, pass_ret(*ret.0).1).0),
''', inserts=[
    ('push_direct(arg.ty, &classes, &mut sig.args, usize_to_u16(idx))', 'after', '''; proof {
                        let r0 = pass_ret(*ret.0).1;
                        let prev = pass_args(args@, ai - 1, r0);
                        assert(*arg == args@[ai - 1]);
                        assert(classify_spec(*arg.ty.0) == Some(classes@));
                        assert(needed_int == count_class(classes@, Class::Int, 8));
                        assert(pm_view(sig.args@.last().0) == in_registers(*arg.ty.0, classes@));
                        assert(pass_arg(*arg.ty.0, prev.1).0 == Some(in_registers(*arg.ty.0, classes@)));
                        let p1 = pass_args(args@, ai as int, r0).0;
                        assert(p1 == prev.0.push((in_registers(*arg.ty.0, classes@), (ai - 1) as u16)));
                        assert forall|j: int| 0 <= j < sig.args@.len() implies pm_view(#[trigger] sig.args@[j].0) == p1[j].0 && sig.args@[j].1 == p1[j].1 by {
                            if j < v0.len() { assert(sig.args@[j] == sig.args@.drop_last()[j]); }
                        }
                        assert(args_match(sig.args@, p1));
                    } '''),
    ('push_direct(arg.ty, &classes, &mut sig.args, usize_to_u16(idx))', 'before', 'let ghost v0 = sig.args@; '),
], loops={0: '''
        invariant
            0 <= ai <= it_ai@.len(), it_ai@ == args@, args@.len() <= 0xffff, ptr_bytes() == 8,
            forall|i: int| 0 <= i < args@.len() && !ty_zero_sized(*(#[trigger] args@[i]).ty.0) ==> classifiable(*args@[i].ty.0),
            forall|i: int| 0 <= i < args@.len() && !ty_zero_sized(*(#[trigger] args@[i]).ty.0) && !ty_is_aggregate(*args@[i].ty.0) ==> has_machine_type(*args@[i].ty.0),
            forall|i: int| 0 <= i < args@.len() ==> stride_of(*(#[trigger] args@[i]).ty.0) <= 0x4000_0000,
            ret_view(sig.ret) == pass_ret(*ret.0).0,
            args_match(sig.args@, pass_args(args@, ai as int, pass_ret(*ret.0).1).0),
            (Regs { ints: int_regs as int, sses: sse_regs as int }) == pass_args(args@, ai as int, pass_ret(*ret.0).1).1,
            int_regs <= 6, sse_regs <= 8,
        decreases it_ai@.len() - ai
''', 1: '''
                invariant
                    0 <= ci <= 8, it_ci@ == classes@,
                    needed_int == count_class(classes@, Class::Int, ci as int), needed_sse == count_class(classes@, Class::Sse, ci as int),
                    needed_int <= ci, needed_sse <= ci,
                decreases 8 - ci
'''})

u.expected += ['lemma_merge_laws', 'lemma_merge_closed']

MUTANTS = [
    (X, '(Int, _) | (_, Int) => Int,', '(Int, _) | (_, Int) => Sse,', 'violation'),
    (X, '(class, NoClass) | (NoClass, class) => class,', '(class, NoClass) | (NoClass, class) => NoClass,', 'violation'),
    (X, """            if size < 8 {
                ir::Type::int_with_byte_size((size as u16).next_power_of_two())""", """            if size < 4 {
                ir::Type::int_with_byte_size((size as u16).next_power_of_two())""", 'violation'),
    (X, """                    4 => ir::types::F32,
                    _ => ir::types::F64,""", """                    8 => ir::types::F64,
                    _ => ir::types::F32,""", 'violation'),
    (X, 'let off = i * 8;', 'let off = i * 4;', 'violation'),
    (X, 'if aggr.size() as usize > off {', 'if aggr.size() as usize >= off {', 'violation'),
    (X, '    if n > 2 {\n', '    if n > 3 {\n', 'violation'),
    (X, 'let mut int_regs: usize = 6;', 'let mut int_regs: usize = 5;', 'violation'),
    (X, 'let mut sse_regs: usize = 8;', 'let mut sse_regs: usize = 6;', 'violation'),
    (X, """            int_regs -= 1;
            sig.ret = Some(PassMode::indirect_by_val(ret.size() as usize));""", """            sig.ret = Some(PassMode::indirect_by_val(ret.size() as usize));""", 'violation'),
    (X, 'Class::Int => needed_int += 1,', 'Class::Int | Class::Sse => needed_int += 1,', 'violation'),
    (X, """                (Some(left_int), Some(left_sse)) => {
                    int_regs = left_int;
                    sse_regs = left_sse;""", """                (Some(left_int), Some(left_sse)) => {
                    int_regs = left_int;""", 'violation'),
    (X, """        if arg.ty.is_zero_sized() {
            continue;
        }""", """        if arg.ty.is_zero_sized() {
            int_regs = int_regs.saturating_sub(1);
            continue;
        }""", 'violation'),
    # classification of fields
    (X, 'Ty::Float(_) => classes[offset / 8] = classes[offset / 8].merge_eigthbyte(Sse),', 'Ty::Float(_) => classes[offset / 8] = classes[offset / 8].merge_eigthbyte(Int),', 'violation'),
    (X, '            | Ty::Char\n', '', 'violation'),
    (X, 'offset + (idx * sub_ty.stride() as u64) as usize,', 'offset + (idx * sub_ty.size() as u64) as usize,', 'violation'),
    (X, 'classify_eight_byte(members[field].ty, classes, offset + field_off as usize)', 'classify_eight_byte(members[field].ty, classes, offset)', 'violation'),
    (X, '                classify_eight_byte(error_ty, classes, offset);\n', '', 'violation'),
    (X, 'classes[offset / 8 + 1] = classes[offset / 8 + 1].merge_eigthbyte(Int)\n            }', 'classes[offset / 8 + 1] = classes[offset / 8 + 1].merge_eigthbyte(Sse)\n            }', 'violation'),
    (X, 'Ty::EnumVariant { sub_ty, .. } => classify_eight_byte(sub_ty, classes, offset),', 'Ty::EnumVariant { sub_ty, .. } => classify_eight_byte(sub_ty, classes, offset + 8),', 'violation'),
    (X, '    if n > 8 {\n        return None;', '    if n > 4 {\n        return None;', 'ok'),
    # harmless
    (X, 'println!("no class");', 'println!("no class!");', 'ok'),
    (X, '// (f) Otherwise class SSE is used\n            _ => Class::Sse,', '// (f) Otherwise class SSE is used\n            (_, _) => Class::Sse,', 'ok'),
]

# ---- classification of fields (classify_eight_byte, nested in classify_arg) -------------------
CLONE = Rewrite('R7', r'match \(\*ty\)\.clone\(\) \{', 'match ty_clone(&ty) {', count=1,
                why='`(*ty).clone()` (Deref + Clone of Ty) -> shim returning an equal value (ASSUMED: clone is the identity)')
u.raw('''
#[verifier::external_body]
pub fn ty_clone(t: &Intern<Ty>) -> (r: Ty) ensures r == *t.0 { unimplemented!() }
''')
STEP = '''assert forall|k: int| 0 <= k < 8 implies #[trigger] classes@[k] == psabi_merge(c0[k], eb_parts(*ty.0, (%(i)s + 1) as nat, offset as int, k)) by {
                            assert(cp[k] == psabi_merge(c0[k], eb_parts(*ty.0, %(i)s as nat, offset as int, k)));
                            lemma_merge_laws(c0[k], eb_parts(*ty.0, %(i)s as nat, offset as int, k), %(part)s);
                        }'''
DEFAULT_ARM = Rewrite('R2', r'_ => \{\}', '_ => { proof { lemma_cls_other(*ty.0, offset as int); } }', count=1, why='proof hint placed in the empty default arm (ghost code only)')
u.extract(X, 'fn classify_arg::fn classify_eight_byte', rewrites=[CLONE, DEFAULT_ARM],
          desugar_for={1: ('fi', 'enum_ref'), 2: ('vi', 'val')},
          case_split=['proof { lemma_cls_scalar(*ty.0, offset as int); }', 'proof { lemma_cls_float(*ty.0, offset as int); }',
                      ['proof { lemma_cls_array(*ty.0, offset as int); }', 'proof { lemma_cls_array_step(*ty.0, offset as int, idx as nat); }'],
                      'proof { lemma_cls_two_words(*ty.0, offset as int); }',
                      'proof { lemma_cls_wrapper(*ty.0, offset as int); }',
                      ['proof { lemma_cls_struct(*ty.0, offset as int); }', 'proof { lemma_cls_struct_step(*ty.0, offset as int, fi as int); }'],
                      ['proof { lemma_cls_enum(*ty.0, offset as int); }', 'proof { lemma_cls_enum_step(*ty.0, offset as int, vi as int); }'],
                      'proof { lemma_eu_layout(*ty.0); }',
                      'proof { lemma_opt_layout(*ty.0); if !has_enum_layout(*ty.0) { lemma_cls_optional_ptr(*ty.0, offset as int); } }',
                      'proof { lemma_cls_other(*ty.0, offset as int); }'],
          contract="""
    requires
        lk(*ty.0), offset + tsize(*ty.0) <= 63, ptr_bytes() == 8,
    ensures
        forall|k: int| 0 <= k < 8 ==> #[trigger] final(classes)@[k] == psabi_merge(old(classes)@[k], eb_class(*ty.0, offset as int, k)),
    decreases *ty.0
""",
          inserts=[('@body_start', 'after', ' let ghost c0 = classes@; '),
                   ('@arm:| Ty::File(_)', 'after', ' proof { lemma_cls_scalar(*ty.0, offset as int); } '),
                   ('@arm:Ty::Float(_)', 'after', ' proof { lemma_cls_float(*ty.0, offset as int); } '),
                   ('@arm:Ty::ConcreteArray { sub_ty, size, .. } | Ty::AnonArray { size, sub_ty }', 'after', ' proof { lemma_cls_array(*ty.0, offset as int); } '),
                   ('@arm:Ty::Slice { .. } | Ty::RawSlice | Ty::Any', 'after', ' proof { lemma_cls_two_words(*ty.0, offset as int); } '),
                   ('@arm:Ty::Distinct { sub_ty, .. }', 'after', ' proof { lemma_cls_wrapper(*ty.0, offset as int); } '),
                   ('@arm:Ty::EnumVariant { sub_ty, .. }', 'after', ' proof { lemma_cls_wrapper(*ty.0, offset as int); } '),
                   ('@arm:Ty::ConcreteStruct { members, .. } | Ty::AnonStruct { members }', 'after', ' proof { lemma_cls_struct(*ty.0, offset as int); } '),
                   ('@arm:Ty::Enum { variants, .. }', 'after', ' let ghost mut c2 = classes@; proof { lemma_cls_enum(*ty.0, offset as int); } '),
                   ('@arm:payload_ty,\n            }', 'after', ' let ghost mut c1 = classes@; let ghost mut c2 = classes@; proof { lemma_eu_layout(*ty.0); } '),
                   ('@arm:Ty::Optional { sub_ty }', 'after', ' let ghost mut c1 = classes@; proof { lemma_opt_layout(*ty.0); if !has_enum_layout(*ty.0) { lemma_cls_optional_ptr(*ty.0, offset as int); } } '),
                   # the three loops: snapshot at the head of the body, the step at its end
                   ('@loop_start:0', 'after', ' let ghost cp = classes@; proof { lemma_cls_array_step(*ty.0, offset as int, idx as nat); } '),
                   ('@loop_body_end:0', 'after', """proof {
                        %s
                    }""" % (STEP % dict(i='idx', part='eb_class(*sub_ty.0, offset + idx * stride_of(*sub_ty.0), k)'))),
                   ('@loop_start:1', 'after', ' let ghost cp = classes@; proof { lemma_cls_struct_step(*ty.0, offset as int, fi as int); } '),
                   ('@loop_body_end:1', 'after', """proof {
                        %s
                    }""" % (STEP % dict(i='(fi - 1)', part='eb_class(*members@[fi - 1].ty.0, offset + tstruct(*ty.0).offsets[fi - 1], k)'))),
                   ('@loop_start:2', 'after', ' let ghost cp = classes@; proof { lemma_cls_enum_step(*ty.0, offset as int, vi as int); } '),
                   ('@loop_body_end:2', 'after', """proof {
                        %s
                    }""" % (STEP % dict(i='(vi - 1)', part='eb_class(*it_vi@[vi - 1].0, offset as int, k)'))),
                   # Enum: the tag store after the loop
                   ('@loop_end:2', 'after', ' proof { c2 = classes@; } '),
                   ('@arm_end:Ty::Enum { variants, .. }', 'after', """proof {
                    assert(classes@ =~= c2.update((discrim_offset / 8) as int, psabi_merge(c2[(discrim_offset / 8) as int], Class::Int)));
                    lemma_tag_store(c2, classes@, *ty.0, offset as int, (discrim_offset / 8) as int);
                    assert forall|k: int| 0 <= k < 8 implies #[trigger] classes@[k] == psabi_merge(c0[k], eb_class(*ty.0, offset as int, k)) by {
                        assert(c2[k] == psabi_merge(c0[k], eb_parts(*ty.0, variants_of(*ty.0).len(), offset as int, k)));
                        lemma_merge_laws(c0[k], eb_parts(*ty.0, variants_of(*ty.0).len(), offset as int, k), tag_class(*ty.0, offset as int, k));
                    }
                }"""),
                   # ErrorUnion: two recursive calls, then the tag store
                   ('?@after_stmt:classify_eight_byte(payload_ty', 'after', ' proof { c1 = classes@; } '),
                   ('?@after_stmt:classify_eight_byte(error_ty', 'after', ' proof { c2 = classes@; } '),
                   ('@arm_end:payload_ty,\n            }', 'after', """proof {
                    assert(classes@ =~= c2.update((discrim_offset / 8) as int, psabi_merge(c2[(discrim_offset / 8) as int], Class::Int)));
                    lemma_tag_store(c2, classes@, *ty.0, offset as int, (discrim_offset / 8) as int);
                    assert forall|k: int| 0 <= k < 8 implies #[trigger] classes@[k] == psabi_merge(c0[k], eb_class(*ty.0, offset as int, k)) by {
                        let p = eb_class(*payload_ty.0, offset as int, k); let e = eb_class(*error_ty.0, offset as int, k);
                        assert(c1[k] == psabi_merge(c0[k], p));
                        assert(c2[k] == psabi_merge(c1[k], e));
                        lemma_eu_class(*ty.0, offset as int, k);
                        lemma_merge4(c0[k], p, e, tag_class(*ty.0, offset as int, k));
                    }
                }"""),
                   # Optional with a tag byte: one recursive call, then the tag store
                   ('?@after_stmt:classify_eight_byte(sub_ty, classes, offset);', 'after', ' proof { c1 = classes@; } '),
                   ('@arm_end:Ty::Optional { sub_ty }', 'after', """proof {
                    if has_enum_layout(*ty.0) {
                        let j = (offset + tenum(*ty.0).discriminant_offset) / 8;
                        assert(classes@ =~= c1.update(j, psabi_merge(c1[j], Class::Int)));
                        lemma_tag_store(c1, classes@, *ty.0, offset as int, j);
                        assert forall|k: int| 0 <= k < 8 implies #[trigger] classes@[k] == psabi_merge(c0[k], eb_class(*ty.0, offset as int, k)) by {
                            assert(c1[k] == psabi_merge(c0[k], eb_class(*sub_ty.0, offset as int, k)));
                            lemma_opt_class(*ty.0, offset as int, k);
                            lemma_merge_laws(c0[k], eb_class(*sub_ty.0, offset as int, k), tag_class(*ty.0, offset as int, k));
                        }
                    }
                }"""),
                   ],
          loops={0: ('it', """
                        invariant
                            *ty.0 == (Ty::ConcreteArray { size, sub_ty }) || *ty.0 == (Ty::AnonArray { size, sub_ty }),
                            lk(*ty.0), lk(*sub_ty.0), offset + tsize(*ty.0) <= 63, ptr_bytes() == 8,
                            tsize(*ty.0) == size as nat * stride_of(*sub_ty.0), tsize(*sub_ty.0) <= stride_of(*sub_ty.0),
                            forall|k: int| 0 <= k < 8 ==> #[trigger] classes@[k] == psabi_merge(c0[k], eb_parts(*ty.0, idx as nat, offset as int, k)),
"""), 1: """
                    invariant
                        0 <= fi <= it_fi@.len(), it_fi@.len() == members@.len(),
                        (*ty.0 is ConcreteStruct && (*ty.0)->ConcreteStruct_members == members) || (*ty.0 is AnonStruct && (*ty.0)->AnonStruct_members == members),
                        lk(*ty.0), offset + tsize(*ty.0) <= 63, ptr_bytes() == 8,
                        forall|j: int| 0 <= j < it_fi@.len() ==> #[trigger] it_fi@[j] as nat == tstruct(*ty.0).offsets[j],
                        forall|k: int| 0 <= k < 8 ==> #[trigger] classes@[k] == psabi_merge(c0[k], eb_parts(*ty.0, fi as nat, offset as int, k)),
                    decreases it_fi@.len() - fi
""", 2: """
                    invariant
                        0 <= vi <= it_vi@.len(), *ty.0 is Enum, (*ty.0)->Enum_variants == it_vi,
                        lk(*ty.0), offset + tsize(*ty.0) <= 63, ptr_bytes() == 8, tenum(*ty.0).discriminant_offset + 1 == tsize(*ty.0),
                        forall|k: int| 0 <= k < 8 ==> #[trigger] classes@[k] == psabi_merge(c0[k], eb_parts(*ty.0, vi as nat, offset as int, k)),
                    decreases it_vi@.len() - vi
"""})

# ---- classify_arg as a whole --------------------------------------------------------------------
NONEST = Rewrite('R5', r'    fn classify_eight_byte\(ty: Intern<Ty>, classes: &mut \[Class; 8\], offset: usize\) \{[\s\S]*?\n    \}\n', '', count=1,
                 why='nested fn classify_eight_byte hoisted: it is verified as a function of its own (above), the calls reach it')
DIVCEIL = Rewrite('R4', r'ty\.size\(\)\.div_ceil\(8\)', 'u32_div_ceil(ty.size(), 8)', count=1, why='`u32::div_ceil` -> shim with its documented meaning')
u.raw('''
// "Calculates the quotient of self and rhs, rounding the result towards positive infinity."
pub fn u32_div_ceil(x: u32, d: u32) -> (r: u32)
    requires 0 < d <= 0xffff, x <= 0xffff_0000
    ensures r == (x + d - 1) / (d as int)
{ (x + (d - 1)) / d }
''')
u.extract(X, 'fn classify_arg', rewrites=[NONEST, DIVCEIL, ANY],
          contract='''
    requires classifiable(*ty.0), ptr_bytes() == 8,
    ensures
        res is Some <==> classify_spec(*ty.0) is Some,
        res is Some ==> res->0@ == classify_spec(*ty.0)->0 && classes_ok(*ty.0, res->0@),
''',
          inserts=[('@after_stmt:classify_eight_byte(ty, &mut classes, 0)', 'after', '''
    let ghost c0 = classes@;
    proof {
        assert forall|k: int| 0 <= k < 8 implies #[trigger] c0[k] == eb_class(*ty.0, 0, k) && scalar_class(c0[k]) by { lemma_eb_scalar(*ty.0, 0, k); }
        assert(n as int == (tsize(*ty.0) + 7) / 8);
        assert(n <= 2 <==> tsize(*ty.0) <= 16);
        assert(scalar_class(c0[1]));
    }
'''),
                   ('@after_stmt:let mut classes =', 'after', ' proof { assert forall|k: int| 0 <= k < 8 implies #[trigger] classes@[k] == Class::NoClass by {} } '),
                   ('while i != n && classes[i] == Class::SseUp', 'before', 'let ghost i0 = i; '),
                   ('@loop_end:0', 'after', '''
        proof { assert(classes@ =~= Seq::new(8, |k: int| eb_class(*ty.0, 0, k))); }
''')],
          loops={0: '''
            invariant
                i <= n <= 2, classes@ == c0, forall|k: int| 0 <= k < 8 ==> scalar_class(#[trigger] c0[k]),
            decreases n - i
''', 1: '''
                    invariant i0 <= i <= n <= 2, classes@ == c0, forall|k: int| 0 <= k < 8 ==> scalar_class(#[trigger] c0[k]),
                    decreases n - i
'''})
