"""Unit `abi` (C19): System V x86-64 classification and register assignment."""
from tools.unitapi import Unit, Rewrite, sibling, contract_of

layout = sibling('layout')
X = 'crates/codegen/src/convert/abi/x86_64.rs'
A = 'crates/codegen/src/convert/abi/mod.rs'

UNIT = u = Unit('abi', ['C19'], 'SysV x86-64: merge_eigthbyte, post-merger clean-up, reg_component, split_aggregate, register accounting')
layout.prelude(u)
u.shim('clif_types.rs')
u.shim('abi_deps.rs')
layout.api_stubs(u)
u.extract(X, 'enum Class', keep_derives={'Clone', 'Copy', 'PartialEq', 'Eq'}, wrap=('#[derive(Structural)]', ''))
u.spec('spec.rs')
u.trusted += [
    'the psABI rules as transcribed in units/abi/spec.rs (MEMORY, X87 and vector classes are not represented in the code and not in the spec)',
    'tinyvec::ArrayVec, u16::next_power_of_two, Type::int_with_byte_size as specified in shims/verus/abi_deps.rs and clif_types.rs',
    'Cranelift assigns the registers of the host calling convention to a signature whose parameter types are the ones computed here (to_cl is not under contract)',
]

u.extract(X, 'impl Class::fn merge_eigthbyte', wrap=('impl Class {', '}'), contract='''
    ensures res == psabi_merge(self, other)
''')

PRINTLN = Rewrite('R6', r'println!\([^;]*\);', '', count=None, why='debug output dropped')
TAKEW = Rewrite('R7', r'cls\[\*i \+ 1\.\.\]\s*\.iter\(\)\s*\.take_while\(\|&&c\| c == Class::SseUp\)\s*\.count\(\)', 'count_while(cls, *i + 1, |c: Class| -> (b: bool) ensures b == (c == Class::SseUp) { c == Class::SseUp })', count=1,
                why='`slice[a..].iter().take_while(p).count()` -> shim taking the same predicate (closure parameter pattern `&&c` -> `c: Class`)')
TODO = Rewrite('R6', r'todo!\("vector types"\)', 'proved_unreachable()', count=1, why='`todo!` -> a call whose precondition is `false`: PROVED unreachable')
UNREACH = Rewrite('R6', r'c => unreachable!\("reg_component: unhandled class \{:\?\}", c\),', 'c => proved_unreachable(),', count=1, why='`unreachable!` -> a call whose precondition is `false`: PROVED unreachable')
u.raw('''
#[verifier::external_body]
pub fn proved_unreachable<T>() -> (r: T) requires false { unimplemented!() }
// ASSUMED: `s[from..].iter().take_while(p).count()`: p returned true on the first r
// elements and, unless the slice ended, false on the next one
#[verifier::external_body]
pub fn count_while<F: Fn(Class) -> bool>(s: &[Class], from: usize, p: F) -> (r: usize)
    requires from <= s@.len(), forall|c: Class| call_requires(p, (c,)),
    ensures r <= s@.len() - from,
        forall|k: int| 0 <= k < r ==> call_ensures(p, (#[trigger] s@[from + k],), true),
        from + r < s@.len() ==> call_ensures(p, (s@[from + r],), false),
{ unimplemented!() }
''')
u.extract(X, 'fn reg_component', rewrites=[PRINTLN, TAKEW, TODO, UNREACH], contract='''
    requires
        *old(i) < 8, cls@.len() <= 8, 1 <= size,
        forall|k: int| 0 <= k < cls@.len() ==> scalar_class(#[trigger] cls@[k]),
    ensures
        // no register for padding / past the end
        (*old(i) >= cls@.len() || cls@[*old(i) as int] == Class::NoClass) ==> res is None && *final(i) == *old(i),
        // one register per eightbyte, of the eightbyte's class, wide enough for the bytes left
        (*old(i) < cls@.len() && cls@[*old(i) as int] != Class::NoClass) ==>
            res == Some(eightbyte_reg(cls@[*old(i) as int], size as int)) && *final(i) == *old(i) + 1,
''', inserts=[('@after_stmt:let vec_len =', 'after', '''
            proof {
                // no field of a capy type is a vector: the eightbyte after an SSE one is never SSEUP
                if vec_len > 1 { assert(scalar_class(cls@[*i + 1 + 0])); }
            }
''')])

ARRVEC = Rewrite('R4', r'ArrayVec<\[Type; 4\]>', 'ArrayVec4', count=None, why='tinyvec::ArrayVec<[Type; 4]> -> shim type (fixed capacity 4)')
ARRNEW = Rewrite('R4', r'array_vec!\(\)', 'ArrayVec4::new()', count=1, why='tinyvec macro `array_vec!()` -> shim constructor')
TYANN = Rewrite('R4', r'let mut tys = ArrayVec4::new\(\);', 'let mut tys: ArrayVec4 = ArrayVec4::new();', count=1, why='type annotation')
u.extract(X, 'fn split_aggregate', rewrites=[PRINTLN, ARRVEC, ARRNEW], contract='''
    requires
        // an aggregate that classify_arg decided to pass in registers: 1..=16 bytes, at most
        // two eightbytes, the first of them not padding
        1 <= tsize(*aggr.0) <= 16, cls@.len() == 8,
        forall|k: int| 0 <= k < 8 ==> scalar_class(#[trigger] cls@[k]),
        cls@[0] != Class::NoClass,
        tsize(*aggr.0) > 8 ==> cls@[1] != Class::NoClass,
    ensures
        res@ == psabi_regs(cls@[0], cls@[1], tsize(*aggr.0) as int),
''')

# ---- post-merger clean-up (R5: the tail of classify_arg lifted) ------------------------------
ANY = Rewrite('R7', r'classes\[1\.\.n\]\.iter\(\)\.any\(\|&class\| class != Class::SseUp\)', 'any_in(&classes, 1, n, |class: Class| -> (b: bool) ensures b == (class != Class::SseUp) { class != Class::SseUp })', count=1,
              why='`slice[a..b].iter().any(p)` -> shim taking the same predicate (closure parameter pattern `&class` -> `class: Class`)')
ATTR = Rewrite('R1', r'#\[allow\(clippy::if_same_then_else\)\]', '', count=1, why='lint attribute dropped')
u.raw('''
// ASSUMED: `s[a..b].iter().any(p)`
#[verifier::external_body]
pub fn any_in<F: Fn(Class) -> bool>(s: &[Class; 8], a: usize, b: usize, p: F) -> (r: bool)
    requires a <= b <= 8, forall|c: Class| call_requires(p, (c,)),
    ensures r ==> exists|k: int| a <= k < b && call_ensures(p, (#[trigger] s@[k],), true),
        !r ==> forall|k: int| a <= k < b ==> call_ensures(p, (#[trigger] s@[k],), false),
{ unimplemented!() }
''')
u.extract(X, 'fn classify_arg', key='post_merge', rewrites=[ANY],
          lift=dict(start_at='if n > 2 {', end_at='Some(classes)\n    }',
                    sig='fn post_merge(mut classes: [Class; 8], n: usize) -> (res: Option<[Class; 8]>)',
                    why='the tail of classify_arg after the recursive classification (the psABI "post merger cleanup") lifted into a function'),
          contract='''
    requires n <= 8
    ensures
        // "(c) If the size of the aggregate exceeds two eightbytes and the first eightbyte isn't
        //  SSE or any other eightbyte isn't SSEUP, the whole argument is passed in memory."
        n > 2 ==> (res is Some <==> (classes@[0] == Class::Sse && forall|k: int| 1 <= k < n ==> #[trigger] classes@[k] == Class::SseUp)),
        n > 2 && res is Some ==> res->0@ == classes@,
        // "(d) If SSEUP is not preceded by SSE or SSEUP, it is converted to SSE."
        n <= 2 ==> res is Some && forall|k: int| 0 <= k < 8 ==> #[trigger] res->0@[k] == cleaned(classes@, n as int, k),
''',
          inserts=[('@body_start', 'after', ' let ghost c0 = classes@; '),
                   ('while i != n && classes[i] == Class::SseUp', 'before', 'let ghost i0 = i; ')],
          loops={0: '''
            invariant
                i <= n <= 8, c0.len() == 8,
                forall|k: int| 0 <= k < i ==> #[trigger] classes@[k] == cleaned(c0, n as int, k),
                forall|k: int| i < k < 8 ==> #[trigger] classes@[k] == c0[k],
                i < 8 ==> classes@[i as int] == c0[i as int]
                    || (i < n && c0[i as int] == Class::SseUp && classes@[i as int] == Class::Sse && (i == 0 || !(c0[i - 1] == Class::Sse || c0[i - 1] == Class::SseUp))),
                // an SSEUP met here is not the continuation of an SSE run
                0 < i < n && classes@[i as int] == Class::SseUp ==> !(c0[i - 1] == Class::Sse || c0[i - 1] == Class::SseUp),
            decreases 2 * (n - i) + (if i < n && classes@[i as int] == Class::SseUp { 1int } else { 0int })
''', 1: '''
                    invariant
                        1 <= i0 <= i <= n <= 8, c0.len() == 8,
                        c0[i - 1] == Class::Sse || c0[i - 1] == Class::SseUp,
                        forall|k: int| 0 <= k < i ==> #[trigger] classes@[k] == cleaned(c0, n as int, k),
                        forall|k: int| i <= k < 8 ==> #[trigger] classes@[k] == c0[k],
                    decreases n - i
'''})

# ---- register assignment (fn_ty_to_abi) ------------------------------------------------------
u.extract(A, 'enum PassMode', keep_derives=set(), rewrites=[ARRVEC])
IMPLP = ('impl PassMode {', '}')
u.extract(A, 'impl PassMode::fn cast', wrap=IMPLP, rewrites=[ARRVEC], contract='    ensures pm_view(res) == (PMV::Cast { tys: tys@, orig: *orig.0 })')
u.extract(A, 'impl PassMode::fn direct', wrap=IMPLP, contract='    ensures pm_view(res) == PMV::Direct(ty)')
u.extract(A, 'impl PassMode::fn indirect_by_val', wrap=IMPLP, contract='    ensures pm_view(res) == PMV::Indirect(Some(size))')
u.extract(A, 'struct FnAbi', keep_derives=set(), pub_fields=True)
u.extract(A, 'impl FnAbi::fn new', wrap=('impl FnAbi {', '}'), contract='    ensures res.args@.len() == 0, res.ret is None')
