"""Unit `literal_exec` (C09, value clause): bounded stand-in that prints literals through the
compiler built from the tree: every spelling (decimal, `_` separators, `e` exponents, hex with
lower / upper case digits and leading zeros, binary) of 0, 1, small values and the boundary
values of every width, annotated at a type that holds them, unannotated where the default type
holds them, and inside arithmetic; every char and string escape.  What is printed must be the
value the literal spells.  BOUNDED."""
from tools.unitapi import Unit
from tools import execdriver

UNIT = u = Unit('literal_exec', ['C09'], 'bounded: literals in every spelling printed by a compiled program, compared with the value they spell')
u.expected = ['lower_int_literal']
u.trusted += ['BOUNDED stand-in (not a proof): values 0, 1, 7, 10, 11, 176, 177, 183, 2989, 48879, 1000, 12000 and MAX-1 / MAX / MAX+1 of the widths 8..64 (where they are below 2^64), 2^31, 2^32, 2^63; spellings: decimal, separators, exponent (multiples of 10^k), hex lower / upper / zero-padded, binary plain / zero-padded; 12 char escapes, 12 string escapes; float literals are not covered (the printing routine rounds); core.println and the host linker are trusted']


def spellings(v):
    out = [str(v)]
    s = str(v)
    if len(s) > 3:
        out.append('_'.join([s[max(0, i - 3):i] for i in range(len(s), 0, -3)][::-1]))
    # exponent forms for multiples of ten
    k = 0
    m = v
    while m and m % 10 == 0:
        m //= 10
        k += 1
        out.append('%de%d' % (m, k))
    out.append('0x%x' % v)
    out.append('0x%X' % v)
    out.append('0x0%x' % v)
    out.append('0x00%X' % v)
    out.append('0b' + bin(v)[2:])
    out.append('0b0' + bin(v)[2:])
    return out


def gen():
    small = [0, 1, 7, 10, 11, 176, 177, 183, 2989, 48879, 1000, 12000]
    bounds = []
    for w in (8, 16, 32, 64):
        for mx in ((1 << (w - 1)) - 1, (1 << w) - 1):
            for v in (mx - 1, mx, mx + 1):
                if v < (1 << 64):
                    bounds.append(v)
    bounds += [1 << 31, 1 << 32, 1 << 63]
    values = sorted(set(small + bounds))
    src = ['core :: #mod("core");', '']
    main = ['main :: () {']
    exp = []
    n = 0
    src.append('ints :: () {')
    exp.append('# ints')
    for v in values:
        for sp in spellings(v):
            n += 1
            src.append('    a%d : u64 = %s; core.println(a%d);' % (n, sp, n))
            exp.append(str(v))
            if v < (1 << 31) - 1:
                # no annotation: the default type holds the value; and inside arithmetic
                src.append('    b%d := %s; core.println(b%d, " ", %s + 1);' % (n, sp, n, sp))
                exp.append('%d %d' % (v, v + 1))
    src.append('}')
    src.append('')
    main.append('    core.println("# ints");')
    main.append('    ints();')
    # globals
    exp.append('# globals')
    main.append('    core.println("# globals");')
    g = 0
    for v in (0, 177, 48879, 255, 65535):
        for sp in spellings(v)[:1] + spellings(v)[-6:]:
            g += 1
            src.append('G%d : u64 : %s;' % (g, sp))
            main.append('    core.println(G%d);' % g)
            exp.append(str(v))
    # chars: the byte value of every escape
    esc = [('0', 0), ('a', 7), ('b', 8), ('n', 10), ('f', 12), ('r', 13), ('t', 9), ('v', 11), ('e', 27), ("'", 39), ('"', 34), ('\\', 92)]
    exp.append('# chars')
    main.append('    core.println("# chars");')
    for c, val in esc:
        main.append("    core.println(u8.('\\%s'));" % c)
        exp.append(str(val))
    for ch in 'aZ09 ~':
        main.append("    core.println(u8.('%s'));" % ch)
        exp.append(str(ord(ch)))
    # strings: the bytes of every escape, read back through a slice of the string's bytes
    src.append('bytes :: (s: str, n: usize) {')
    src.append('    p := core.ptr.to_slice(^u8.(rawptr.(s)), n);' if False else '    p := (^[64]u8).(rawptr.(s));')
    src.append('    i : usize = 0;')
    src.append('    while i < n { core.println(p[i]); i = i + 1; }')
    src.append('}')
    exp.append('# strings')
    main.append('    core.println("# strings");')
    body = ''.join('\\' + c for c, _ in esc) + 'x'
    main.append('    bytes("%s", %d);' % (body, len(esc) + 1))
    for _, val in esc:
        exp.append(str(val))
    exp.append(str(ord('x')))
    main.append('}')
    return ('literals', '\n'.join(src + main) + '\n', exp)


def runner(unit, prop, repo, scratch, tier):
    return execdriver.run_cases(unit, prop, repo, scratch, tier, [gen()], 'lower_int_literal',
                                'every integer literal (decimal, separators, exponents, hex, binary), char literal and string literal denotes exactly the value it spells and keeps it at run time, annotated or not',
                                'all spellings of 12 small and 27 boundary values, annotated at u64, unannotated and in arithmetic below 2^31, as globals; 18 char literals; one string with every escape',
                                # every literal of the program fits its type: a diagnostic about a literal is the violation
                                rejection_violates=lambda lines: any('literal' in ln and ('out of range' in ln or 'too big' in ln or 'too large' in ln) for ln in lines))


u.runner = runner

B = 'crates/hir/src/body.rs'
MUTANTS = [
    (B, 'let value = hex.text(self.tree).strip_prefix("0x").unwrap();', 'let value = hex.text(self.tree).trim_start_matches([\'0\', \'x\', \'b\']);', 'violation'),
]
