"""Unit `index_exec` (C10): bounded stand-in that compiles one generated program with the
compiler built from the tree and runs it once per (access kind, index): arrays, slices,
pointers to arrays and nested arrays are read and written with every runtime index in
[0, len + 4]; enums, optionals and error unions are `#unwrap`ped with the matching and every
non-matching variant.  In range: exactly that element is read / written (the other elements and
two guard locals keep their values).  Out of range / wrong variant: the message is printed, the
exit status is 1 and nothing after the access runs.  BOUNDED."""
from tools.unitapi import Unit
from tools import execdriver

UNIT = u = Unit('index_exec', ['C10'], 'bounded: one generated program run per (access kind, index): in-range accesses are exact, out-of-range ones abort with status 1')
u.expected = ['compile_expr_with_args']
u.trusted += ['BOUNDED stand-in (not a proof): [4]u32 / []u32 / ^mut [4]u32 / [3][4]u32, read and write, indices 0..len+4 of type usize and u8; arrays of zero-sized elements (directly and through a pointer); #unwrap of a 3-variant enum, ?u32, ?^u32 and str!u32; that no out-of-range access happens BEFORE the abort is observed only as: no crash, guards intact, nothing printed after the access; the host linker and core.println are trusted']

ARR = [10, 11, 12, 13]
NEST = [[0, 1, 2, 3], [10, 11, 12, 13], [20, 21, 22, 23]]

PROGRAM = '''core :: #mod("core");

E :: enum { A: u32, B: u64, C };
Z :: struct {};

idx_of :: (i: usize) -> usize {
    core.println("index evaluated");
    i
}

show :: (a: [4]u32, before: u32, after: u32) {
    core.println("wrote ", a[0], " ", a[1], " ", a[2], " ", a[3], " ", before, " ", after);
}

main :: () {
    n := core.args.len - 1;
    kind := n / 16;
    i := n % 16;
    before : u32 = 111;
    arr := u32.[10, 11, 12, 13];
    after : u32 = 222;
    nest := [3][4]u32.(.[.[0, 1, 2, 3], .[10, 11, 12, 13], .[20, 21, 22, 23]]);
    sl := []u32.(arr);
    p := ^mut arr;
    i8v := u8.(i);
    target : u32 = 5;
    core.println("start");
    if kind == 0 {
        v := arr[i];
        core.println("read ", v);
    } else if kind == 1 {
        arr[i] = 99;
        show(arr, before, after);
    } else if kind == 2 {
        v := sl[i];
        core.println("read ", v);
    } else if kind == 3 {
        sl[i] = 99;
        show(arr, before, after);
    } else if kind == 4 {
        v := p[i];
        core.println("read ", v);
    } else if kind == 5 {
        p[i] = 99;
        show(arr, before, after);
    } else if kind == 6 {
        v := nest[1][i];
        core.println("read ", v);
    } else if kind == 7 {
        v := nest[i][1];
        core.println("read ", v);
    } else if kind == 8 {
        nest[1][i] = 99;
        core.println("wrote ", nest[0][3], " ", nest[1][0], " ", nest[1][1], " ", nest[1][2], " ", nest[1][3], " ", nest[2][0]);
    } else if kind == 9 {
        v := arr[i8v];
        core.println("read ", v);
    } else if kind == 10 {
        e : E = if i == 0 { E.A.(5) } else if i == 1 { E.B.(6) } else { E.C.(()) };
        v := #unwrap(e, E.A);
        core.println("unwrapped ", v);
    } else if kind == 11 {
        e : E = if i == 0 { E.A.(5) } else if i == 1 { E.B.(6) } else { E.C.(()) };
        v := #unwrap(e, E.B);
        core.println("unwrapped ", v);
    } else if kind == 12 {
        o : ?u32 = if i == 0 { 7 } else { nil };
        v := #unwrap(o, u32);
        core.println("unwrapped ", v);
    } else if kind == 13 {
        o : ?u32 = if i == 0 { 7 } else { nil };
        #unwrap(o, nil);
        core.println("unwrapped nil");
    } else if kind == 14 {
        o : ?^u32 = if i == 0 { ^target } else { nil };
        v := #unwrap(o, ^u32);
        core.println("unwrapped ", v^);
    } else if kind == 15 {
        good : str!u32 = 8; bad : str!u32 = "bad";
        r := if i == 0 { good } else { bad };
        v := #unwrap(r, u32);
        core.println("unwrapped ", v);
    } else if kind == 16 {
        good : str!u32 = 8; bad : str!u32 = "bad";
        r := if i == 0 { good } else { bad };
        v := #unwrap(r, str);
        core.println("unwrapped ", v);
    } else if kind == 19 {
        v := sl[2];
        core.println("read ", v);
    } else if kind == 20 {
        v := sl[6];
        core.println("read ", v);
    } else if kind == 21 {
        sl[6] = 99;
        show(arr, before, after);
    } else if kind == 22 {
        ps := ^sl;
        v := ps[4];
        core.println("read ", v);
    } else if kind == 17 {
        zs : [3]Z;
        v := zs[idx_of(i)];
        core.println("read zero-sized");
    } else if kind == 18 {
        zs : [3]Z;
        pz := ^zs;
        v := pz[i];
        core.println("read zero-sized");
    }
}
'''


def ok_lines(expected):
    def judge(code, lines):
        if code != 0:
            return 'an in-range access / matching unwrap must succeed'
        if lines != ['start'] + expected:
            return 'expected %r' % (['start'] + expected)
        return None
    return judge


def abort(msg):
    def judge(code, lines):
        if code != 1:
            return 'must exit with status 1'
        if not lines or lines[0] != 'start':
            return 'the program did not start'
        if any(ln.startswith(('read', 'wrote', 'unwrapped')) for ln in lines):
            return 'the statement after the access ran'
        if not any(msg in ln for ln in lines):
            return 'the message %r was not printed' % msg
        return None
    return judge


def wrote(a, i, guards=True):
    b = list(a)
    b[i] = 99
    return 'wrote ' + ' '.join(str(x) for x in b) + (' 111 222' if guards else '')


def runs():
    rs = []

    def add(kind, i, judge, label):
        rs.append((kind * 16 + i, judge, 'kind %d (%s) index %d' % (kind, label, i)))
    for i in range(0, 9):
        inr = i < 4
        add(0, i, ok_lines(['read %d' % ARR[i]]) if inr else abort('index out of bounds'), 'array read')
        add(1, i, ok_lines([wrote(ARR, i)]) if inr else abort('index out of bounds'), 'array write')
        add(2, i, ok_lines(['read %d' % ARR[i]]) if inr else abort('index out of bounds'), 'slice read')
        add(3, i, ok_lines([wrote(ARR, i)]) if inr else abort('index out of bounds'), 'slice write')
        add(4, i, ok_lines(['read %d' % ARR[i]]) if inr else abort('index out of bounds'), 'pointer-to-array read')
        add(5, i, ok_lines([wrote(ARR, i)]) if inr else abort('index out of bounds'), 'pointer-to-array write')
        add(6, i, ok_lines(['read %d' % NEST[1][i]]) if inr else abort('index out of bounds'), 'nested inner read')
        add(9, i, ok_lines(['read %d' % ARR[i]]) if inr else abort('index out of bounds'), 'array read, u8 index')
        if inr:
            row = [NEST[0][3]] + NEST[1] + [NEST[2][0]]
            row[1 + i] = 99
            add(8, i, ok_lines(['wrote ' + ' '.join(str(x) for x in row)]), 'nested inner write')
        else:
            add(8, i, abort('index out of bounds'), 'nested inner write')
    for i in range(0, 8):
        add(7, i, ok_lines(['read %d' % NEST[i][1]]) if i < 3 else abort('index out of bounds'), 'nested outer read')
    for i in range(0, 8):
        # elements without bytes: nothing is loaded, but the index is evaluated and checked all the same
        add(17, i, ok_lines(['index evaluated', 'read zero-sized']) if i < 3 else abort('index out of bounds'), 'array of zero-sized elements')
        add(18, i, ok_lines(['read zero-sized']) if i < 3 else abort('index out of bounds'), 'pointer to an array of zero-sized elements')
    # literal indices into slices: nothing checks them at compile time, so the runtime check must
    add(19, 0, ok_lines(['read %d' % ARR[2]]), 'slice read, literal index in range')
    add(20, 0, abort('index out of bounds'), 'slice read, literal index out of range')
    add(21, 0, abort('index out of bounds'), 'slice write, literal index out of range')
    add(22, 0, abort('index out of bounds'), 'pointer-to-slice read, literal index out of range')
    for i in range(0, 3):
        add(10, i, ok_lines(['unwrapped 5']) if i == 0 else abort('#unwrap'), 'enum unwrap A')
        add(11, i, ok_lines(['unwrapped 6']) if i == 1 else abort('#unwrap'), 'enum unwrap B')
    for i in range(0, 2):
        add(12, i, ok_lines(['unwrapped 7']) if i == 0 else abort('#unwrap'), 'optional unwrap payload')
        add(13, i, ok_lines(['unwrapped nil']) if i == 1 else abort('#unwrap'), 'optional unwrap nil')
        add(14, i, ok_lines(['unwrapped 5']) if i == 0 else abort('#unwrap'), 'nullable pointer unwrap')
        add(15, i, ok_lines(['unwrapped 8']) if i == 0 else abort('#unwrap'), 'error union unwrap payload')
        add(16, i, ok_lines(['unwrapped bad']) if i == 1 else abort('#unwrap'), 'error union unwrap error')
    return rs


def runner(unit, prop, repo, scratch, tier):
    rs = runs()
    return execdriver.run_arg_cases(unit, prop, repo, scratch, tier, 'index_cases', PROGRAM, rs, 'compile_expr_with_args',
                                    'an index >= the length (a #unwrap of another variant) prints the message and exits with status 1 before anything else happens; an in-range index reads / writes exactly that element',
                                    '%d runs: 10 indexed accesses x indices 0..len+4, 7 #unwrap forms x every variant' % len(rs))


u.runner = runner

F = 'crates/codegen/src/compiler/functions.rs'
MUTANTS = [
    (F, '.icmp(IntCC::UnsignedLessThan, naive_index, len);', '.icmp(IntCC::UnsignedLessThanOrEqual, naive_index, len);', 'violation'),
    (F, 'let exit_code = self.builder.ins().iconst(types::I32, 1);', 'let exit_code = self.builder.ins().iconst(types::I32, 0);', 'violation'),
]
