// Specification for C10: "every array or slice index is checked at runtime: an index greater
// than or equal to the length prints an 'index out of bounds' message and exits with status 1
// before any out-of-range read or write happens, and an in-range index reads or writes exactly
// that element.  #unwrap of a value whose variant differs from the requested one aborts the
// same way".  Ghost code only.

/// events that are visible from outside: calls, traps and stores
pub open spec fn loud(e: Ev) -> bool { e is Call || e is Trap || e is Write }
/// the loud events emitted since position `from`, in order
pub open spec fn loud_since(log: Seq<Ev>, from: int) -> Seq<Ev> decreases log.len() {
    if log.len() <= from || log.len() == 0 { Seq::empty() } else {
        let r = loud_since(log.drop_last(), from);
        if loud(log.last()) { r.push(log.last()) } else { r }
    }
}
pub proof fn lemma_loud_push(log: Seq<Ev>, from: int, e: Ev)
    requires 0 <= from <= log.len()
    ensures loud_since(log.push(e), from) == if loud(e) { loud_since(log, from).push(e) } else { loud_since(log, from) }
{
    assert(log.push(e).drop_last() =~= log);
    assert(log.push(e).last() == e);
}
pub proof fn lemma_loud_none(log: Seq<Ev>)
    ensures loud_since(log, log.len() as int) == Seq::<Ev>::empty()
{
}

/// "prints a message and exits with status 1": a call of puts, then exit(1), then a trap
pub open spec fn is_abort_sequence(evs: Seq<Ev>) -> bool {
    &&& evs.len() == 3
    &&& evs[0] is Call && evs[0]->Call_name == "puts"@
    &&& evs[1] == (Ev::Call { name: "exit"@, args: seq![Den::Int { bits: 32, val: 1 }] })
    &&& evs[2] is Trap
}
/// every loud event since `from` was emitted where `c` is known to hold
pub open spec fn loud_guarded_by(log: Seq<Ev>, guards: Seq<Seq<Cond>>, from: int, c: Cond) -> bool {
    forall|i: int| from <= i < log.len() && loud(#[trigger] log[i]) ==> guards[i].contains(c)
}

/// every event has its guard stamp
pub open spec fn cf_wf(b: FunctionBuilder) -> bool {
    b.guards@.len() == b.log@.len() && (forall|k: int| b.pending@.dom().contains(k) ==> #[trigger] b.blocks@.contains(k))
}
/// edges recorded earlier are still there
pub open spec fn pending_extends(p0: Map<int, Seq<Cond>>, p1: Map<int, Seq<Cond>>) -> bool {
    forall|k: int| p0.dom().contains(k) ==> p1.dom().contains(k) && #[trigger] p1[k] == p0[k]
}
pub proof fn lemma_loud_skip(log: Seq<Ev>, from: int)
    requires 0 <= from < log.len(), !loud(log[from])
    ensures loud_since(log, from) == loud_since(log, from + 1)
    decreases log.len()
{
    if log.len() == from + 1 {
        assert(loud_since(log.drop_last(), from) == Seq::<Ev>::empty());
    } else {
        lemma_loud_skip(log.drop_last(), from);
    }
}
pub open spec fn log_extends(old_log: Seq<Ev>, new_log: Seq<Ev>) -> bool {
    old_log.len() <= new_log.len() && forall|i: int| #![trigger new_log[i]] #![trigger old_log[i]] 0 <= i < old_log.len() ==> new_log[i] == old_log[i]
}
pub open spec fn log_extends_g(old_log: Seq<Seq<Cond>>, new_log: Seq<Seq<Cond>>) -> bool {
    old_log.len() <= new_log.len() && forall|i: int| #![trigger new_log[i]] #![trigger old_log[i]] 0 <= i < old_log.len() ==> new_log[i] == old_log[i]
}

// ---- indexing ------------------------------------------------------------------------------
pub open spec fn arr_len(t: Ty) -> Option<nat> {
    match spec_abs(t) {
        Ty::AnonArray { size, sub_ty } => Some(size as nat),
        Ty::ConcreteArray { size, sub_ty } => Some(size as nat),
        _ => None,
    }
}
pub open spec fn elem_of(t: Ty) -> Ty {
    match spec_abs(t) {
        Ty::AnonArray { size, sub_ty } => *sub_ty.0,
        Ty::ConcreteArray { size, sub_ty } => *sub_ty.0,
        Ty::Slice { sub_ty } => *sub_ty.0,
        _ => Ty::Void,
    }
}
/// the index as the guard sees it: the value read by its OWN type's signedness, as an
/// unsigned 64-bit number (a negative index becomes a huge one and fails the check)
pub open spec fn idx64(t: NumberType, d: Den) -> nat { tc(64, int_value(t, d)) }

pub open spec fn final_bytes(f: FinalTy) -> int {
    match f { FinalTy::Number(nt) => nt.ty.bits_ as int / 8, FinalTy::Pointer(t) => t.bits_ as int / 8, _ => 0 }
}
pub open spec fn no_reads_since(log: Seq<Ev>, from: int) -> bool {
    forall|i: int| from <= i < log.len() ==> !(#[trigger] log[i] is Read)
}
pub proof fn lemma_u64_i64_roundtrip(x: u64)
    ensures tc(64, (x as i64) as int) == x
{
    assert(pow2(64) == 0x1_0000_0000_0000_0000) by (compute);
    if x < 0x8000_0000_0000_0000 {
        assert((x as i64) as int == x as int) by (bit_vector) requires x < 0x8000_0000_0000_0000u64;
    } else {
        assert((x as i64) as int == x as int - 0x1_0000_0000_0000_0000) by (bit_vector) requires x >= 0x8000_0000_0000_0000u64;
        assert((x as int - 0x1_0000_0000_0000_0000) % 0x1_0000_0000_0000_0000 == x as int) by (nonlinear_arith)
            requires 0x8000_0000_0000_0000 <= (x as int), (x as int) < 0x1_0000_0000_0000_0000;
    }
}
/// C10 for one index expression.  `len` is the length the guard compares with, `data` the
/// address of element 0.
pub open spec fn index_guarded(b0: FunctionBuilder, b1: FunctionBuilder, idx: nat, len: nat, data: Den,
                               source_ty: Ty, source: Value, no_load: bool, res: Value) -> bool {
    let n0 = b0.log@.len() as int;
    let ok = Cond { v: Den::Int { bits: 8, val: b2n(idx < len) }, truth: true };
    let bad = Cond { v: Den::Int { bits: 8, val: b2n(idx < len) }, truth: false };
    let stride = stride_of(elem_of(source_ty));
    let elem_off = data->Addr_off + tc(64, (idx * stride) as int);
    &&& data is Addr
    // an array's length is the one of its type and its elements start at its address; a
    // slice's length and element address are what its two words hold
    &&& arr_len(source_ty) is Some ==> len == arr_len(source_ty)->0 && data == source.den@
    &&& !(arr_len(source_ty) is Some) ==> exists|k: int, k2: int| n0 <= k && n0 <= k2
            && (Den::Int { bits: 64, val: len }) == #[trigger] load_den(ptr_base(source), ptr_off(source), 64, k)
            && data == #[trigger] load_den(ptr_base(source), ptr_off(source) + 8, 64, k2)
    // everything after the guard runs only when idx < len (unsigned)
    &&& b1.facts@ == b0.facts@.push(ok)
    // "prints a message and exits with status 1", and only when !(idx < len)
    &&& is_abort_sequence(loud_since(b1.log@, n0))
    &&& loud_guarded_by(b1.log@, b1.guards@, n0, bad)
    &&& log_extends(b0.log@, b1.log@)
    // reads: the two words of the slice value, or -- guarded -- exactly element idx
    &&& forall|i: int| n0 <= i < b1.log@.len() && #[trigger] b1.log@[i] is Read ==> {
            ||| (!(arr_len(source_ty) is Some) && b1.log@[i]->Read_base == ptr_base(source)
                    && ptr_off(source) <= b1.log@[i]->Read_lo && b1.log@[i]->Read_hi <= ptr_off(source) + 16)
            ||| (b1.guards@[i].contains(ok) && b1.log@[i]->Read_base == data->Addr_base && b1.log@[i]->Read_lo == elem_off
                    && b1.log@[i]->Read_hi == elem_off + final_bytes(tfinal(elem_of(source_ty))))
        }
    // the result is element idx (its address, or the value loaded from there)
    &&& (no_load || ty_is_aggregate(elem_of(source_ty)) ==> res.den@ == (Den::Addr { base: data->Addr_base, off: elem_off }))
}
/// for an in-range index of an array whose size is in the domain, that is exactly element idx:
/// no wrap-around, and the element lies inside the array
pub proof fn lemma_in_range_exact(idx: nat, len: nat, stride: nat)
    requires idx < len, len * stride < 0x1_0000_0000_0000_0000
    ensures tc(64, (idx * stride) as int) == idx * stride, idx * stride + stride <= len * stride
{
    assert(pow2(64) == 0x1_0000_0000_0000_0000) by (compute);
    assert(idx * stride + stride == (idx + 1) * stride) by (nonlinear_arith);
    assert((idx + 1) * stride <= len * stride) by (nonlinear_arith) requires idx + 1 <= len;
    assert((idx * stride) as int % 0x1_0000_0000_0000_0000 == idx * stride) by (nonlinear_arith)
        requires 0 <= idx * stride < 0x1_0000_0000_0000_0000;
}
/// quiet events (no call, trap or store) after `la` do not change what was loud
pub proof fn lemma_loud_quiet_suffix(la: Seq<Ev>, lb: Seq<Ev>, from: int)
    requires log_extends(la, lb), 0 <= from <= la.len(), forall|i: int| la.len() <= i < lb.len() ==> !loud(#[trigger] lb[i])
    ensures loud_since(lb, from) == loud_since(la, from)
    decreases lb.len()
{
    if lb.len() == la.len() { assert(lb =~= la); }
    else {
        assert(log_extends(la, lb.drop_last()));
        lemma_loud_quiet_suffix(la, lb.drop_last(), from);
        assert(!loud(lb[lb.len() - 1]));
    }
}
pub proof fn lemma_loud_skip_range(log: Seq<Ev>, from: int, to: int)
    requires 0 <= from <= to <= log.len(), forall|i: int| from <= i < to ==> !loud(#[trigger] log[i])
    ensures loud_since(log, from) == loud_since(log, to)
    decreases to - from
{
    if from < to {
        if to == log.len() { lemma_loud_all_quiet(log, from); lemma_loud_none(log); }
        else { lemma_loud_skip(log, from); lemma_loud_skip_range(log, from + 1, to); }
    }
}
pub proof fn lemma_loud_all_quiet(log: Seq<Ev>, from: int)
    requires 0 <= from <= log.len(), forall|i: int| from <= i < log.len() ==> !loud(#[trigger] log[i])
    ensures loud_since(log, from) == Seq::<Ev>::empty()
    decreases log.len()
{
    if from < log.len() { lemma_loud_all_quiet(log.drop_last(), from); }
}

// ---- #unwrap -------------------------------------------------------------------------------
/// C10 for `#unwrap` of a tagged sum value: the stored tag byte is compared with the
/// discriminant of the requested variant; a different tag aborts, and the payload is read only
/// behind the check.
pub open spec fn unwrap_guarded(b0: FunctionBuilder, b1: FunctionBuilder, tag: Den, desired: u64, sum_ty: Ty, sum_val: Value) -> bool {
    let n0 = b0.log@.len() as int;
    let want = tc(8, (desired as i64) as int);
    let tag_off = ptr_off(sum_val) + tenum(sum_ty).discriminant_offset;
    let ok = Cond { v: Den::Int { bits: 8, val: b2n(tag->Int_val == want) }, truth: true };
    let bad = Cond { v: Den::Int { bits: 8, val: b2n(tag->Int_val == want) }, truth: false };
    &&& tag is Int && tag->Int_bits == 8
    // the tag is the byte at the discriminant offset of the sum type's layout
    &&& exists|k: int| n0 <= k && tag == #[trigger] load_den(ptr_base(sum_val), tag_off, 8, k)
    &&& b1.facts@ == b0.facts@.push(ok)
    &&& is_abort_sequence(loud_since(b1.log@, n0))
    &&& loud_guarded_by(b1.log@, b1.guards@, n0, bad)
    &&& log_extends(b0.log@, b1.log@)
    // reads: the tag byte, or -- behind the check -- the payload
    &&& forall|i: int| n0 <= i < b1.log@.len() && #[trigger] b1.log@[i] is Read ==> {
            ||| (b1.log@[i]->Read_base == ptr_base(sum_val) && b1.log@[i]->Read_lo == tag_off && b1.log@[i]->Read_hi == tag_off + 1)
            ||| (b1.guards@[i].contains(ok) && b1.log@[i]->Read_base == ptr_base(sum_val))
        }
}
pub proof fn lemma_extends_trans(a: Seq<Ev>, b: Seq<Ev>, c: Seq<Ev>)
    requires log_extends(a, b), log_extends(b, c)
    ensures log_extends(a, c)
{
    assert forall|i: int| 0 <= i < a.len() implies #[trigger] c[i] == a[i] by { assert(b[i] == a[i]); assert(c[i] == b[i]); }
}
