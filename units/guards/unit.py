"""Unit `guards` (C10): the runtime checks in front of indexing and #unwrap."""
from tools.unitapi import Unit, Rewrite, sibling, contract_of

layout = sibling('layout')
numeric = sibling('numeric')
CV = 'crates/codegen/src/convert.rs'
M = 'crates/codegen/src/compiler/mod.rs'
T = 'crates/hir/src/common/ty.rs'
B = 'crates/hir/src/body.rs'
F = 'crates/codegen/src/compiler/functions.rs'

UNIT = u = Unit('guards', ['C10'], 'bounds / variant checks: compile_unreachable, compile_unreachablez, the guard of Expr::Index')
layout.prelude(u)
u.shim('clif.rs')
u.shim('clif_cf.rs')
layout.api_stubs(u)
u.raw('use vstd::string::*;')
# the numeric vocabulary (index widening is proved in unit numeric and used here as a stub)
u.extract(B, 'enum BinaryOp', keep_derives={'Clone', 'Copy', 'PartialEq', 'Eq'},
          wrap=('pub mod hir {\nuse vstd::prelude::*;', '}'))
u.extract(CV, 'enum FinalTy', keep_derives={'Clone', 'Copy'})
u.extract(CV, 'struct NumberType', keep_derives={'Clone', 'Copy'})
u.shim('final_tables.rs')
u.parts.append(('spec', numeric.UNIT.dir + '/defs.rs'))
u.spec('spec.rs')
u.raw('''
// shims for the parts of FunctionCompiler / Module these functions touch (ASSUMED)
impl Module {
    #[verifier::external_body]
    pub fn declare_func_in_func(&mut self, f: FuncId, func: FuncHandle) -> (r: FuncRef) ensures r.name@ == f.name@ { unimplemented!() }
    #[verifier::external_body]
    pub fn declare_data_in_func(&mut self, d: DataId, func: FuncHandle) -> (r: GlobalValue) { unimplemented!() }
}
pub struct FunctionCompiler { pub builder: FunctionBuilder, pub module: Module, pub ptr_ty: types::Type }
#[derive(Clone, Copy)]
pub struct ExprIdx { pub i: u32 }
pub uninterp spec fn expr_ty(e: ExprIdx) -> Ty;
impl FunctionCompiler {
    // the typing table `self.tys[self.loc][expr]` (read only)
    #[verifier::external_body]
    pub fn ty_of(&self, e: ExprIdx) -> (r: Intern<Ty>) ensures *r.0 == expr_ty(e) { unimplemented!() }
}
pub fn verus_assert(b: bool) requires b {}
#[verifier::external_body]
pub fn opaque_str() -> &'static str { unimplemented!() }
// ASSUMED (not under contract): taking the payload out of a sum value reads at most the
// payload, at the current insertion point, and emits nothing else
#[verifier::external_body]
pub fn unwrap_sum_ty(builder: &mut FunctionBuilder, union_ptr: Value, union_ty: Intern<Ty>, payload_ty: Intern<Ty>) -> (r: Option<Value>)
    ensures
        final(builder).log@ == old(builder).log@ && final(builder).guards@ == old(builder).guards@
        || (final(builder).log@.len() == old(builder).log@.len() + 1 && final(builder).log@.drop_last() == old(builder).log@
            && final(builder).log@.last() is Read && final(builder).log@.last()->Read_base == ptr_base(union_ptr)
            && final(builder).guards@ == old(builder).guards@.push(old(builder).facts@)),
        final(builder).facts == old(builder).facts, final(builder).pending == old(builder).pending,
        final(builder).blocks == old(builder).blocks, final(builder).slots == old(builder).slots,
{ unimplemented!() }
pub uninterp spec fn ty_is_aggregate(t: Ty) -> bool;
impl Ty {
    // ASSUMED (body proved against its own spec in unit memory; only the name is needed here)
    #[verifier::external_body]
    pub fn is_aggregate(&self) -> (r: bool) ensures r == ty_is_aggregate(*self) { unimplemented!() }
}
impl FunctionCompiler {
    // declares (once) an imported function of that name
    #[verifier::external_body]
    pub fn get_or_create_extern_func_id(&mut self, name: &str, params: Vec<AbiParam>, returns: Vec<AbiParam>) -> (r: FuncId)
        ensures r.name@ == name@, final(self).builder == old(self).builder, final(self).ptr_ty == old(self).ptr_ty
    { unimplemented!() }
    #[verifier::external_body]
    pub fn create_global_str(&mut self, text: String) -> (r: DataId)
        ensures final(self).builder == old(self).builder, final(self).ptr_ty == old(self).ptr_ty
    { unimplemented!() }
}
#[verifier::external_body]
pub fn opaque_string() -> String { unimplemented!() }
''')
u.trusted += [
    'Cranelift control flow as specified in shims/verus/clif_cf.rs: facts of a block = facts of its single incoming edge (brif -> switch_to_block -> seal_block pattern)',
    'libc puts / exit behave as documented; the message text itself (format!) is not under contract',
    'the recursive compile_expr calls that produce the array/slice value and the index value are outside (their results are parameters of the lifted range)',
    'the compile-time IndexOutOfBounds diagnostic for literal indices (inside infer_expr) is not covered',
]

FMT = Rewrite('R6', r'let mut msg = format!\([\s\S]*?\n        \);', 'let mut msg = opaque_string();', count=1,
              why='message text is not part of any contract')
MODREF = Rewrite('R4', r'self\.module\.', 'self.module.', count=None, why='(no change) `module` is an owned shim here, a `&mut dyn Module` field in the real struct')
IMPLF = ('impl FunctionCompiler {', '}')
C_UNREACHABLE = '''
    requires cf_wf(old(self).builder)
    ensures
        // "prints a message and exits with status 1": puts, exit(1), trap -- and nothing else
        // that is visible (no store)
        is_abort_sequence(loud_since(final(self).builder.log@, old(self).builder.log@.len() as int)),
        cf_wf(final(self).builder),
        final(self).builder.facts == old(self).builder.facts,
        final(self).builder.pending == old(self).builder.pending,
        final(self).builder.blocks == old(self).builder.blocks, final(self).builder.slots == old(self).builder.slots,
        log_extends_g(old(self).builder.guards@, final(self).builder.guards@),
        final(self).ptr_ty == old(self).ptr_ty,
        log_extends(old(self).builder.log@, final(self).builder.log@),
        no_reads_since(final(self).builder.log@, old(self).builder.log@.len() as int),
        // everything was emitted at the current insertion point
        forall|i: int| old(self).builder.log@.len() <= i < final(self).builder.log@.len()
            ==> #[trigger] final(self).builder.guards@[i] == old(self).builder.facts@,
'''
u.extract(F, "impl FunctionCompiler<'_>::fn compile_unreachable", wrap=IMPLF, rewrites=[FMT], contract=C_UNREACHABLE,
          inserts=[('@body_start', 'after', ' let ghost l0 = self.builder.log@; '),
                   ('@after_stmt:let string =', 'after', ' let ghost l1 = self.builder.log@; '),
                   ('@after_stmt:self.builder.ins().call(puts', 'after', ' let ghost l2 = self.builder.log@; '),
                   ('@after_stmt:let exit_code =', 'after', ' let ghost l3 = self.builder.log@; '),
                   ('@after_stmt:self.builder.ins().call(exit', 'after', ' let ghost l4 = self.builder.log@; '),
                   ('@body_end', 'after', '''
        proof {
            let n = l0.len() as int;
            lemma_loud_none(l0);
            lemma_loud_push(l0, n, l1.last()); assert(l1 =~= l0.push(l1.last()));
            lemma_loud_push(l1, n, l2.last()); assert(l2 =~= l1.push(l2.last()));
            lemma_loud_push(l2, n, l3.last()); assert(l3 =~= l2.push(l3.last()));
            lemma_loud_push(l3, n, l4.last()); assert(l4 =~= l3.push(l4.last()));
            let l5 = self.builder.log@;
            lemma_loud_push(l4, n, l5.last()); assert(l5 =~= l4.push(l5.last()));
            assert(pow2(32) == 0x1_0000_0000) by (compute);
            let evs = loud_since(l5, n);
            assert(evs =~= seq![l2.last(), l4.last(), l5.last()]);
            assert(types::I32.bits_ == 32);
            assert(tc(32, 1) == 1);
            assert(exit_code.den@ == (Den::Int { bits: 32, val: 1 }));
            assert(l4.last()->Call_args.len() == 1);
            assert(l4.last()->Call_args[0] == exit_code.den@);
            assert(l4.last()->Call_args =~= seq![Den::Int { bits: 32, val: 1 }]);
        }
''')])

NAMES = Rewrite('R6', r'self\.func_writer\[\w+\] = "[^"]*"\.into\(\);', '', count=None, why='debug names of blocks (func_writer) are not part of any contract')
BRIF = Rewrite('R4', r'self\s*\.builder\s*\.ins\(\)\s*\.brif\(', 'self.builder.brif(', count=None,
               why='brif updates the edge facts of the builder, so the shim has it as a builder method (see shims/verus/clif_cf.rs)')
C_UNREACHABLEZ = '''
    requires cf_wf(old(self).builder)
    ensures
        cf_wf(final(self).builder),
        // the code that follows runs only when the condition is non-zero
        final(self).builder.facts@ == old(self).builder.facts@.push(Cond { v: condition.den@, truth: true }),
        // the only visible thing emitted is the abort sequence, and it runs only when the condition is zero
        is_abort_sequence(loud_since(final(self).builder.log@, old(self).builder.log@.len() as int)),
        loud_guarded_by(final(self).builder.log@, final(self).builder.guards@, old(self).builder.log@.len() as int, Cond { v: condition.den@, truth: false }),
        log_extends(old(self).builder.log@, final(self).builder.log@),
        no_reads_since(final(self).builder.log@, old(self).builder.log@.len() as int),
        log_extends_g(old(self).builder.guards@, final(self).builder.guards@),
        pending_extends(old(self).builder.pending@, final(self).builder.pending@),
        final(self).ptr_ty == old(self).ptr_ty, final(self).builder.slots == old(self).builder.slots,
'''
u.extract(F, "impl FunctionCompiler<'_>::fn compile_unreachablez", wrap=IMPLF, rewrites=[NAMES, BRIF], contract=C_UNREACHABLEZ,
          inserts=[('@after_stmt:self.builder.brif(', 'after', ' let ghost l1 = self.builder.log@; '),
                   ('@after_stmt:self.builder.seal_block(fail)', 'after', ' let ghost ff = self.builder.facts@; '),
                   ('@body_end', 'after', '''
        proof {
            let n = old(self).builder.log@.len() as int;
            lemma_loud_skip(self.builder.log@, n);
            let c = Cond { v: condition.den@, truth: false };
            assert(ff =~= old(self).builder.facts@.push(c));
            assert(ff[ff.len() - 1] == c);
            assert forall|i: int| n <= i < self.builder.log@.len() && loud(#[trigger] self.builder.log@[i]) implies self.builder.guards@[i].contains(c) by {
                if i == n { assert(self.builder.log@[i] == l1[i]); } else { assert(self.builder.guards@[i] == ff); }
            }
        }
''')])

# ---- the accessors the guard relies on, verbatim -------------------------------------------
IMPLT = ('impl Ty {', '}')
u.extract(T, 'impl Ty::fn as_array', wrap=IMPLT, contract='''
    ensures res is Some <==> arr_len(*self) is Some,
        res is Some ==> (res->0).0 as nat == arr_len(*self)->0 && *((res->0).1).0 == elem_of(*self),
''')
u.extract(T, 'impl Ty::fn is_array', wrap=IMPLT, contract='    ensures res == (arr_len(*self) is Some)')
u.extract(T, 'impl Ty::fn is_slice', wrap=IMPLT, contract='    ensures res == (spec_abs(*self) is Slice || spec_abs(*self) is RawSlice)')
u.extract(CV, 'impl FinalTy::fn into_real_type', wrap=('impl FinalTy {', '}'), contract='''
    ensures self is Number ==> res == Some(self->Number_0.ty), self is Pointer ==> res == Some(self->Pointer_0),
        !(self is Number) && !(self is Pointer) ==> res is None
''')
u.extract(M, 'fn cast_ty_to_cranelift', contract=contract_of(numeric.UNIT, 'cast_ty_to_cranelift'), stub='numeric')

# ---- the guard of Expr::Index (R5: statement range of compile_expr_with_args lifted) --------
TYS = Rewrite('R4', r'self\.tys\[self\.loc\]\[expr\]', 'self.ty_of(expr)', count=1, why='typing table lookup -> shim `ty_of` (uninterpreted expr_ty)')
SUPER = Rewrite('R4', r'super::cast_ty_to_cranelift\(', 'cast_ty_to_cranelift(', count=1, why='module path dropped (single file)')
ASSERT = Rewrite('R6', r'assert!\(source_ty\.is_slice\(\)\);', 'verus_assert(source_ty.is_slice());', count=1,
                 why='`assert!` -> a call whose precondition is the asserted condition: the assertion is PROVED not to fire')
TAILBIND = Rewrite('R8', r'\n(\s*)if no_load \|\| element_ty\.is_aggregate\(\) \{', r'\n\1let res_tail = if no_load || element_ty.is_aggregate() {', count=1,
                   why='the tail expression of the lifted range is bound to a name so that the proof block can follow it (`let res_tail = <tail>; proof {..} res_tail`)')
INDEX_PROOF = '''
        ;
        proof {
            let n0 = b0.log@.len() as int;
            let nt = tfinal(*index_ty.0)->Number_0;
            let idx = idx64(nt, index.den@);
            let lenv = len.den@->Int_val;
            let b7 = self.builder;
            assert(naive_index.den@ == (Den::Int { bits: 64, val: idx }));
            assert(pow2(64) == 0x1_0000_0000_0000_0000) by (compute);
            assert(len.den@ is Int && len.den@->Int_bits == 64);
            assert(is_good_index.den@ == (Den::Int { bits: 8, val: b2n(idx < lenv) }));
            let ok = Cond { v: Den::Int { bits: 8, val: b2n(idx < lenv) }, truth: true };
            let bad = Cond { v: Den::Int { bits: 8, val: b2n(idx < lenv) }, truth: false };
            // the abort sequence: quiet events before the guard, quiet events after it
            lemma_loud_quiet_suffix(b4.log@, b7.log@, b3.log@.len() as int);
            lemma_loud_skip_range(b7.log@, n0, b3.log@.len() as int);
            assert(b7.facts@ == b0.facts@.push(ok));
            assert(b7.facts@[b7.facts@.len() - 1] == ok);
            let data = source.den@;
            let sty = *source_ty.0;
            let stride = stride_of(elem_of(sty));
            let elem_off = data->Addr_off + tc(64, (idx * stride) as int);
            assert(data is Addr);
            if arr_len(sty) is Some { lemma_u64_i64_roundtrip(arr_len(sty)->0 as u64); }
            assert(arr_len(sty) is Some ==> lenv == arr_len(sty)->0 && data == src0.den@);
            assert(!(arr_len(sty) is Some) ==> exists|k: int, k2: int| n0 <= k && n0 <= k2
                && (Den::Int { bits: 64, val: lenv }) == #[trigger] load_den(ptr_base(src0), ptr_off(src0), 64, k)
                && data == #[trigger] load_den(ptr_base(src0), ptr_off(src0) + 8, 64, k2));
            assert(is_abort_sequence(loud_since(b7.log@, n0)));
            assert(loud_guarded_by(b7.log@, b7.guards@, n0, bad));
            assert(log_extends(b0.log@, b7.log@));
            assert(no_load || ty_is_aggregate(elem_of(sty)) ==> res_tail->0.den@ == (Den::Addr { base: data->Addr_base, off: elem_off }));
            assert(forall|i: int| n0 <= i < b7.log@.len() && #[trigger] b7.log@[i] is Read ==> {
            ||| (!(arr_len(sty) is Some) && b7.log@[i]->Read_base == ptr_base(src0)
                    && ptr_off(src0) <= b7.log@[i]->Read_lo && b7.log@[i]->Read_hi <= ptr_off(src0) + 16)
            ||| (b7.guards@[i].contains(ok) && b7.log@[i]->Read_base == data->Addr_base && b7.log@[i]->Read_lo == elem_off
                    && b7.log@[i]->Read_hi == elem_off + final_bytes(tfinal(elem_of(sty))))
            });
            assert(index_guarded(b0, b7, idx, lenv, source.den@, *source_ty.0, src0, no_load, res_tail->0));
        }
        res_tail
'''
C_INDEX = '''
    requires
        cf_wf(old(self).builder), old(self).ptr_ty == types::I64,
        // path condition of the arm (assumed): the source is an array or a slice, `expr` has
        // its element type, the operands carry their types
        arr_len(*source_ty.0) is Some || spec_abs(*source_ty.0) is Slice,
        // the element has bytes (for a zero-sized element the arm returns right after the guard:
        // that path is covered by the bounded unit index_exec only)
        !element_is_zero_sized,
        expr_ty(expr) == elem_of(*source_ty.0), entry_ok(elem_of(*source_ty.0)),
        tfinal(*index_ty.0) is Number, nt_wf(tfinal(*index_ty.0)->Number_0), !tfinal(*index_ty.0)->Number_0.float,
        den_of(tfinal(*index_ty.0)->Number_0, index.den@),
        source.den@ is Addr,
        // a slice value holds its length and then the address of its first element
        spec_abs(*source_ty.0) is Slice ==> forall|k: int| is_int_of(#[trigger] load_den(ptr_base(source), ptr_off(source), 64, k), 64),
        spec_abs(*source_ty.0) is Slice ==> forall|k: int| #[trigger] load_den(ptr_base(source), ptr_off(source) + 8, 64, k) is Addr,
        stride_of(elem_of(*source_ty.0)) < 0x4000_0000,
        // a value that is not an aggregate has a machine type
        !ty_is_aggregate(elem_of(*source_ty.0)) ==> tfinal(elem_of(*source_ty.0)) is Number || tfinal(elem_of(*source_ty.0)) is Pointer,
    ensures
        cf_wf(final(self).builder),
        res is Some,
        exists|len: nat, data: Den| #[trigger] index_guarded(
            old(self).builder, final(self).builder, idx64(tfinal(*index_ty.0)->Number_0, index.den@), len, data,
            *source_ty.0, source, no_load, res->0),
'''
u.extract(F, "impl FunctionCompiler<'_>::fn compile_expr_with_args", key='index_guard', wrap=IMPLF,
          rewrites=[TYS, SUPER, ASSERT, TAILBIND],
          lift=dict(start_at='let naive_index =',
                    end_at='final_addr,\n                        0,\n                    ))\n                }',
                    sig='''fn index_guard(&mut self, source: Value, source_ty: Intern<Ty>, index: Value, index_ty: Intern<Ty>,
                           expr: ExprIdx, no_load: bool, element_is_zero_sized: bool) -> (res: Option<Value>)''',
                    tail=INDEX_PROOF,
                    why='the part of the `Expr::Index` arm of compile_expr_with_args after both operands have been compiled, lifted into a method; assumed path condition: source is the address of the array / slice value, index the index value'),
          inserts=[('@body_start', 'after', ' let ghost src0 = source; let ghost b0 = self.builder; '),
                   ('@after_stmt:let naive_index =', 'after', ' let ghost b1 = self.builder; '),
                   ('@after_stmt:let (len, source) =', 'after', ' let ghost b2 = self.builder; '),
                   ('@after_stmt:let is_good_index =', 'after', ' let ghost b3 = self.builder; '),
                   ('@after_stmt:self.compile_unreachablez(', 'after', ' let ghost b4 = self.builder; '),
                   ('@after_stmt:let final_addr =', 'after', ' let ghost b6 = self.builder; ')],
          contract=C_INDEX)

# ---- the guard of #unwrap on a tagged sum type (R5: statement range lifted) ----------------
NOPANIC = Rewrite('R6', r'\.enum_layout\(\)\.unwrap_or_else\(\|\| \{[\s\S]*?\n\s*\}\);', '.enum_layout().unwrap();', count=1,
                  why='`unwrap_or_else(|| panic!(msg))` -> `unwrap()`: the message is dropped, the Option must be PROVED to be Some')
MSG = Rewrite('R6', r'Some\(&format!\(\s*"called #unwrap[\s\S]*?\n\s*\)\),', 'Some(opaque_str()),', count=1, why='message text is not part of any contract')
SUPER2 = Rewrite('R4', r'super::unwrap_sum_ty\(', 'unwrap_sum_ty(', count=1, why='module path dropped (single file)')
UNWRAP_PROOF = '''
        ;
        proof {
            let n0 = b0.log@.len() as int;
            let b7 = self.builder;
            let want = tc(8, (desired_discrim as i64) as int);
            assert(discrim.den@ is Int && discrim.den@->Int_bits == 8);
            let tagv = discrim.den@->Int_val;
            let ok = Cond { v: Den::Int { bits: 8, val: b2n(tagv == want) }, truth: true };
            let bad = Cond { v: Den::Int { bits: 8, val: b2n(tagv == want) }, truth: false };
            assert(is_correct_discrim.den@ == ok.v);
            // the log, step by step
            assert(b1.log@ =~= b0.log@.push(b1.log@.last()));
            assert(b3.log@ =~= b1.log@.push(b3.log@.last()));
            assert(b3.log@.last() is Pure);
            assert(b3.log@.len() == n0 + 2);
            assert(b3.log@[n0] == b1.log@[n0]);
            lemma_extends_trans(b0.log@, b3.log@, b4.log@);
            assert(log_extends(b4.log@, b7.log@));
            lemma_extends_trans(b0.log@, b4.log@, b7.log@);
            lemma_extends_trans(b3.log@, b4.log@, b7.log@);
            assert(b7.log@[n0] == b3.log@[n0] && b7.log@[n0 + 1] == b3.log@[n0 + 1]);
            assert forall|i: int| b4.log@.len() <= i < b7.log@.len() implies !loud(#[trigger] b7.log@[i]) by {}
            lemma_loud_quiet_suffix(b4.log@, b7.log@, b3.log@.len() as int);
            assert forall|i: int| n0 <= i < b3.log@.len() implies !loud(#[trigger] b7.log@[i]) by {}
            lemma_loud_skip_range(b7.log@, n0, b3.log@.len() as int);
            assert(b7.facts@ == b0.facts@.push(ok));
            assert(b7.facts@[b7.facts@.len() - 1] == ok);
            assert(b4.facts@[b4.facts@.len() - 1] == ok);
            let tag = discrim.den@;
            let tag_off = ptr_off(sum_val) + tenum(*sum_ty.0).discriminant_offset;
            assert(enum_layout.view() == tenum(*sum_ty.0));
            assert(b1.log@.last() == (Ev::Read { base: ptr_base(sum_val), lo: tag_off, hi: tag_off + 1 }));
            assert(tag == load_den(ptr_base(sum_val), tag_off, 8, n0));
            assert(exists|k: int| n0 <= k && tag == #[trigger] load_den(ptr_base(sum_val), tag_off, 8, k));
            assert(is_abort_sequence(loud_since(b7.log@, n0)));
            assert forall|i: int| n0 <= i < b7.log@.len() && loud(#[trigger] b7.log@[i]) implies b7.guards@[i].contains(bad) by {
                if i < b3.log@.len() {} else if i < b4.log@.len() { assert(b7.log@[i] == b4.log@[i]); assert(b7.guards@[i] == b4.guards@[i]); } else {}
            }
            assert(loud_guarded_by(b7.log@, b7.guards@, n0, bad));
            assert(log_extends(b0.log@, b7.log@));
            assert forall|i: int| n0 <= i < b7.log@.len() && #[trigger] b7.log@[i] is Read implies ({
                ||| (b7.log@[i]->Read_base == ptr_base(sum_val) && b7.log@[i]->Read_lo == tag_off && b7.log@[i]->Read_hi == tag_off + 1)
                ||| (b7.guards@[i].contains(ok) && b7.log@[i]->Read_base == ptr_base(sum_val))
            }) by {
                if i >= b4.log@.len() { assert(b7.guards@[i] == b4.facts@); }
                else if i >= b3.log@.len() { assert(b7.log@[i] == b4.log@[i]); }
                else if i == n0 { } else { assert(i == n0 + 1); }
            }
            assert(unwrap_guarded(b0, b7, discrim.den@, desired_discrim, *sum_ty.0, sum_val));
        }
        res_tail
'''
TAILBIND2 = Rewrite('R8', r'\n(\s*)unwrap_sum_ty\(&mut self\.builder, sum_val, sum_ty, variant_ty\)\s*$', r'\n\1let res_tail = unwrap_sum_ty(&mut self.builder, sum_val, sum_ty, variant_ty)', count=1,
                    why='the tail expression of the lifted range is bound to a name so that the proof block can follow it')
C_UNWRAP = '''
    requires
        cf_wf(old(self).builder), ptr_bytes_spec() == 8,
        // path condition (assumed): a tagged sum type, its value in memory at sum_val
        has_enum_layout(*sum_ty.0), sum_val.den@ is Addr,
        tenum(*sum_ty.0).discriminant_offset < 0x4000_0000,
    ensures
        cf_wf(final(self).builder),
        exists|tag: Den| #[trigger] unwrap_guarded(old(self).builder, final(self).builder, tag, desired_discrim, *sum_ty.0, sum_val),
'''
u.extract(F, "impl FunctionCompiler<'_>::fn compile_expr_with_args", key='unwrap_guard', wrap=IMPLF,
          rewrites=[NOPANIC, MSG, SUPER2, TAILBIND2],
          lift=dict(start_at='let enum_layout = sum_ty.enum_layout().unwrap_or_else(|| {',
                    end_at='super::unwrap_sum_ty(&mut self.builder, sum_val, sum_ty, variant_ty)',
                    sig='''fn unwrap_guard(&mut self, sum_val: Value, sum_ty: Intern<Ty>, variant_ty: Intern<Ty>, desired_discrim: u64) -> (res: Option<Value>)''',
                    tail=UNWRAP_PROOF,
                    why='the tagged-union branch of the `#unwrap` directive in compile_expr_with_args (after the operand has been compiled and the discriminant of the requested variant looked up) lifted into a method'),
          inserts=[('@body_start', 'after', ' let ghost b0 = self.builder; '),
                   ('@after_stmt:let discrim =', 'after', ' let ghost b1 = self.builder; '),
                   ('@after_stmt:let is_correct_discrim =', 'after', ' let ghost b3 = self.builder; '),
                   ('@after_stmt:self.compile_unreachablez(', 'after', ' let ghost b4 = self.builder; ')],
          contract=C_UNWRAP)

u.expected += ['lemma_in_range_exact', 'lemma_loud_push', 'lemma_loud_skip', 'lemma_loud_quiet_suffix', 'lemma_loud_skip_range', 'lemma_u64_i64_roundtrip']
u.fn_props = {}

MUTANTS = [
    (F, '.icmp(IntCC::UnsignedLessThan, naive_index, len);', '.icmp(IntCC::SignedLessThan, naive_index, len);', 'violation'),
    (F, '.icmp(IntCC::UnsignedLessThan, naive_index, len);', '.icmp(IntCC::UnsignedLessThanOrEqual, naive_index, len);', 'violation'),
    (F, '.icmp(IntCC::UnsignedLessThan, naive_index, len);', '.icmp(IntCC::UnsignedLessThan, index, len);', 'violation'),
    (F, 'self.builder.ins().brif(condition, pass, &[], fail, &[]);', 'self.builder.ins().brif(condition, fail, &[], pass, &[]);', 'violation'),
    (F, 'let exit_code = self.builder.ins().iconst(types::I32, 1);', 'let exit_code = self.builder.ins().iconst(types::I32, 0);', 'violation'),
    (F, '.imul_imm(naive_index, element_ty.stride() as i64);', '.imul_imm(naive_index, element_ty.align_shift() as i64);', 'violation'),
    (F, '.imul_imm(naive_index, element_ty.stride() as i64);', '.imul_imm(index, element_ty.stride() as i64);', 'violation'),
    # the guard emitted after the element address has been used: the abort call disappears from the fail block
    (F, '        self.compile_unreachable(message);\n\n        self.builder.switch_to_block(pass);', '        self.builder.switch_to_block(pass);', 'violation'),
    (F, """                        let is_correct_discrim = self.builder.ins().icmp_imm(
                            IntCC::Equal,
                            discrim,
                            desired_discrim as i64,
                        );

                        self.compile_unreachablez(""", """                        let is_correct_discrim = self.builder.ins().icmp_imm(
                            IntCC::NotEqual,
                            discrim,
                            desired_discrim as i64,
                        );

                        self.compile_unreachablez(""", 'violation'),
    (F, """                            enum_layout.discriminant_offset() as i32,
                        );

                        let is_correct_discrim = self.builder.ins().icmp_imm(
                            IntCC::Equal,
                            discrim,
                            desired_discrim as i64,
                        );

                        self.compile_unreachablez(""", """                            0,
                        );

                        let is_correct_discrim = self.builder.ins().icmp_imm(
                            IntCC::Equal,
                            discrim,
                            desired_discrim as i64,
                        );

                        self.compile_unreachablez(""", 'violation'),
    # harmless edits must not alarm
    (F, '"array index out of bounds"', '"index out of bounds (array)"', 'ok'),
    (F, 'self.func_writer[pass] = "unreachable_check_okay".into();', 'self.func_writer[pass] = "check_okay".into();', 'ok'),
]
