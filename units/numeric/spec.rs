// Specification for C08 (and the defaulting clause of C09), written from the property
// statement: two's-complement arithmetic over mathematical integers.  Ghost code only.

pub open spec fn nt_wf(t: NumberType) -> bool {
    t.float == t.ty.is_float &&
    // floats are "signed" in every FinalTy the compiler builds (convert::calc_single)
    (t.float ==> (t.ty.bits_ == 32 || t.ty.bits_ == 64) && t.signed) &&
    (!t.float ==> (t.ty.bits_ == 8 || t.ty.bits_ == 16 || t.ty.bits_ == 32 || t.ty.bits_ == 64 || t.ty.bits_ == 128))
}
pub open spec fn den_of(t: NumberType, d: Den) -> bool {
    if t.float { is_float_of(d, t.ty.bits_ as nat) } else { is_int_of(d, t.ty.bits_ as nat) }
}
/// the mathematical integer a value of integer type `t` stands for
pub open spec fn int_value(t: NumberType, d: Den) -> int {
    if t.signed { sint(t.ty.bits_ as nat, d->Int_val) } else { d->Int_val as int }
}
pub open spec fn fits(t: NumberType, v: int) -> bool {
    if t.signed { -(pow2((t.ty.bits_ - 1) as nat) as int) <= v < pow2((t.ty.bits_ - 1) as nat) }
    else { 0 <= v < pow2(t.ty.bits_ as nat) }
}

/// C08: "Explicit and implicit numeric casts truncate, sign-extend or zero-extend according
/// to the source type.  Integer-to-float conversion yields the nearest representable float of
/// the integer's full value, and float-to-integer conversion truncates toward zero whenever
/// the result fits the target type."
pub open spec fn lang_cast_ok(from: NumberType, to: NumberType, d: Den, r: Den) -> bool {
    if !from.float && !to.float {
        // the source value (read by the SOURCE type's signedness), reduced modulo 2^to
        r == (Den::Int { bits: to.ty.bits_ as nat, val: tc(to.ty.bits_ as nat, int_value(from, d)) })
    } else if !from.float && to.float {
        r == (Den::Float { bits: to.ty.bits_ as nat, f: round_int(to.ty.bits_ as nat, int_value(from, d)) })
    } else if from.float && !to.float {
        is_int_of(r, to.ty.bits_ as nat)
        && (fits(to, ftrunc(d->Float_f)) ==> r->Int_val == tc(to.ty.bits_ as nat, ftrunc(d->Float_f)))
    } else {
        // float to float: same width is the identity, otherwise IEEE widening / narrowing
        if from.ty.bits_ == to.ty.bits_ { r == d }
        else if from.ty.bits_ < to.ty.bits_ { r == (Den::Float { bits: to.ty.bits_ as nat, f: fpromote_s(to.ty.bits_ as nat, d->Float_f) }) }
        else { r == (Den::Float { bits: to.ty.bits_ as nat, f: fdemote_s(to.ty.bits_ as nat, d->Float_f) }) }
    }
}

/// operators `compile_num_binary` may be asked for (the checker never sends the others)
pub open spec fn admissible(op: hir::BinaryOp, float: bool) -> bool {
    !(op is LAnd) && !(op is LOr) && (float ==> !(op is Mod) && !(op is LShift) && !(op is RShift))
}

/// C08: "+, -, * wrap modulo 2^width, / and % truncate toward zero (for nonzero divisors
/// without signed overflow), &, |, ~ act bitwise, and >> and the comparisons follow the operand
/// type's signedness."
pub open spec fn lang_bin_int(op: hir::BinaryOp, t: NumberType, a: nat, b: nat, r: Den) -> bool {
    let w = t.ty.bits_ as nat;
    let va = if t.signed { sint(w, a) } else { a as int };
    let vb = if t.signed { sint(w, b) } else { b as int };
    match op {
        hir::BinaryOp::Add => r == (Den::Int { bits: w, val: tc(w, va + vb) }),
        hir::BinaryOp::Sub => r == (Den::Int { bits: w, val: tc(w, va - vb) }),
        hir::BinaryOp::Mul => r == (Den::Int { bits: w, val: tc(w, va * vb) }),
        hir::BinaryOp::Div => r is Int && r->Int_bits == w && (vb != 0 ==> r->Int_val == tc(w, tdiv(va, vb))),
        hir::BinaryOp::Mod => r is Int && r->Int_bits == w && (vb != 0 ==> r->Int_val == tc(w, trem(va, vb))),
        hir::BinaryOp::Lt => r == (Den::Int { bits: 8, val: b2n(va < vb) }),
        hir::BinaryOp::Gt => r == (Den::Int { bits: 8, val: b2n(va > vb) }),
        hir::BinaryOp::Le => r == (Den::Int { bits: 8, val: b2n(va <= vb) }),
        hir::BinaryOp::Ge => r == (Den::Int { bits: 8, val: b2n(va >= vb) }),
        hir::BinaryOp::Eq => r == (Den::Int { bits: 8, val: b2n(a == b) }),
        hir::BinaryOp::Ne => r == (Den::Int { bits: 8, val: b2n(a != b) }),
        hir::BinaryOp::BAnd => r == (Den::Int { bits: w, val: bit_and(w, a, b) }),
        hir::BinaryOp::BOr => r == (Den::Int { bits: w, val: bit_or(w, a, b) }),
        hir::BinaryOp::Xor => r == (Den::Int { bits: w, val: bit_xor(w, a, b) }),
        // shift amounts below the width (quantifier of C08)
        hir::BinaryOp::LShift => b < w ==> r == (Den::Int { bits: w, val: tc(w, (a * pow2(b)) as int) }),
        // >> follows the operand type's signedness: arithmetic for signed, logical for unsigned
        hir::BinaryOp::RShift => b < w ==> r == (Den::Int { bits: w, val: tc(w, va / (pow2(b) as int)) }),
        _ => true,
    }
}
pub open spec fn lang_bin_float(op: hir::BinaryOp, w: nat, a: FloatVal, b: FloatVal, r: Den) -> bool {
    match op {
        hir::BinaryOp::Add => r == (Den::Float { bits: w, f: f_add(w, a, b) }),
        hir::BinaryOp::Sub => r == (Den::Float { bits: w, f: f_sub(w, a, b) }),
        hir::BinaryOp::Mul => r == (Den::Float { bits: w, f: f_mul(w, a, b) }),
        hir::BinaryOp::Div => r == (Den::Float { bits: w, f: f_div(w, a, b) }),
        hir::BinaryOp::Lt => r == (Den::Int { bits: 8, val: b2n(f_cmp(FloatCC::LessThan, a, b)) }),
        hir::BinaryOp::Gt => r == (Den::Int { bits: 8, val: b2n(f_cmp(FloatCC::GreaterThan, a, b)) }),
        hir::BinaryOp::Le => r == (Den::Int { bits: 8, val: b2n(f_cmp(FloatCC::LessThanOrEqual, a, b)) }),
        hir::BinaryOp::Ge => r == (Den::Int { bits: 8, val: b2n(f_cmp(FloatCC::GreaterThanOrEqual, a, b)) }),
        hir::BinaryOp::Eq => r == (Den::Int { bits: 8, val: b2n(f_cmp(FloatCC::Equal, a, b)) }),
        hir::BinaryOp::Ne => r == (Den::Int { bits: 8, val: b2n(f_cmp(FloatCC::NotEqual, a, b)) }),
        _ => true,
    }
}

/// which machine representation each numeric language type gets: C08 "for every numeric type
/// ... follow the operand type's signedness"; C09 "`{int}` / `{uint}` default to i32"
pub open spec fn int_type_of_width(w: u8) -> types::Type {
    if w == 255 { ptr_ty_spec() } else if w == 0 || w == 32 { types::I32 } else if w == 8 { types::I8 }
    else if w == 16 { types::I16 } else if w == 64 { types::I64 } else { types::I128 }
}
pub open spec fn final_ok(ty: Ty, f: FinalTy) -> bool {
    match ty {
        Ty::IInt(w) => f == FinalTy::Number(NumberType { ty: int_type_of_width(w), float: false, signed: true }),
        // `{uint}` (width 0) has no unsigned 32-bit default: it is an i32
        Ty::UInt(w) => f == FinalTy::Number(NumberType { ty: int_type_of_width(w), float: false, signed: w == 0 }),
        Ty::Float(w) => f == FinalTy::Number(NumberType { ty: if w == 64 { types::F64 } else { types::F32 }, float: true, signed: true }),
        Ty::Bool => f == FinalTy::Number(NumberType { ty: types::I8, float: false, signed: false }),
        Ty::Char => f == FinalTy::Number(NumberType { ty: types::I8, float: false, signed: false }),
        Ty::Distinct { sub_ty, .. } => f == tfinal(*sub_ty.0),
        Ty::EnumVariant { sub_ty, .. } => f == tfinal(*sub_ty.0),
        _ => true,
    }
}

// ---- arithmetic lemmas -------------------------------------------------------------------

pub proof fn lemma_pow2_values()
    ensures pow2(7) == 0x80, pow2(8) == 0x100, pow2(15) == 0x8000, pow2(16) == 0x1_0000,
        pow2(31) == 0x8000_0000, pow2(32) == 0x1_0000_0000,
        pow2(63) == 0x8000_0000_0000_0000, pow2(64) == 0x1_0000_0000_0000_0000,
        pow2(127) == 0x8000_0000_0000_0000_0000_0000_0000_0000, pow2(128) == 0x1_0000_0000_0000_0000_0000_0000_0000_0000,
{
    assert(pow2(8) == 0x100) by (compute);
    assert(pow2(7) == 0x80) by (compute);
    assert(pow2(16) == 0x1_0000) by (compute);
    assert(pow2(15) == 0x8000) by (compute);
    assert(pow2(32) == 0x1_0000_0000) by (compute);
    assert(pow2(31) == 0x8000_0000) by (compute);
    assert(pow2(64) == 0x1_0000_0000_0000_0000) by (compute);
    assert(pow2(63) == 0x8000_0000_0000_0000) by (compute);
    assert(pow2(128) == 0x1_0000_0000_0000_0000_0000_0000_0000_0000) by (compute);
    assert(pow2(127) == 0x8000_0000_0000_0000_0000_0000_0000_0000) by (compute);
}

/// v mod m is unchanged by adding a multiple of m
pub proof fn lemma_mod_shift(v: int, k: int, m: int)
    requires m > 0
    ensures (v + k * m) % m == v % m
{
    vstd::arithmetic::div_mod::lemma_mod_multiples_vanish(k, v, m);
    assert(m * k + v == v + k * m) by (nonlinear_arith);
}

/// reading a `from`-bit pattern as signed or unsigned gives the same residue modulo 2^to
/// whenever to <= from
pub proof fn lemma_reduce_agrees(from: nat, to: nat, val: nat)
    requires (from == 8 || from == 16 || from == 32 || from == 64 || from == 128),
             (to == 8 || to == 16 || to == 32 || to == 64 || to == 128), to <= from, val < pow2(from)
    ensures tc(to, sint(from, val)) == val % pow2(to), tc(to, val as int) == val % pow2(to)
{
    lemma_pow2_values();
    let m = pow2(to) as int;
    let k = (pow2(from) / pow2(to)) as int;
    assert(pow2(from) as int == k * m) by {
        // all ten (from, to) pairs are concrete
        assert(pow2(from) % pow2(to) == 0);
        vstd::arithmetic::div_mod::lemma_fundamental_div_mod(pow2(from) as int, m);
        assert(m * k == k * m) by (nonlinear_arith);
    }
    if sint(from, val) != val as int {
        lemma_mod_shift(val as int, -1, pow2(from) as int);
        assert(val - pow2(from) == val + (-k) * m) by (nonlinear_arith) requires pow2(from) as int == k * m;
        lemma_mod_shift(val as int, -k, m);
    }
}

/// a value that fits the narrower width is unchanged by tc at the wider width when non-negative
pub proof fn lemma_tc_small(bits: nat, v: int)
    requires 0 <= v < pow2(bits)
    ensures tc(bits, v) == v
{
    vstd::arithmetic::div_mod::lemma_small_mod(v as nat, pow2(bits));
}

pub proof fn lemma_pow2_mono(a: nat, b: nat)
    requires a <= b
    ensures pow2(a) <= pow2(b)
    decreases b
{
    if a < b { lemma_pow2_mono(a, (b - 1) as nat); }
}

/// facts that connect the instruction semantics (shim) with the language semantics (spec)
pub proof fn lemma_bin_int_facts(w: nat, a: nat, b: nat)
    requires w == 8 || w == 16 || w == 32 || w == 64 || w == 128, a < pow2(w), b < pow2(w)
    ensures
        // wrap-around is insensitive to the reading of the operands
        tc(w, sint(w, a) + sint(w, b)) == tc(w, (a + b) as int),
        tc(w, sint(w, a) - sint(w, b)) == tc(w, a - b),
        tc(w, sint(w, a) * sint(w, b)) == tc(w, (a * b) as int),
        // unsigned results are already in range
        b != 0 ==> tc(w, (a as int) / (b as int)) == a / b,
        b != 0 ==> tc(w, trem(a as int, b as int)) == a % b,
        b != 0 ==> tdiv(a as int, b as int) == a / b,
        b < w ==> b % w == b,
        b < w ==> tc(w, (a as int) / (pow2(b) as int)) == a / pow2(b),
        sint(w, b) != 0 <==> b != 0,
{
    lemma_pow2_values();
    let m = pow2(w) as int;
    let sa = sint(w, a); let sb = sint(w, b);
    let ka: int = if sa == a as int { 0 } else { -1 };
    let kb: int = if sb == b as int { 0 } else { -1 };
    assert((-1) * m == -m && 0 * m == 0) by (nonlinear_arith);
    assert(sa == a + ka * m && sb == b + kb * m);
    // add / sub
    assert(sa + sb == (a + b) + (ka + kb) * m) by (nonlinear_arith) requires sa == a + ka * m, sb == b + kb * m;
    lemma_mod_shift((a + b) as int, ka + kb, m);
    assert(sa - sb == (a - b) + (ka - kb) * m) by (nonlinear_arith) requires sa == a + ka * m, sb == b + kb * m;
    lemma_mod_shift((a - b) as int, ka - kb, m);
    // mul
    assert(sa * sb == (a * b) + (ka * b + kb * a + ka * kb * m) * m) by (nonlinear_arith)
        requires sa == a + ka * m, sb == b + kb * m;
    lemma_mod_shift((a * b) as int, ka * b + kb * a + ka * kb * m, m);
    if b != 0 {
        let q = (a as int) / (b as int);
        assert(0 <= q <= a) by (nonlinear_arith) requires q == (a as int) / (b as int), b >= 1, a >= 0;
        lemma_tc_small(w, q);
        vstd::arithmetic::div_mod::lemma_fundamental_div_mod(a as int, b as int);
        assert(trem(a as int, b as int) == (a as int) % (b as int));
        assert(0 <= (a as int) % (b as int) < b) by (nonlinear_arith) requires b >= 1;
        lemma_tc_small(w, (a as int) % (b as int));
    }
    if b < w {
        vstd::arithmetic::div_mod::lemma_small_mod(b, w);
        lemma_pow2_pos(b);
        let q = (a as int) / (pow2(b) as int);
        assert(0 <= q <= a) by (nonlinear_arith) requires q == (a as int) / (pow2(b) as int), pow2(b) >= 1, a >= 0;
        lemma_tc_small(w, q);
    }
}

pub proof fn lemma_pow2_pos(n: nat) ensures pow2(n) >= 1 decreases n { if n > 0 { lemma_pow2_pos((n - 1) as nat); } }

/// 128-bit values that a 64-bit conversion can carry
pub open spec fn fits64(t: NumberType, v: int) -> bool {
    if t.signed { -(pow2(63) as int) <= v < pow2(63) } else { 0 <= v < pow2(64) }
}

/// widening a `fb`-bit pattern to `tb` bits: zero-extension keeps the unsigned value,
/// sign-extension (tc of the signed value) keeps the signed value
pub proof fn lemma_widen(fb: nat, tb: nat, v: nat)
    requires (fb == 8 || fb == 16 || fb == 32 || fb == 64), (tb == 16 || tb == 32 || tb == 64 || tb == 128),
             fb < tb, v < pow2(fb)
    ensures
        v < pow2(tb), tc(tb, v as int) == v,
        sint(tb, tc(tb, sint(fb, v))) == sint(fb, v),
        tc(tb, sint(fb, v)) < pow2(tb),
        sint(tb, v) == v as int,
{
    lemma_pow2_values();
    lemma_pow2_mono(fb, tb);
    lemma_pow2_mono(fb, (tb - 1) as nat);
    lemma_tc_small(tb, v as int);
    let s = sint(fb, v);
    let m = pow2(tb) as int;
    if s < 0 {
        // s + m is in [0, m) and congruent to s
        lemma_mod_shift(s, 1, m);
        assert(s + 1 * m == s + m) by (nonlinear_arith);
        vstd::arithmetic::div_mod::lemma_small_mod((s + m) as nat, m as nat);
    }
}

pub proof fn lemma_fits64(signed: bool, v: nat)
    requires v < pow2(128)
    ensures
        signed && -(pow2(63) as int) <= sint(128, v) < pow2(63) ==> sint(64, v % pow2(64)) == sint(128, v),
        !signed && v < pow2(64) ==> v % pow2(64) == v,
{
    lemma_pow2_values();
    if v < pow2(64) { vstd::arithmetic::div_mod::lemma_small_mod(v, pow2(64)); }
    if signed && -(pow2(63) as int) <= sint(128, v) < pow2(63) && sint(128, v) < 0 {
        let s = sint(128, v);
        let m = pow2(64) as int;
        // v = s + 2^128 = (s + 2^64) + (2^64 - 1) * 2^64
        assert(v as int == (s + m) + (m - 1) * m) by (nonlinear_arith)
            requires v as int == s + 0x1_0000_0000_0000_0000_0000_0000_0000_0000int, m == 0x1_0000_0000_0000_0000int;
        lemma_mod_shift(s + m, m - 1, m);
        vstd::arithmetic::div_mod::lemma_small_mod((s + m) as nat, m as nat);
    }
}

/// float -> int through an intermediate 32/64-bit integer
pub proof fn lemma_float_to_int(to: NumberType, v: int)
    requires nt_wf(to), !to.float
    ensures
        // the value fits the intermediate type whenever it fits the target
        (to.ty.bits_ <= 32 && fits(to, v)) ==> (if to.signed { -(pow2(31) as int) <= v < pow2(31) } else { 0 <= v < pow2(32) }),
        (to.ty.bits_ == 64 && fits(to, v)) ==> (if to.signed { -(pow2(63) as int) <= v < pow2(63) } else { 0 <= v < pow2(64) }),
        // reducing the intermediate pattern gives the target pattern
        to.ty.bits_ < 32 ==> tc(32, v) % pow2(to.ty.bits_ as nat) == tc(to.ty.bits_ as nat, v),
        // extending a 64-bit intermediate to 128 bits
        to.ty.bits_ == 128 && to.signed && -(pow2(63) as int) <= v < pow2(63) ==> tc(128, sint(64, tc(64, v))) == tc(128, v),
        to.ty.bits_ == 128 && !to.signed && 0 <= v < pow2(64) ==> tc(64, v) == tc(128, v),
        // an unsigned conversion yields the value itself, which is its own bit pattern
        0 <= v < pow2(32) ==> tc(32, v) == v,
        0 <= v < pow2(64) ==> tc(64, v) == v && tc(128, v) == v,
        // reductions stay inside the target width
        forall|x: nat| #![trigger x % pow2(8)] x % pow2(8) < pow2(8),
        forall|x: nat| #![trigger x % pow2(16)] x % pow2(16) < pow2(16),
{
    lemma_pow2_values();
    if 0 <= v < pow2(32) { lemma_tc_small(32, v); }
    if 0 <= v < pow2(64) { lemma_tc_small(64, v); lemma_tc_small(128, v); }
    let tb = to.ty.bits_ as nat;
    if tb < 32 {
        // (v mod 2^32) mod 2^tb == v mod 2^tb  since 2^tb divides 2^32
        let m = pow2(tb) as int;
        let k = (pow2(32) / pow2(tb)) as int;
        assert(pow2(32) as int == k * m) by {
            assert(tb == 8 || tb == 16);
            assert(0x1_0000_0000nat % 0x100nat == 0 && 0x1_0000_0000nat % 0x1_0000nat == 0);
            assert(pow2(32) % pow2(tb) == 0);
            vstd::arithmetic::div_mod::lemma_fundamental_div_mod(pow2(32) as int, m);
            assert(m * k == k * m) by (nonlinear_arith);
        }
        vstd::arithmetic::div_mod::lemma_fundamental_div_mod(v, pow2(32) as int);
        let q = v / (pow2(32) as int);
        let r = v % (pow2(32) as int);
        assert(v == r + (q * k) * m) by (nonlinear_arith) requires v == (pow2(32) as int) * q + r, pow2(32) as int == k * m;
        lemma_mod_shift(r, q * k, m);
    }
    if tb == 128 {
        if to.signed && -(pow2(63) as int) <= v < pow2(63) {
            if v >= 0 { lemma_tc_small(64, v); lemma_tc_small(128, v); }
            else {
                let m = pow2(64) as int;
                lemma_mod_shift(v, 1, m);
                assert(v + 1 * m == v + m) by (nonlinear_arith);
                vstd::arithmetic::div_mod::lemma_small_mod((v + m) as nat, m as nat);
                assert(tc(64, v) == v + m);
                assert(sint(64, tc(64, v)) == v);
            }
        }
        if !to.signed && 0 <= v < pow2(64) { lemma_tc_small(64, v); lemma_tc_small(128, v); }
    }
}

// ---- C09: range of integer literals -------------------------------------------------------

/// the type with distinct wrappers removed
pub open spec fn lit_base(ty: Ty) -> Ty decreases ty {
    match ty { Ty::Distinct { sub_ty, .. } => lit_base(*sub_ty.0), _ => ty }
}
/// the integer types a literal can be annotated with (language widths; 255 = isize / usize)
pub open spec fn lit_int_ty(ty: Ty) -> bool {
    match lit_base(ty) {
        Ty::IInt(w) => w == 8 || w == 16 || w == 32 || w == 64 || w == 128 || w == 255,
        Ty::UInt(w) => w == 8 || w == 16 || w == 32 || w == 64 || w == 128 || w == 255,
        _ => false,
    }
}
/// the largest literal a limit accepts (None accepts every u64)
pub open spec fn lit_limit(res: Option<u64>) -> nat {
    match res { None => (pow2(64) - 1) as nat, Some(m) => m as nat }
}
/// the largest u64 literal that fits the type
pub open spec fn lit_max(ty: Ty) -> nat {
    let cap = (pow2(64) - 1) as nat;
    match lit_base(ty) {
        Ty::IInt(w) => { let m = (pow2(((if w == 255 { 64 } else { w as int }) - 1) as nat) - 1) as nat; if m < cap { m } else { cap } },
        Ty::UInt(w) => { let m = (pow2((if w == 255 { 64 } else { w as int }) as nat) - 1) as nat; if m < cap { m } else { cap } },
        _ => cap,
    }
}
/// the statement's "accepted if and only if it fits" follows from equal limits
pub proof fn lemma_lit_limit_iff(ty: Ty, res: Option<u64>, n: u64)
    requires lit_int_ty(ty), lit_limit(res) == lit_max(ty)
    ensures (res is None || n <= res->0) <==> lit_fits(ty, n as nat)
{
    lemma_pow2_values();
    lemma_pow2_pos(127); lemma_pow2_pos(128);
}
/// "its value fits that type"; isize / usize are 64 bits on the targets the property covers
pub open spec fn lit_fits(ty: Ty, n: nat) -> bool {
    match lit_base(ty) {
        Ty::IInt(w) => n < pow2(((if w == 255 { 64 } else { w as int }) - 1) as nat),
        Ty::UInt(w) => n < pow2((if w == 255 { 64 } else { w as int }) as nat),
        _ => true,
    }
}
