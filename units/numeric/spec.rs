// Arithmetic lemmas for unit numeric (definitions are in defs.rs).  Ghost code only.

pub proof fn lemma_pow2_values()
    ensures pow2(7) == 0x80, pow2(8) == 0x100, pow2(15) == 0x8000, pow2(16) == 0x1_0000,
        pow2(31) == 0x8000_0000, pow2(32) == 0x1_0000_0000,
        pow2(63) == 0x8000_0000_0000_0000, pow2(64) == 0x1_0000_0000_0000_0000,
        pow2(127) == 0x8000_0000_0000_0000_0000_0000_0000_0000, pow2(128) == 0x1_0000_0000_0000_0000_0000_0000_0000_0000,
{
    assert(pow2(8) == 0x100) by (compute);
    assert(pow2(7) == 0x80) by (compute);
    assert(pow2(16) == 0x1_0000) by (compute);
    assert(pow2(15) == 0x8000) by (compute);
    assert(pow2(32) == 0x1_0000_0000) by (compute);
    assert(pow2(31) == 0x8000_0000) by (compute);
    assert(pow2(64) == 0x1_0000_0000_0000_0000) by (compute);
    assert(pow2(63) == 0x8000_0000_0000_0000) by (compute);
    assert(pow2(128) == 0x1_0000_0000_0000_0000_0000_0000_0000_0000) by (compute);
    assert(pow2(127) == 0x8000_0000_0000_0000_0000_0000_0000_0000) by (compute);
}

/// v mod m is unchanged by adding a multiple of m
pub proof fn lemma_mod_shift(v: int, k: int, m: int)
    requires m > 0
    ensures (v + k * m) % m == v % m
{
    vstd::arithmetic::div_mod::lemma_mod_multiples_vanish(k, v, m);
    assert(m * k + v == v + k * m) by (nonlinear_arith);
}

/// reading a `from`-bit pattern as signed or unsigned gives the same residue modulo 2^to
/// whenever to <= from
pub proof fn lemma_reduce_agrees(from: nat, to: nat, val: nat)
    requires (from == 8 || from == 16 || from == 32 || from == 64 || from == 128),
             (to == 8 || to == 16 || to == 32 || to == 64 || to == 128), to <= from, val < pow2(from)
    ensures tc(to, sint(from, val)) == val % pow2(to), tc(to, val as int) == val % pow2(to)
{
    lemma_pow2_values();
    let m = pow2(to) as int;
    let k = (pow2(from) / pow2(to)) as int;
    assert(pow2(from) as int == k * m) by {
        // all ten (from, to) pairs are concrete
        assert(pow2(from) % pow2(to) == 0);
        vstd::arithmetic::div_mod::lemma_fundamental_div_mod(pow2(from) as int, m);
        assert(m * k == k * m) by (nonlinear_arith);
    }
    if sint(from, val) != val as int {
        lemma_mod_shift(val as int, -1, pow2(from) as int);
        assert(val - pow2(from) == val + (-k) * m) by (nonlinear_arith) requires pow2(from) as int == k * m;
        lemma_mod_shift(val as int, -k, m);
    }
}

/// a value that fits the narrower width is unchanged by tc at the wider width when non-negative
pub proof fn lemma_tc_small(bits: nat, v: int)
    requires 0 <= v < pow2(bits)
    ensures tc(bits, v) == v
{
    vstd::arithmetic::div_mod::lemma_small_mod(v as nat, pow2(bits));
}

pub proof fn lemma_pow2_mono(a: nat, b: nat)
    requires a <= b
    ensures pow2(a) <= pow2(b)
    decreases b
{
    if a < b { lemma_pow2_mono(a, (b - 1) as nat); }
}

/// facts that connect the instruction semantics (shim) with the language semantics (spec)
pub proof fn lemma_bin_wrap(w: nat, a: nat, b: nat)
    requires w == 8 || w == 16 || w == 32 || w == 64 || w == 128, a < pow2(w), b < pow2(w)
    ensures
        // wrap-around is insensitive to the reading of the operands
        tc(w, sint(w, a) + sint(w, b)) == tc(w, (a + b) as int),
        tc(w, sint(w, a) - sint(w, b)) == tc(w, a - b),
        sint(w, b) != 0 <==> b != 0,
{
    lemma_pow2_values();
    let m = pow2(w) as int;
    let sa = sint(w, a); let sb = sint(w, b);
    let ka: int = if sa == a as int { 0 } else { -1 };
    let kb: int = if sb == b as int { 0 } else { -1 };
    assert((-1) * m == -m && 0 * m == 0) by (nonlinear_arith);
    assert(sa == a + ka * m && sb == b + kb * m);
    assert(sa + sb == (a + b) + (ka + kb) * m) by (nonlinear_arith) requires sa == a + ka * m, sb == b + kb * m;
    lemma_mod_shift((a + b) as int, ka + kb, m);
    assert(sa - sb == (a - b) + (ka - kb) * m) by (nonlinear_arith) requires sa == a + ka * m, sb == b + kb * m;
    lemma_mod_shift((a - b) as int, ka - kb, m);
}
pub proof fn lemma_bin_mul(w: nat, a: nat, b: nat)
    requires w == 8 || w == 16 || w == 32 || w == 64 || w == 128, a < pow2(w), b < pow2(w)
    ensures tc(w, sint(w, a) * sint(w, b)) == tc(w, (a * b) as int),
{
    lemma_pow2_values();
    let m = pow2(w) as int;
    let sa = sint(w, a); let sb = sint(w, b);
    let ai = a as int; let bi = b as int;
    // four cases: each operand is read as itself or as itself minus 2^w
    if sa == ai && sb == bi {
    } else if sa == ai - m && sb == bi {
        assert((ai - m) * bi == ai * bi + (-bi) * m) by (nonlinear_arith);
        lemma_mod_shift(ai * bi, -bi, m);
    } else if sa == ai && sb == bi - m {
        assert(ai * (bi - m) == ai * bi + (-ai) * m) by (nonlinear_arith);
        lemma_mod_shift(ai * bi, -ai, m);
    } else {
        assert(sa == ai - m && sb == bi - m);
        assert((ai - m) * (bi - m) == ai * bi + (m - ai - bi) * m) by (nonlinear_arith);
        lemma_mod_shift(ai * bi, m - ai - bi, m);
    }
}
pub proof fn lemma_bin_div(w: nat, a: nat, b: nat)
    requires w == 8 || w == 16 || w == 32 || w == 64 || w == 128, a < pow2(w), b < pow2(w), b != 0
    ensures
        // unsigned results are already in range
        tc(w, (a as int) / (b as int)) == a / b,
        tc(w, trem(a as int, b as int)) == a % b,
        tdiv(a as int, b as int) == a / b,
{
    let q = (a as int) / (b as int);
    assert(0 <= q <= a) by (nonlinear_arith) requires q == (a as int) / (b as int), b >= 1, a >= 0;
    lemma_tc_small(w, q);
    vstd::arithmetic::div_mod::lemma_fundamental_div_mod(a as int, b as int);
    assert(trem(a as int, b as int) == (a as int) % (b as int));
    assert(0 <= (a as int) % (b as int) < b) by (nonlinear_arith) requires b >= 1;
    lemma_tc_small(w, (a as int) % (b as int));
}
pub proof fn lemma_bin_shift(w: nat, a: nat, b: nat)
    requires w == 8 || w == 16 || w == 32 || w == 64 || w == 128, a < pow2(w), b < w
    ensures b % w == b, tc(w, (a as int) / (pow2(b) as int)) == a / pow2(b),
{
    vstd::arithmetic::div_mod::lemma_small_mod(b, w);
    lemma_pow2_pos(b);
    let q = (a as int) / (pow2(b) as int);
    assert(0 <= q <= a) by (nonlinear_arith) requires q == (a as int) / (pow2(b) as int), pow2(b) >= 1, a >= 0;
    lemma_tc_small(w, q);
}
pub proof fn lemma_bin_int_facts(w: nat, a: nat, b: nat)
    requires w == 8 || w == 16 || w == 32 || w == 64 || w == 128, a < pow2(w), b < pow2(w)
    ensures
        tc(w, sint(w, a) + sint(w, b)) == tc(w, (a + b) as int),
        tc(w, sint(w, a) - sint(w, b)) == tc(w, a - b),
        tc(w, sint(w, a) * sint(w, b)) == tc(w, (a * b) as int),
        b != 0 ==> tc(w, (a as int) / (b as int)) == a / b,
        b != 0 ==> tc(w, trem(a as int, b as int)) == a % b,
        b != 0 ==> tdiv(a as int, b as int) == a / b,
        b < w ==> b % w == b,
        b < w ==> tc(w, (a as int) / (pow2(b) as int)) == a / pow2(b),
        sint(w, b) != 0 <==> b != 0,
{
    lemma_bin_wrap(w, a, b);
    lemma_bin_mul(w, a, b);
    if b != 0 { lemma_bin_div(w, a, b); }
    if b < w { lemma_bin_shift(w, a, b); }
}

pub proof fn lemma_pow2_pos(n: nat) ensures pow2(n) >= 1 decreases n { if n > 0 { lemma_pow2_pos((n - 1) as nat); } }

/// widening a `fb`-bit pattern to `tb` bits: zero-extension keeps the unsigned value,
/// sign-extension (tc of the signed value) keeps the signed value
pub proof fn lemma_widen(fb: nat, tb: nat, v: nat)
    requires (fb == 8 || fb == 16 || fb == 32 || fb == 64), (tb == 16 || tb == 32 || tb == 64 || tb == 128),
             fb < tb, v < pow2(fb)
    ensures
        v < pow2(tb), tc(tb, v as int) == v,
        sint(tb, tc(tb, sint(fb, v))) == sint(fb, v),
        tc(tb, sint(fb, v)) < pow2(tb),
        sint(tb, v) == v as int,
{
    lemma_pow2_values();
    lemma_pow2_mono(fb, tb);
    lemma_pow2_mono(fb, (tb - 1) as nat);
    lemma_tc_small(tb, v as int);
    let s = sint(fb, v);
    let m = pow2(tb) as int;
    if s < 0 {
        // s + m is in [0, m) and congruent to s
        lemma_mod_shift(s, 1, m);
        assert(s + 1 * m == s + m) by (nonlinear_arith);
        vstd::arithmetic::div_mod::lemma_small_mod((s + m) as nat, m as nat);
    }
}

pub proof fn lemma_fits64(signed: bool, v: nat)
    requires v < pow2(128)
    ensures
        signed && -(pow2(63) as int) <= sint(128, v) < pow2(63) ==> sint(64, v % pow2(64)) == sint(128, v),
        !signed && v < pow2(64) ==> v % pow2(64) == v,
{
    lemma_pow2_values();
    if v < pow2(64) { vstd::arithmetic::div_mod::lemma_small_mod(v, pow2(64)); }
    if signed && -(pow2(63) as int) <= sint(128, v) < pow2(63) && sint(128, v) < 0 {
        let s = sint(128, v);
        let m = pow2(64) as int;
        // v = s + 2^128 = (s + 2^64) + (2^64 - 1) * 2^64
        assert(v as int == (s + m) + (m - 1) * m) by (nonlinear_arith)
            requires v as int == s + 0x1_0000_0000_0000_0000_0000_0000_0000_0000int, m == 0x1_0000_0000_0000_0000int;
        lemma_mod_shift(s + m, m - 1, m);
        vstd::arithmetic::div_mod::lemma_small_mod((s + m) as nat, m as nat);
    }
}

/// float -> int through an intermediate 32/64-bit integer
pub proof fn lemma_float_to_int(to: NumberType, v: int)
    requires nt_wf(to), !to.float
    ensures
        // the value fits the intermediate type whenever it fits the target
        (to.ty.bits_ <= 32 && fits(to, v)) ==> (if to.signed { -(pow2(31) as int) <= v < pow2(31) } else { 0 <= v < pow2(32) }),
        (to.ty.bits_ == 64 && fits(to, v)) ==> (if to.signed { -(pow2(63) as int) <= v < pow2(63) } else { 0 <= v < pow2(64) }),
        // reducing the intermediate pattern gives the target pattern
        to.ty.bits_ < 32 ==> tc(32, v) % pow2(to.ty.bits_ as nat) == tc(to.ty.bits_ as nat, v),
        // extending a 64-bit intermediate to 128 bits
        to.ty.bits_ == 128 && to.signed && -(pow2(63) as int) <= v < pow2(63) ==> tc(128, sint(64, tc(64, v))) == tc(128, v),
        to.ty.bits_ == 128 && !to.signed && 0 <= v < pow2(64) ==> tc(64, v) == tc(128, v),
        // an unsigned conversion yields the value itself, which is its own bit pattern
        0 <= v < pow2(32) ==> tc(32, v) == v,
        0 <= v < pow2(64) ==> tc(64, v) == v && tc(128, v) == v,
        // reductions stay inside the target width
        forall|x: nat| #![trigger x % pow2(8)] x % pow2(8) < pow2(8),
        forall|x: nat| #![trigger x % pow2(16)] x % pow2(16) < pow2(16),
{
    lemma_pow2_values();
    if 0 <= v < pow2(32) { lemma_tc_small(32, v); }
    if 0 <= v < pow2(64) { lemma_tc_small(64, v); lemma_tc_small(128, v); }
    let tb = to.ty.bits_ as nat;
    if tb < 32 {
        // (v mod 2^32) mod 2^tb == v mod 2^tb  since 2^tb divides 2^32
        let m = pow2(tb) as int;
        let k = (pow2(32) / pow2(tb)) as int;
        assert(pow2(32) as int == k * m) by {
            assert(tb == 8 || tb == 16);
            assert(0x1_0000_0000nat % 0x100nat == 0 && 0x1_0000_0000nat % 0x1_0000nat == 0);
            assert(pow2(32) % pow2(tb) == 0);
            vstd::arithmetic::div_mod::lemma_fundamental_div_mod(pow2(32) as int, m);
            assert(m * k == k * m) by (nonlinear_arith);
        }
        vstd::arithmetic::div_mod::lemma_fundamental_div_mod(v, pow2(32) as int);
        let q = v / (pow2(32) as int);
        let r = v % (pow2(32) as int);
        assert(v == r + (q * k) * m) by (nonlinear_arith) requires v == (pow2(32) as int) * q + r, pow2(32) as int == k * m;
        lemma_mod_shift(r, q * k, m);
    }
    if tb == 128 {
        if to.signed && -(pow2(63) as int) <= v < pow2(63) {
            if v >= 0 { lemma_tc_small(64, v); lemma_tc_small(128, v); }
            else {
                let m = pow2(64) as int;
                lemma_mod_shift(v, 1, m);
                assert(v + 1 * m == v + m) by (nonlinear_arith);
                vstd::arithmetic::div_mod::lemma_small_mod((v + m) as nat, m as nat);
                assert(tc(64, v) == v + m);
                assert(sint(64, tc(64, v)) == v);
            }
        }
        if !to.signed && 0 <= v < pow2(64) { lemma_tc_small(64, v); lemma_tc_small(128, v); }
    }
}

// ---- C09: range of integer literals -------------------------------------------------------

/// the statement's "accepted if and only if it fits" follows from equal limits
pub proof fn lemma_lit_limit_iff(ty: Ty, res: Option<u64>, n: u64)
    requires lit_int_ty(ty), lit_limit(res) == lit_max(ty)
    ensures (res is None || n <= res->0) <==> lit_fits(ty, n as nat)
{
    lemma_pow2_values();
    lemma_pow2_pos(127); lemma_pow2_pos(128);
}
