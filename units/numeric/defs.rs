// Specification for C08 (and the defaulting clause of C09), written from the property
// statement: two's-complement arithmetic over mathematical integers.  Ghost code only.

pub open spec fn nt_wf(t: NumberType) -> bool {
    t.float == t.ty.is_float &&
    // floats are "signed" in every FinalTy the compiler builds (convert::calc_single)
    (t.float ==> (t.ty.bits_ == 32 || t.ty.bits_ == 64) && t.signed) &&
    (!t.float ==> (t.ty.bits_ == 8 || t.ty.bits_ == 16 || t.ty.bits_ == 32 || t.ty.bits_ == 64 || t.ty.bits_ == 128))
}
pub open spec fn den_of(t: NumberType, d: Den) -> bool {
    if t.float { is_float_of(d, t.ty.bits_ as nat) } else { is_int_of(d, t.ty.bits_ as nat) }
}
/// the mathematical integer a value of integer type `t` stands for
pub open spec fn int_value(t: NumberType, d: Den) -> int {
    if t.signed { sint(t.ty.bits_ as nat, d->Int_val) } else { d->Int_val as int }
}
pub open spec fn fits(t: NumberType, v: int) -> bool {
    if t.signed { -(pow2((t.ty.bits_ - 1) as nat) as int) <= v < pow2((t.ty.bits_ - 1) as nat) }
    else { 0 <= v < pow2(t.ty.bits_ as nat) }
}

/// C08: "Explicit and implicit numeric casts truncate, sign-extend or zero-extend according
/// to the source type.  Integer-to-float conversion yields the nearest representable float of
/// the integer's full value, and float-to-integer conversion truncates toward zero whenever
/// the result fits the target type."
pub open spec fn lang_cast_ok(from: NumberType, to: NumberType, d: Den, r: Den) -> bool {
    if !from.float && !to.float {
        // the source value (read by the SOURCE type's signedness), reduced modulo 2^to
        r == (Den::Int { bits: to.ty.bits_ as nat, val: tc(to.ty.bits_ as nat, int_value(from, d)) })
    } else if !from.float && to.float {
        r == (Den::Float { bits: to.ty.bits_ as nat, f: round_int(to.ty.bits_ as nat, int_value(from, d)) })
    } else if from.float && !to.float {
        is_int_of(r, to.ty.bits_ as nat)
        && (fits(to, ftrunc(d->Float_f)) ==> r->Int_val == tc(to.ty.bits_ as nat, ftrunc(d->Float_f)))
    } else {
        // float to float: same width is the identity, otherwise IEEE widening / narrowing
        if from.ty.bits_ == to.ty.bits_ { r == d }
        else if from.ty.bits_ < to.ty.bits_ { r == (Den::Float { bits: to.ty.bits_ as nat, f: fpromote_s(to.ty.bits_ as nat, d->Float_f) }) }
        else { r == (Den::Float { bits: to.ty.bits_ as nat, f: fdemote_s(to.ty.bits_ as nat, d->Float_f) }) }
    }
}

/// operators `compile_num_binary` may be asked for (the checker never sends the others)
pub open spec fn admissible(op: hir::BinaryOp, float: bool) -> bool {
    !(op is LAnd) && !(op is LOr) && (float ==> !(op is Mod) && !(op is LShift) && !(op is RShift))
}

/// C08: "+, -, * wrap modulo 2^width, / and % truncate toward zero (for nonzero divisors
/// without signed overflow), &, |, ~ act bitwise, and >> and the comparisons follow the operand
/// type's signedness."
pub open spec fn lang_bin_int(op: hir::BinaryOp, t: NumberType, a: nat, b: nat, r: Den) -> bool {
    let w = t.ty.bits_ as nat;
    let va = if t.signed { sint(w, a) } else { a as int };
    let vb = if t.signed { sint(w, b) } else { b as int };
    match op {
        hir::BinaryOp::Add => r == (Den::Int { bits: w, val: tc(w, va + vb) }),
        hir::BinaryOp::Sub => r == (Den::Int { bits: w, val: tc(w, va - vb) }),
        hir::BinaryOp::Mul => r == (Den::Int { bits: w, val: tc(w, va * vb) }),
        hir::BinaryOp::Div => r is Int && r->Int_bits == w && (vb != 0 ==> r->Int_val == tc(w, tdiv(va, vb))),
        hir::BinaryOp::Mod => r is Int && r->Int_bits == w && (vb != 0 ==> r->Int_val == tc(w, trem(va, vb))),
        hir::BinaryOp::Lt => r == (Den::Int { bits: 8, val: b2n(va < vb) }),
        hir::BinaryOp::Gt => r == (Den::Int { bits: 8, val: b2n(va > vb) }),
        hir::BinaryOp::Le => r == (Den::Int { bits: 8, val: b2n(va <= vb) }),
        hir::BinaryOp::Ge => r == (Den::Int { bits: 8, val: b2n(va >= vb) }),
        hir::BinaryOp::Eq => r == (Den::Int { bits: 8, val: b2n(a == b) }),
        hir::BinaryOp::Ne => r == (Den::Int { bits: 8, val: b2n(a != b) }),
        hir::BinaryOp::BAnd => r == (Den::Int { bits: w, val: bit_and(w, a, b) }),
        hir::BinaryOp::BOr => r == (Den::Int { bits: w, val: bit_or(w, a, b) }),
        hir::BinaryOp::Xor => r == (Den::Int { bits: w, val: bit_xor(w, a, b) }),
        // shift amounts below the width (quantifier of C08)
        hir::BinaryOp::LShift => b < w ==> r == (Den::Int { bits: w, val: tc(w, (a * pow2(b)) as int) }),
        // >> follows the operand type's signedness: arithmetic for signed, logical for unsigned
        hir::BinaryOp::RShift => b < w ==> r == (Den::Int { bits: w, val: tc(w, va / (pow2(b) as int)) }),
        _ => true,
    }
}
pub open spec fn lang_bin_float(op: hir::BinaryOp, w: nat, a: FloatVal, b: FloatVal, r: Den) -> bool {
    match op {
        hir::BinaryOp::Add => r == (Den::Float { bits: w, f: f_add(w, a, b) }),
        hir::BinaryOp::Sub => r == (Den::Float { bits: w, f: f_sub(w, a, b) }),
        hir::BinaryOp::Mul => r == (Den::Float { bits: w, f: f_mul(w, a, b) }),
        hir::BinaryOp::Div => r == (Den::Float { bits: w, f: f_div(w, a, b) }),
        hir::BinaryOp::Lt => r == (Den::Int { bits: 8, val: b2n(f_cmp(FloatCC::LessThan, a, b)) }),
        hir::BinaryOp::Gt => r == (Den::Int { bits: 8, val: b2n(f_cmp(FloatCC::GreaterThan, a, b)) }),
        hir::BinaryOp::Le => r == (Den::Int { bits: 8, val: b2n(f_cmp(FloatCC::LessThanOrEqual, a, b)) }),
        hir::BinaryOp::Ge => r == (Den::Int { bits: 8, val: b2n(f_cmp(FloatCC::GreaterThanOrEqual, a, b)) }),
        hir::BinaryOp::Eq => r == (Den::Int { bits: 8, val: b2n(f_cmp(FloatCC::Equal, a, b)) }),
        hir::BinaryOp::Ne => r == (Den::Int { bits: 8, val: b2n(f_cmp(FloatCC::NotEqual, a, b)) }),
        _ => true,
    }
}

/// which machine representation each numeric language type gets: C08 "for every numeric type
/// ... follow the operand type's signedness"; C09 "`{int}` / `{uint}` default to i32"
pub open spec fn int_type_of_width(w: u8) -> types::Type {
    if w == 255 { ptr_ty_spec() } else if w == 0 || w == 32 { types::I32 } else if w == 8 { types::I8 }
    else if w == 16 { types::I16 } else if w == 64 { types::I64 } else { types::I128 }
}
/// `Ty::is_zero_sized` (uninterpreted here; ASSUMED false for the scalar types, see the stub)
pub uninterp spec fn ty_zero_sized(ty: Ty) -> bool;
pub open spec fn final_ok(ty: Ty, f: FinalTy) -> bool {
    if ty_zero_sized(ty) { f == FinalTy::Void } else {
    match ty {
        Ty::IInt(w) => f == FinalTy::Number(NumberType { ty: int_type_of_width(w), float: false, signed: true }),
        // `{uint}` (width 0) has no unsigned 32-bit default: it is an i32
        Ty::UInt(w) => f == FinalTy::Number(NumberType { ty: int_type_of_width(w), float: false, signed: w == 0 }),
        Ty::Float(w) => f == FinalTy::Number(NumberType { ty: if w == 64 { types::F64 } else { types::F32 }, float: true, signed: true }),
        Ty::Bool => f == FinalTy::Number(NumberType { ty: types::I8, float: false, signed: false }),
        Ty::Char => f == FinalTy::Number(NumberType { ty: types::I8, float: false, signed: false }),
        Ty::Distinct { sub_ty, .. } => f == tfinal(*sub_ty.0),
        Ty::EnumVariant { sub_ty, .. } => f == tfinal(*sub_ty.0),
        _ => true,
    } }
}

// ---- arithmetic lemmas -------------------------------------------------------------------

/// 128-bit values that a 64-bit conversion can carry
pub open spec fn fits64(t: NumberType, v: int) -> bool {
    if t.signed { -(pow2(63) as int) <= v < pow2(63) } else { 0 <= v < pow2(64) }
}

/// the type with distinct wrappers removed
pub open spec fn lit_base(ty: Ty) -> Ty decreases ty {
    match ty { Ty::Distinct { sub_ty, .. } => lit_base(*sub_ty.0), _ => ty }
}
/// the integer types a literal can be annotated with (language widths; 255 = isize / usize)
pub open spec fn lit_int_ty(ty: Ty) -> bool {
    match lit_base(ty) {
        Ty::IInt(w) => w == 8 || w == 16 || w == 32 || w == 64 || w == 128 || w == 255,
        Ty::UInt(w) => w == 8 || w == 16 || w == 32 || w == 64 || w == 128 || w == 255,
        _ => false,
    }
}
/// the largest literal a limit accepts (None accepts every u64)
pub open spec fn lit_limit(res: Option<u64>) -> nat {
    match res { None => (pow2(64) - 1) as nat, Some(m) => m as nat }
}
/// the largest u64 literal that fits the type
pub open spec fn lit_max(ty: Ty) -> nat {
    let cap = (pow2(64) - 1) as nat;
    match lit_base(ty) {
        Ty::IInt(w) => { let m = (pow2(((if w == 255 { 64 } else { w as int }) - 1) as nat) - 1) as nat; if m < cap { m } else { cap } },
        Ty::UInt(w) => { let m = (pow2((if w == 255 { 64 } else { w as int }) as nat) - 1) as nat; if m < cap { m } else { cap } },
        _ => cap,
    }
}
/// "its value fits that type"; isize / usize are 64 bits on the targets the property covers
pub open spec fn lit_fits(ty: Ty, n: nat) -> bool {
    match lit_base(ty) {
        Ty::IInt(w) => n < pow2(((if w == 255 { 64 } else { w as int }) - 1) as nat),
        Ty::UInt(w) => n < pow2((if w == 255 { 64 } else { w as int }) as nat),
        _ => true,
    }
}
