"""Unit `numeric` (C08, defaulting clause of C09): instruction selection for arithmetic and casts."""
from tools.unitapi import Unit, Rewrite

CV = 'crates/codegen/src/convert.rs'
M = 'crates/codegen/src/compiler/mod.rs'
F = 'crates/codegen/src/compiler/functions.rs'
T = 'crates/hir/src/common/ty.rs'
B = 'crates/hir/src/body.rs'

UNIT = u = Unit('numeric', ['C08', 'C09'], 'numeric casts and binary operators: cast_num, compile_num_binary, finalize_int')
u.shim('intern.rs')
u.shim('ty_deps.rs')
u.shim('clif.rs')
u.extract(T, 'struct MemberTy', keep_derives={'Clone', 'Copy'})
u.extract(T, 'struct ParamTy', keep_derives={'Clone', 'Copy'})
u.extract(T, 'enum Ty', keep_derives=set())
u.extract(B, 'enum BinaryOp', keep_derives={'Clone', 'Copy', 'PartialEq', 'Eq'},
          wrap=('pub mod hir {\nuse vstd::prelude::*;', '}'))
u.extract(CV, 'enum FinalTy', keep_derives={'Clone', 'Copy'})
u.extract(CV, 'struct NumberType', keep_derives={'Clone', 'Copy'})
u.shim('final_tables.rs')
u.raw('pub struct FunctionCompiler { pub builder: FunctionBuilder, pub ptr_ty: types::Type }')
u.spec('defs.rs')
u.spec('spec.rs')
u.trusted += [
    'Cranelift instruction semantics as specified in shims/verus/clif.rs (from the Cranelift instruction reference)',
    'FINAL_TYS table modelled rely/guarantee (shims/verus/final_tables.rs); get_final_ty is a trusted table read',
    'float arithmetic is uninterpreted: only "the right value reaches the right instruction" is proved',
    'recursive compile_expr calls deliver operands whose denotation has the operand type (precondition den_of)',
    'which operand type the checker picks (Ty::max / get_possible_output_ty) is not covered',
]

u.extract(CV, 'impl NumberType::fn bit_width', wrap=('impl NumberType {', '}'), contract='''
    requires self.ty.bits_ <= 255
    ensures res == self.ty.bits_
''')
u.extract(CV, 'impl FinalTy::fn into_number_type', wrap=('impl FinalTy {', '}'), contract='''
    ensures self is Number ==> res == Some(self->Number_0), !(self is Number) ==> res is None
''')

CAST_PRE = '''
    requires
        nt_wf(cast_from), nt_wf(cast_to), den_of(cast_from, val.den@),
    ensures
        // one clause per direction, so that a failed obligation names the direction
        (!cast_from.float && !cast_to.float) ==> lang_cast_ok(cast_from, cast_to, val.den@, res.den@),
        (!cast_from.float && cast_to.float && cast_from.ty.bits_ <= 64) ==> lang_cast_ok(cast_from, cast_to, val.den@, res.den@),
        (cast_from.float && !cast_to.float && cast_to.ty.bits_ <= 64) ==> lang_cast_ok(cast_from, cast_to, val.den@, res.den@),
        (cast_from.float && cast_to.float) ==> lang_cast_ok(cast_from, cast_to, val.den@, res.den@),
        // 128-bit integers <-> floats: Cranelift has no such conversion; only values that fit 64 bits are claimed
        (!cast_from.float && cast_to.float && cast_from.ty.bits_ == 128 && fits64(cast_from, int_value(cast_from, val.den@)))
            ==> lang_cast_ok(cast_from, cast_to, val.den@, res.den@),
        (cast_from.float && !cast_to.float && cast_to.ty.bits_ == 128 && fits64(cast_to, ftrunc(val.den@->Float_f)))
            ==> lang_cast_ok(cast_from, cast_to, val.den@, res.den@),
        // a cast only computes: no store, no load, no call, no branch
        pure_ext(*old(builder), *final(builder)),
'''
# termination measure, should cast_num ever call itself (float -> int via an int -> int step)
CAST_DEC = '''    decreases (if cast_from.float { 1nat } else { 0nat })
'''
u.extract(M, 'fn cast_num', contract=CAST_PRE + CAST_DEC, inserts=[('@body_start', 'after', '''
    proof {
        lemma_pow2_values();
        if !cast_from.float {
            let fb = cast_from.ty.bits_ as nat; let v = val.den@->Int_val;
            if !cast_to.float {
                let tb = cast_to.ty.bits_ as nat;
                if tb <= fb { lemma_reduce_agrees(fb, tb, v); }
                else { lemma_widen(fb, tb, v); }
                if tb == fb { vstd::arithmetic::div_mod::lemma_small_mod(v, pow2(tb)); }
            } else {
                if fb < 32 { lemma_widen(fb, 32, v); }
                if fb < 64 { lemma_widen(fb, 64, v); }
                if fb == 128 { lemma_reduce_agrees(128, 64, v); lemma_fits64(cast_from.signed, v); }
            }
        } else if !cast_to.float {
            lemma_float_to_int(cast_to, ftrunc(val.den@->Float_f));
        }
    }
''')])

u.extract(M, 'fn cast_ty_to_cranelift', contract='''
    requires
        !cast_to.is_float, cast_to.bits_ == 32 || cast_to.bits_ == 64,
        tfinal(*cast_from.0) is Number ==> nt_wf(tfinal(*cast_from.0)->Number_0) && !tfinal(*cast_from.0)->Number_0.float
            && den_of(tfinal(*cast_from.0)->Number_0, val.den@),
    ensures
        // index widening: the index keeps its value, read by its own type's signedness
        tfinal(*cast_from.0) is Number ==>
            res.den@ == (Den::Int { bits: cast_to.bits_ as nat,
                                    val: tc(cast_to.bits_ as nat, int_value(tfinal(*cast_from.0)->Number_0, val.den@)) }),
        !(tfinal(*cast_from.0) is Number) ==> res == val,
        pure_ext(*old(builder), *final(builder)),
''')

u.extract(F, 'impl FunctionCompiler<\'_>::fn compile_num_binary', wrap=('impl FunctionCompiler {', '}'),
          contract='''
    requires
        tfinal(*ty.0) is Number, nt_wf(tfinal(*ty.0)->Number_0),
        admissible(op, tfinal(*ty.0)->Number_0.float),
        den_of(tfinal(*ty.0)->Number_0, lhs.den@), den_of(tfinal(*ty.0)->Number_0, rhs.den@),
    ensures
        tfinal(*ty.0)->Number_0.float ==> lang_bin_float(op, tfinal(*ty.0)->Number_0.ty.bits_ as nat,
                                                         lhs.den@->Float_f, rhs.den@->Float_f, res.den@),
        !tfinal(*ty.0)->Number_0.float ==> lang_bin_int(op, tfinal(*ty.0)->Number_0,
                                                        lhs.den@->Int_val, rhs.den@->Int_val, res.den@),
''', inserts=[('@body_start', 'after', '''
        proof {
            lemma_pow2_values();
            let nt = tfinal(*ty.0)->Number_0;
            if !nt.float { lemma_bin_int_facts(nt.ty.bits_ as nat, lhs.den@->Int_val, rhs.den@->Int_val); }
        }
''')])

u.extract(CV, 'fn calc_single', key='finalize_int',
          lift=dict(anchor='let finalize_int = |bit_width: u8, signed: bool| -> FinalTy {',
                    sig='fn finalize_int(ptr_ty: types::Type, bit_width: u8, signed: bool) -> (res: FinalTy)',
                    why='closure `finalize_int` of convert::calc_single lifted into a function; its captured variable ptr_ty becomes a parameter'),
          contract='''
    requires
        bit_width == 0 || bit_width == 8 || bit_width == 16 || bit_width == 32 || bit_width == 64 || bit_width == 128 || bit_width == 255,
        ptr_ty == ptr_ty_spec(),
    ensures
        // width and signedness are the ones asked for; `{int}`/`{uint}` (width 0) default to a signed i32
        res == FinalTy::Number(NumberType { ty: int_type_of_width(bit_width), float: false,
                                            signed: if bit_width == 0 { true } else { signed } }),
''')

# ---- the writer of the FINAL_TYS table: convert::calc_single as a whole ------------------------
u.raw("""
impl Ty {
    // ASSUMED (Ty::is_zero_sized is not under contract): scalars are never zero-sized
    #[verifier::external_body]
    pub fn is_zero_sized(&self) -> (r: bool)
        ensures r == ty_zero_sized(*self),
            (*self is IInt || *self is UInt || *self is Float || *self is Bool || *self is Char) ==> !r
    { unimplemented!() }
}
// the recursive calls of calc_single (they fill in the entries of the component types); the
// entry written by THIS call does not depend on them except through table reads
#[verifier::external_body]
pub fn calc_single_sub(ty: Intern<Ty>, ptr_ty: types::Type) { unimplemented!() }
#[verifier::external_body]
pub fn proved_unreachable<T>() -> (r: T) requires false { unimplemented!() }
""")
F_LOCK_REF = Rewrite('R4', r'let finals = FINAL_TYS\.lock\(\)\.unwrap\(\);\s*let finals = finals\.get\(\)\.unwrap\(\);', 'let finals = finals_ref();', count=1,
                     why='global table access idiom -> shim accessor (assumptions F1-F3 of shims/verus/final_tables.rs)')
F_LOCK_MUT = Rewrite('R4', r'let mut finals = FINAL_TYS\.lock\(\)\.unwrap\(\);\s*let finals = finals\.get_mut\(\)\.unwrap\(\);', 'let mut finals = finals_mut();', count=1,
                     why='global table access idiom -> shim accessor')
F_NOCLOSURE = Rewrite('R5', r'let finalize_int = \|bit_width: u8, signed: bool\| -> FinalTy \{[\s\S]*?\n    \};\n', '', count=1,
                      why='definition of the closure `finalize_int` removed: it is verified as function finalize_int above (its captured ptr_ty is a parameter there)')
F_CALLS = Rewrite('R5', r'finalize_int\(', 'finalize_int(ptr_ty, ', count=None, why='calls of the hoisted closure pass its captured variable')
F_REC = Rewrite('R5', r'(?<!fn )calc_single\(', 'calc_single_sub(', count=None,
                why='recursive calls (entries of the component types) go through a stub: the entry written by this call is what is under contract')
F_UNREACH = Rewrite('R6', r'unreachable!\([^)]*\)', 'proved_unreachable()', count=None, why='`unreachable!` -> a call whose precondition is `false`: PROVED unreachable')
u.extract(CV, 'fn calc_single', rewrites=[F_LOCK_REF, F_LOCK_MUT, F_NOCLOSURE, F_CALLS, F_REC, F_UNREACH],
          desugar_for={0: ('pi', 'ref'), 1: ('mi', 'ref'), 2: ('vi', 'ref')},
          contract="""
    requires
        ptr_ty == ptr_ty_spec(),
        // domain: the widths the language has, and no type that never reaches codegen
        *ty.0 is IInt || *ty.0 is UInt ==> { let w = if *ty.0 is IInt { ty.0->IInt_0 } else { ty.0->UInt_0 };
            w == 0 || w == 8 || w == 16 || w == 32 || w == 64 || w == 128 || w == 255 },
        *ty.0 is Float ==> ty.0->Float_0 == 0 || ty.0->Float_0 == 32 || ty.0->Float_0 == 64,
        !(*ty.0 is NaivePolymorphicFunction),
    ensures
        // every entry the table gets satisfies the write precondition final_ok (shim: insert
        // REQUIRES it), in particular: char and bool are unsigned bytes, `{uint}` is an i32
        final_ok(*ty.0, tfinal(*ty.0)),
""", ret=None,
          loops={0: 'invariant 0 <= pi <= it_pi@.len(), decreases it_pi@.len() - pi',
                 1: 'invariant 0 <= mi <= it_mi@.len(), decreases it_mi@.len() - mi',
                 2: 'invariant 0 <= vi <= it_vi@.len(), decreases it_vi@.len() - vi'})

u.extract(T, 'impl Ty::fn get_max_int_size', wrap=('impl Ty {', '}'), contract='''
    ensures
        // C09: "an integer literal used at an integer type is accepted if and only if its value
        // fits that type" -- literals are u64 values; a limit of None accepts everything
        // (stated through the largest accepted value, which is equivalent because both sets are
        // downward closed: lemma_lit_limit_iff)
        lit_int_ty(*self) ==> lit_limit(res) == lit_max(*self),
    decreases *self
''', inserts=[('@body_start', 'after', '''
        proof {
            lemma_pow2_values();
            assert(pow2(254) >= pow2(128)) by { lemma_pow2_mono(128, 254); }
            reveal_with_fuel(lit_base, 2);
        }
''')])

def find_witness(unit, ob, repo, scratch):
    """Concretiser (DESIGN.md 2.6): look for an input on which the real compiler, built from
    the tree under check, disagrees with the big-integer oracle of the property."""
    import os
    from tools import witness_numeric
    if ob['function'] not in ('cast_num', 'cast_ty_to_cranelift'):
        return None
    if not os.path.isdir(os.path.join(repo, 'target')):
        return None     # scratch copies without build output: do not spend minutes building
    w = witness_numeric.find_cast_witness(repo, scratch)
    if not w or w.get('kind') != 'cast':
        return None
    rdir = os.environ.get('VERIF_REPLAY_DIR') or os.path.join(os.path.dirname(os.path.dirname(os.path.dirname(os.path.abspath(__file__)))), 'replays')
    os.makedirs(rdir, exist_ok=True)
    prog = os.path.join(rdir, 'witness_cast_%s_%s.capy' % (w['frm'], w['to']))
    with open(prog, 'w') as f:
        f.write(w['program'])
    w['program_file'] = prog
    w['cmd'] = '%s/target/debug/capy run %s --mod-dir %s 2>&1 | tail -4   # prints %d, should print %d' % (repo, prog, repo, w['got'], w['expected'])
    return w


# which property each function under contract carries (a failure is reported under it)
u.fn_props = {
    'bit_width': ['C08'], 'into_number_type': ['C08'], 'cast_num': ['C08'], 'cast_ty_to_cranelift': ['C08'],
    'compile_num_binary': ['C08'], 'finalize_int': ['C08', 'C09'], 'calc_single': ['C08'], 'get_max_int_size': ['C09'],
}

MUTANTS = [
    (CV, '''        Ty::Bool | Ty::Char => FinalTy::Number(NumberType {
            ty: types::I8,
            float: false,
            signed: false,''', '''        Ty::Bool | Ty::Char => FinalTy::Number(NumberType {
            ty: types::I8,
            float: false,
            signed: true,''', 'violation'),
    (CV, 'Ty::UInt(bit_width) => finalize_int(*bit_width, false),', 'Ty::UInt(bit_width) => finalize_int(*bit_width, true),', 'violation'),
    # the four defects repaired by "fix:" commits in /repo, re-introduced
    (M, 'std::cmp::Ordering::Less if cast_from.signed => {', 'std::cmp::Ordering::Less if cast_from.signed && cast_to.signed => {', 'violation'),
    (M, 'std::cmp::Ordering::Greater if cast_from.bit_width() == 64 => val,', 'std::cmp::Ordering::Greater if cast_from.bit_width() == 64 => builder.ins().ireduce(int_to, val),', 'violation'),
    (M, '                8 | 16 | 32 => types::I32,\n                _ => types::I64,', '                8 | 16 | 32 => types::I32,\n                _ if cast_from.bit_width() == 32 => types::I32,\n                _ => types::I64,', 'violation'),
    (T, '64 | 255 => Some(i64::MAX as u64),', '64 | 128 => Some(i64::MAX as u64),', 'violation'),
    (T, '128 => Some(u64::MAX),\n                _ => None,\n            },\n            Ty::UInt', '128 => Some(i64::MAX as u64),\n                _ => None,\n            },\n            Ty::UInt', 'violation'),
    (T, '16 => Some(u16::MAX as u64),', '16 => Some(i16::MAX as u64),', 'violation'),
    (M, 'builder.ins().fcvt_from_sint(cast_to.ty, first_cast)', 'builder.ins().fcvt_from_uint(cast_to.ty, first_cast)', 'violation'),
    (CV, '            8 => FinalTy::Number(NumberType {\n                ty: types::I8,\n                float: false,\n                signed,', '            8 => FinalTy::Number(NumberType {\n                ty: types::I8,\n                float: false,\n                signed: true,', 'violation'),

    (F, 'self.builder.ins().sdiv(lhs, rhs)', 'self.builder.ins().udiv(lhs, rhs)', 'violation'),
    (F, 'self.builder.ins().srem(lhs, rhs)', 'self.builder.ins().urem(lhs, rhs)', 'violation'),
    (F, 'self.builder.ins().sshr(lhs, rhs)', 'self.builder.ins().ushr(lhs, rhs)', 'violation'),
    (F, 'self.builder.ins().icmp(IntCC::SignedLessThan, lhs, rhs)', 'self.builder.ins().icmp(IntCC::UnsignedLessThan, lhs, rhs)', 'violation'),
    (F, '.icmp(IntCC::UnsignedGreaterThan, lhs, rhs)', '.icmp(IntCC::UnsignedGreaterThanOrEqual, lhs, rhs)', 'violation'),
    (F, 'hir::BinaryOp::Sub => self.builder.ins().isub(lhs, rhs),', 'hir::BinaryOp::Sub => self.builder.ins().iadd(lhs, rhs),', 'violation'),
]
