"""Unit `abi_bounded` (C19): bounded stand-in through the cfg(capy_verif) hook of codegen: the
real lowering of struct arguments / returns against a reference written from the psABI.  Decides
when a refactoring takes the classification out of the Verus dialect (then the proof of unit
`abi` is undecided) and gives concrete inputs.  BOUNDED -- not a proof."""
from tools.unitapi import Unit
from tools import bounded

UNIT = u = Unit('abi_bounded', ['C19'], 'bounded: all structs of at most 2 (quick) / 3 (thorough) fields from a 15-element field set, in 8 signatures each, real lowering vs psABI reference')
u.expected = ['fn_ty_to_abi']
u.trusted += ['BOUNDED stand-in (not a proof): structs of at most 2 (quick) / 3 (thorough) fields out of {i8,i16,i32,i64,f32,f64,bool,[2]f32,[3]i8,[2]i32,[2]i16,[4]i16,[2]f64,{f32,f32},{i8,i32}}, each passed alone, returned, passed twice, after 4/5/6 integer arguments, after 7 doubles, and with a MEMORY-class return; built with --cfg capy_verif (hook codegen::verif_hooks::sysv_fn_abi)']


def runner(unit, prop, repo, scratch, tier):
    return bounded.run_driver(unit, prop, repo, scratch, tier, 'abi_sysv', [2], [3], 'fn_ty_to_abi',
                              'the x86-64 System V lowering of every listed signature equals the reference written from the psABI (classes per eightbyte, one register per eightbyte, registers handed out left to right, all or nothing)',
                              rustflags='--cfg capy_verif', profile='debug')


u.runner = runner
