"""Unit `index_sites` (C10, last clause): bounded stand-in for the compile-time rejection of
out-of-range literal indices (inside `infer_expr`, hir_ty/src/globals.rs -- out of the verifier's
reach), through the real front end.  BOUNDED."""
from tools.unitapi import Unit
from tools import bounded

UNIT = u = Unit('index_sites', ['C10'], 'bounded: literal index x array length x way of reaching the array, through the real front end')
u.expected = ['infer_expr']
u.trusted += ['BOUNDED stand-in (not a proof): array lengths {1,2,5} (quick) / {1,2,3,5,8} (thorough) x literal indices {0, n-1, n, n+1, n+4} x 6 ways of reaching the array (local, through a pointer, store, nested array, struct field, pointer to pointer); oracle: IndexOutOfBounds iff index >= length']


def runner(unit, prop, repo, scratch, tier):
    return bounded.run_driver(unit, prop, repo, scratch, tier, 'literal_range', ['index', 'quick'], ['index', 'thorough'], 'infer_expr',
                              'IndexOutOfBounds is reported iff the literal index is >= the length of the fixed-size array it indexes, in every listed context')


u.runner = runner

G = 'crates/hir_ty/src/globals.rs'
MUTANTS = [
    (G, 'if index >= actual_size {', 'if index > actual_size {', 'violation'),
    (G, 'if index >= actual_size {', 'if index >= actual_size && actual_size > 1 {', 'violation'),
]
