"""Unit `precedence` (C24): the binding-power table of parse_expr_bp."""
from tools.unitapi import Unit, Rewrite

E = 'crates/parser/src/grammar/expr.rs'

UNIT = u = Unit('precedence', ['C24'], 'binding powers of the binary operators in parse_expr_bp')
u.raw('''
// shims (ASSUMED): TokenKind is generated from tokenizer.txt by a build script, TokenSet by a
// proc macro; both are outside any verifier.  Only the variants the lifted text names are
// listed, plus `Other` for every other token.
#[derive(Clone, Copy, PartialEq, Eq, Structural)]
pub enum TokenKind {
    DoublePipe, DoubleAnd, Left, LeftEquals, Right, RightEquals, DoubleEquals, BangEquals,
    Plus, Hyphen, Pipe, Tilde, Asterisk, Slash, Percent, And, DoubleLeft, DoubleRight, Equals, Other,
}
pub struct TokenSet { pub s: Ghost<Set<TokenKind>> }
impl TokenSet {
    // "a set holding exactly the listed kinds"
    #[verifier::external_body]
    pub fn new<const N: usize>(kinds: [TokenKind; N]) -> (r: TokenSet)
        ensures forall|k: TokenKind| r.s@.contains(k) <==> exists|i: int| 0 <= i < N && #[trigger] kinds@[i] == k
    { unimplemented!() }
}
pub struct Parser { pub cur: Ghost<Option<TokenKind>> }
impl Parser {
    // "is the next non-trivia token of this kind / in this set": looking does not consume
    #[verifier::external_body]
    pub fn at(&mut self, kind: TokenKind) -> (r: bool)
        ensures r == (old(self).cur@ == Some(kind)), final(self).cur == old(self).cur
    { unimplemented!() }
    #[verifier::external_body]
    pub fn at_set(&mut self, set: TokenSet) -> (r: bool)
        ensures r == (old(self).cur@ is Some && set.s@.contains(old(self).cur@->0)), final(self).cur == old(self).cur
    { unimplemented!() }
}
''')
u.spec('spec.rs')
u.trusted += [
    'Parser::at / at_set look at the next non-trivia token without consuming it; TokenSet::new builds the set of the listed kinds (shims; the real ones are behind a proc macro / build script)',
    'the precedence-climbing loop around the table (compare left_bp with minimum_bp, recurse with right_bp, complete a BinaryExpr) is not under contract here -- unit precedence_bounded checks the trees it builds',
]
u.extract(E, 'fn parse_expr_bp', key='binding_power', wrap=('#[verifier::exec_allows_no_decreases_clause]', ''),
          lift=dict(start_at='if p.at(TokenKind::DoublePipe) {', end_at='} else {\n            break;\n        }',
                    sig='fn binding_power(p: &mut Parser) -> (res: Option<(u8, u8)>)',
                    open='loop invariant p.cur == old(p).cur, old(p).cur@ is Some, ensures level(old(p).cur@->0) is None, { let bp: (u8, u8) = ', tail='; return Some(bp); } return None;',
                    why='the if/else chain of parse_expr_bp that picks (left_bp, right_bp) lifted into a function; its `break` (no binary operator here) leaves the wrapper loop and becomes `None`'),
          contract='''
    requires old(p).cur@ is Some
    ensures
        final(p).cur == old(p).cur,
        // the table is the documented one: level l (1 = `||` ... 5 = `* / % & << >>`) gets (2l-1, 2l)
        res == documented_bp(old(p).cur@->0),
''')
u.expected += ['lemma_documented_table_ok']

MUTANTS = [
    (E, '''        } else if p.at(TokenKind::DoubleAnd) {
            (3, 4)''', '''        } else if p.at(TokenKind::DoubleAnd) {
            (1, 2)''', 'violation'),
    (E, '''            TokenKind::DoubleRight,
        ])) {
            (9, 10)''', '''            TokenKind::DoubleRight,
        ])) {
            (10, 9)''', 'violation'),
    (E, '            TokenKind::Pipe,\n            TokenKind::Tilde,\n        ])) {\n            (7, 8)', '            TokenKind::Tilde,\n        ])) {\n            (7, 8)', 'violation'),
    (E, '            TokenKind::And,\n            TokenKind::DoubleLeft,', '            TokenKind::DoubleLeft,', 'violation'),
    (E, '        let (left_bp, right_bp) = if p.at(TokenKind::DoublePipe) {\n            (1, 2)', '        let (left_bp, right_bp) = if p.at(TokenKind::DoublePipe) {\n            (1, 1)', 'violation'),
    (E, '// bump operator', '// bump the operator', 'ok'),
]
