// Specification for C24, from the property statement: "`||` < `&&` < comparisons < `+ - | ~`
// < `* / % & << >>`, all left-associative".  Ghost code only.

/// the precedence level of a binary operator token (1 = binds loosest), None for any other token
pub open spec fn level(k: TokenKind) -> Option<nat> {
    match k {
        TokenKind::DoublePipe => Some(1),
        TokenKind::DoubleAnd => Some(2),
        TokenKind::Left => Some(3), TokenKind::LeftEquals => Some(3), TokenKind::Right => Some(3),
        TokenKind::RightEquals => Some(3), TokenKind::DoubleEquals => Some(3), TokenKind::BangEquals => Some(3),
        TokenKind::Plus => Some(4), TokenKind::Hyphen => Some(4), TokenKind::Pipe => Some(4), TokenKind::Tilde => Some(4),
        TokenKind::Asterisk => Some(5), TokenKind::Slash => Some(5), TokenKind::Percent => Some(5),
        TokenKind::And => Some(5), TokenKind::DoubleLeft => Some(5), TokenKind::DoubleRight => Some(5),
        _ => None,
    }
}
pub open spec fn lbp(o: Option<(u8, u8)>) -> int { (o->0).0 as int }
pub open spec fn rbp(o: Option<(u8, u8)>) -> int { (o->0).1 as int }
/// what a precedence-climbing parser needs from a binding-power table to build the trees the
/// statement prescribes: a higher level binds tighter on the left, and the right binding power
/// exceeds the left one (left associativity) without reaching the next level
pub open spec fn table_ok(f: spec_fn(TokenKind) -> Option<(u8, u8)>) -> bool {
    &&& forall|k: TokenKind| (#[trigger] f(k) is Some) <==> level(k) is Some
    &&& forall|k: TokenKind| level(k) is Some ==> lbp(#[trigger] f(k)) < rbp(f(k))
    &&& forall|a: TokenKind, b: TokenKind| level(a) is Some && level(b) is Some && level(a)->0 == level(b)->0
            ==> #[trigger] f(a) == #[trigger] f(b)
    &&& forall|a: TokenKind, b: TokenKind| level(a) is Some && level(b) is Some && level(a)->0 < level(b)->0
            ==> rbp(#[trigger] f(a)) <= lbp(#[trigger] f(b))
}
/// the table the statement implies, in the (2l-1, 2l) encoding
pub open spec fn documented_bp(k: TokenKind) -> Option<(u8, u8)> {
    match level(k) { Some(l) => Some(((2 * l - 1) as u8, (2 * l) as u8)), None => None }
}
pub proof fn lemma_documented_table_ok()
    ensures table_ok(|k: TokenKind| documented_bp(k))
{
}
