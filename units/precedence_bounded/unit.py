"""Unit `precedence_bounded` (C24): bounded stand-in for the precedence-climbing loop of
parse_expr_bp (recursive over a token stream and an event sink; not within the verifier's
reach): trees of all operator chains up to a length, on the real parser.  BOUNDED."""
from tools.unitapi import Unit
from tools import bounded

UNIT = u = Unit('precedence_bounded', ['C24'], 'bounded: every chain of at most 3 (quick) / 4 (thorough) binary operators parses into the tree the precedence table dictates')
u.expected = ['parse_expr_bp']
u.trusted += ['BOUNDED stand-in (not a proof): all chains of at most 3 (quick) / 4 (thorough) of the 18 binary operators over plain operands, chains of at most 2 over prefixed / postfixed operands, parsed as a REPL line by the real lexer + parser and read back through the ast accessors; oracle: precedence climbing over the table of the property statement']


def runner(unit, prop, repo, scratch, tier):
    return bounded.run_driver(unit, prop, repo, scratch, tier, 'precedence', [3], [4], 'parse_expr_bp',
                              'every chain of at most N binary operators parses without error into the tree dictated by `||` < `&&` < comparisons < `+ - | ~` < `* / % & << >>`, left-associative')


u.runner = runner

E = 'crates/parser/src/grammar/expr.rs'
MUTANTS = [
    (E, 'parse_expr_bp(p, right_bp, recovery_set, "operand");', 'parse_expr_bp(p, left_bp, recovery_set, "operand");', 'violation'),
    (E, 'if left_bp < minimum_bp {', 'if left_bp > minimum_bp {', 'violation'),
    # equivalent: left powers are odd, minimum powers are even or 0
    (E, 'if left_bp < minimum_bp {', 'if left_bp <= minimum_bp {', 'ok'),
]
