// Specification for C26, from the statement.  Vocabulary: `parent` waits on `child`
// (insert_dep(parent, child)); an entry (k, d) of the map is a *pending* item k;
// d.parents are the items that registered a dependency on k; d.num_children is how many
// pending items k still waits on.  Ghost code only.

impl<T> Default for IndexMap<T, Dependencies<T>> {
    #[verifier::external_body]
    fn default() -> (r: Self) ensures r@.len() == 0, r.wf() { unimplemented!() }
}
impl<T> Default for IndexSet<T> {
    #[verifier::external_body]
    fn default() -> (r: Self) ensures r@.len() == 0, r.wf() { unimplemented!() }
}

/// does pending entry i list k among the items waiting on it?
pub open spec fn lists<T>(top: Seq<(T, Dependencies<T>)>, i: int, k: T) -> bool {
    top[i].1.parents@.contains(k)
}
/// number of pending items among the first n that k still waits on
pub open spec fn waits_count<T>(top: Seq<(T, Dependencies<T>)>, k: T, n: int) -> int decreases n {
    if n <= 0 { 0 } else { waits_count(top, k, n - 1) + if lists(top, n - 1, k) { 1int } else { 0int } }
}
/// representation invariant: keys distinct, each parent set duplicate-free, and the counter
/// of every pending item equals the number of pending items it waits on
pub open spec fn topo_wf<T>(top: Seq<(T, Dependencies<T>)>) -> bool {
    &&& keys_distinct(top)
    &&& forall|i: int| 0 <= i < top.len() ==> (#[trigger] top[i]).1.parents.wf()
    &&& forall|i: int| 0 <= i < top.len() ==> (#[trigger] top[i]).1.num_children as int == waits_count(top, top[i].0, top.len() as int)
}

/// no pending item lists k as waiting on it (true of an item that was never in the schedule)
pub open spec fn no_stale_edges<T>(top: Seq<(T, Dependencies<T>)>, k: T) -> bool {
    !has_key(top, k) ==> forall|i: int| 0 <= i < top.len() ==> !lists(top, i, k)
}

// `x.into()` at U = T is the reflexive `impl<T> From<T> for T`, the identity
pub assume_specification<T>[ <T as core::convert::From<T>>::from ](x: T) -> (r: T)
    ensures r == x;

// ---- lemmas about waits_count ------------------------------------------------------------

/// the count only looks at the parent sets of the first n entries
pub proof fn lemma_waits_ext<T>(a: Seq<(T, Dependencies<T>)>, b: Seq<(T, Dependencies<T>)>, k: T, n: int)
    requires 0 <= n <= a.len(), n <= b.len(),
        forall|i: int| 0 <= i < n ==> (#[trigger] a[i]).1.parents@ == b[i].1.parents@
    ensures waits_count(a, k, n) == waits_count(b, k, n)
    decreases n
{
    if n > 0 {
        lemma_waits_ext(a, b, k, n - 1);
        assert(a[n - 1].1.parents@ == b[n - 1].1.parents@);
    }
}
/// nobody lists k  ==>  the count is zero
pub proof fn lemma_waits_zero<T>(a: Seq<(T, Dependencies<T>)>, k: T, n: int)
    requires 0 <= n <= a.len(), forall|i: int| 0 <= i < n ==> !lists(a, i, k)
    ensures waits_count(a, k, n) == 0
    decreases n
{
    if n > 0 { lemma_waits_zero(a, k, n - 1); }
}
pub proof fn lemma_waits_bounds<T>(a: Seq<(T, Dependencies<T>)>, k: T, n: int)
    requires 0 <= n <= a.len()
    ensures 0 <= waits_count(a, k, n) <= n
    decreases n
{
    if n > 0 { lemma_waits_bounds(a, k, n - 1); }
}

/// appending a fresh item that waits on nothing, and on which nothing waits, keeps the invariant
pub proof fn lemma_push_fresh<T>(old_top: Seq<(T, Dependencies<T>)>, new_top: Seq<(T, Dependencies<T>)>)
    requires
        topo_wf(old_top), new_top.len() == old_top.len() + 1, new_top.drop_last() == old_top,
        !has_key(old_top, new_top.last().0), no_stale_edges(old_top, new_top.last().0),
        new_top.last().1.num_children == 0, new_top.last().1.parents@.len() == 0, new_top.last().1.parents.wf(),
    ensures topo_wf(new_top)
{
    let n = old_top.len() as int;
    let k = new_top.last().0;
    assert forall|i: int, j: int| 0 <= i < j < new_top.len() implies new_top[i].0 != new_top[j].0 by {
        if j == n { assert(new_top[i] == old_top[i]); assert(old_top[i].0 != k); }
        else { assert(new_top[i] == old_top[i]); assert(new_top[j] == old_top[j]); }
    }
    assert forall|i: int| 0 <= i < new_top.len() implies (#[trigger] new_top[i]).1.parents.wf() by {
        if i < n { assert(new_top[i] == old_top[i]); }
    }
    assert forall|i: int| 0 <= i < new_top.len() implies
        (#[trigger] new_top[i]).1.num_children as int == waits_count(new_top, new_top[i].0, new_top.len() as int) by {
        let ki = new_top[i].0;
        assert forall|m: int| 0 <= m < n implies (#[trigger] new_top[m]).1.parents@ == old_top[m].1.parents@ by {
            assert(new_top[m] == old_top[m]);
        }
        lemma_waits_ext(new_top, old_top, ki, n);
        assert(!lists(new_top, n, ki));   // the fresh entry lists nobody
        if i < n {
            assert(new_top[i] == old_top[i]);
        } else {
            assert forall|m: int| 0 <= m < n implies !lists(old_top, m, k) by { }
            lemma_waits_zero(old_top, k, n);
        }
    }
}

// ---- removing a completed item -------------------------------------------------------------

/// is k among the parents that the removal loop has not processed yet?
pub open spec fn still_to_do<T>(ps: Seq<T>, from: int, k: T) -> bool {
    exists|t: int| from <= t < ps.len() && #[trigger] ps[t] == k
}
/// removing entry i: the count of k loses exactly the contribution of entry i
pub proof fn lemma_waits_remove<T>(a: Seq<(T, Dependencies<T>)>, i: int, k: T, m: int)
    requires 0 <= i < a.len(), 0 <= m <= a.len()
    ensures
        m <= i ==> waits_count(a, k, m) == waits_count(a.remove(i), k, m),
        m > i ==> waits_count(a, k, m) == waits_count(a.remove(i), k, m - 1) + if lists(a, i, k) { 1int } else { 0int },
    decreases m
{
    let r = a.remove(i);
    if m > 0 {
        lemma_waits_remove(a, i, k, m - 1);
        if m - 1 < i { assert(r[m - 1] == a[m - 1]); }
        else if m - 1 > i { assert(r[m - 2] == a[m - 1]); }
    }
}
/// state of the map while `remove` walks over the parents of the removed entry
pub open spec fn remove_inv<T>(cur: Seq<(T, Dependencies<T>)>, r: Seq<(T, Dependencies<T>)>, ps: Seq<T>, j: int) -> bool {
    &&& cur.len() == r.len()
    &&& forall|m: int| 0 <= m < r.len() ==> (#[trigger] cur[m]).0 == r[m].0 && cur[m].1.parents == r[m].1.parents
    &&& forall|m: int| 0 <= m < r.len() ==> (#[trigger] cur[m]).1.num_children as int
            == waits_count(r, r[m].0, r.len() as int) + if still_to_do(ps, j, r[m].0) { 1int } else { 0int }
}
pub proof fn lemma_remove_start<T>(old_top: Seq<(T, Dependencies<T>)>, i: int)
    requires topo_wf(old_top), 0 <= i < old_top.len()
    ensures remove_inv(old_top.remove(i), old_top.remove(i), old_top[i].1.parents@, 0),
        keys_distinct(old_top.remove(i)),
        !has_key(old_top.remove(i), old_top[i].0),
{
    let r = old_top.remove(i);
    let ps = old_top[i].1.parents@;
    let n = old_top.len() as int;
    assert forall|m: int| 0 <= m < r.len() implies (#[trigger] r[m]).1.num_children as int
        == waits_count(r, r[m].0, r.len() as int) + if still_to_do(ps, 0, r[m].0) { 1int } else { 0int } by {
        let mo = if m < i { m } else { m + 1 };
        assert(r[m] == old_top[mo]);
        lemma_waits_remove(old_top, i, r[m].0, n);
        // lists(old_top, i, k)  <==>  k is among the parents to process
        if lists(old_top, i, r[m].0) {
            let t = choose|t: int| 0 <= t < ps.len() && ps[t] == r[m].0;
            assert(still_to_do(ps, 0, r[m].0));
        }
    }
    assert forall|a: int, b: int| 0 <= a < b < r.len() implies r[a].0 != r[b].0 by {
        let ao = if a < i { a } else { a + 1 }; let bo = if b < i { b } else { b + 1 };
        assert(r[a] == old_top[ao]); assert(r[b] == old_top[bo]);
    }
    assert forall|m: int| 0 <= m < r.len() implies (#[trigger] r[m]).0 != old_top[i].0 by {
        let mo = if m < i { m } else { m + 1 };
        assert(r[m] == old_top[mo]);
    }
}
/// when every parent has been processed the invariant is the representation invariant
pub proof fn lemma_remove_end<T>(cur: Seq<(T, Dependencies<T>)>, r: Seq<(T, Dependencies<T>)>, ps: Seq<T>, old_top: Seq<(T, Dependencies<T>)>, i: int)
    requires remove_inv(cur, r, ps, ps.len() as int), topo_wf(old_top), 0 <= i < old_top.len(), r == old_top.remove(i)
    ensures topo_wf(cur)
{
    lemma_remove_start(old_top, i);
    assert forall|m: int| 0 <= m < cur.len() implies (#[trigger] cur[m]).1.parents.wf() by {
        let mo = if m < i { m } else { m + 1 };
        assert(r[m] == old_top[mo]);
    }
    assert forall|m: int| 0 <= m < cur.len() implies
        (#[trigger] cur[m]).1.num_children as int == waits_count(cur, cur[m].0, cur.len() as int) by {
        assert forall|q: int| 0 <= q < r.len() implies (#[trigger] cur[q]).1.parents@ == r[q].1.parents@ by {}
        lemma_waits_ext(cur, r, cur[m].0, r.len() as int);
        assert(!still_to_do(ps, ps.len() as int, r[m].0));
    }
    assert forall|a: int, b: int| 0 <= a < b < cur.len() implies cur[a].0 != cur[b].0 by {
        assert(cur[a].0 == r[a].0); assert(cur[b].0 == r[b].0);
    }
}

// ---- registering a dependency ----------------------------------------------------------------

/// `T::clone` yields an equal value (ASSUMED of the item type; the checker's ConcreteLoc is Copy)
pub open spec fn clone_is_identity<T: Clone>() -> bool {
    forall|a: &T, b: T| #[trigger] call_ensures(T::clone, (a,), b) ==> *a == b
}
/// the invariant with the counter of item p lagging one behind (between the two steps of insert_dep)
pub open spec fn topo_wf_except<T>(top: Seq<(T, Dependencies<T>)>, p: T) -> bool {
    &&& keys_distinct(top)
    &&& forall|i: int| 0 <= i < top.len() ==> (#[trigger] top[i]).1.parents.wf()
    &&& forall|i: int| 0 <= i < top.len() ==> (#[trigger] top[i]).1.num_children as int
            == waits_count(top, top[i].0, top.len() as int) - if top[i].0 == p { 1int } else { 0int }
}
/// entry i gets one more dependant p: the count of p grows by one, all others stay
pub proof fn lemma_waits_add_lister<T>(a: Seq<(T, Dependencies<T>)>, b: Seq<(T, Dependencies<T>)>, i: int, p: T, k: T, m: int)
    requires 0 <= i < a.len(), a.len() == b.len(), 0 <= m <= a.len(),
        forall|q: int| 0 <= q < a.len() && q != i ==> (#[trigger] b[q]).1.parents@ == a[q].1.parents@,
        b[i].1.parents@ == a[i].1.parents@.push(p), !a[i].1.parents@.contains(p),
    ensures
        waits_count(b, k, m) == waits_count(a, k, m) + if m > i && k == p { 1int } else { 0int }
    decreases m
{
    if m > 0 {
        lemma_waits_add_lister(a, b, i, p, k, m - 1);
        if m - 1 == i {
            let s = a[i].1.parents@;
            assert(s.push(p).contains(k) == (s.contains(k) || k == p)) by {
                if s.contains(k) { let t = choose|t: int| 0 <= t < s.len() && s[t] == k; assert(s.push(p)[t] == k); }
                if k == p { assert(s.push(p)[s.len() as int] == p); }
                if s.push(p).contains(k) {
                    let t = choose|t: int| 0 <= t < s.push(p).len() && s.push(p)[t] == k;
                    if t < s.len() { assert(s[t] == k); }
                }
            }
        } else {
            assert(b[m - 1].1.parents@ == a[m - 1].1.parents@);
        }
    }
}
/// step 1, child already pending at index i
pub proof fn lemma_dep_step1_update<T>(old_top: Seq<(T, Dependencies<T>)>, top1: Seq<(T, Dependencies<T>)>, i: int, p: T)
    requires topo_wf(old_top), 0 <= i < old_top.len(), top1.len() == old_top.len(),
        forall|q: int| 0 <= q < old_top.len() && q != i ==> #[trigger] top1[q] == old_top[q],
        top1[i].0 == old_top[i].0, top1[i].1.num_children == old_top[i].1.num_children,
        top1[i].1.parents@ == old_top[i].1.parents@.push(p), !old_top[i].1.parents@.contains(p), top1[i].1.parents.wf(),
    ensures topo_wf_except(top1, p),
        waits_count(top1, p, top1.len() as int) == waits_count(old_top, p, old_top.len() as int) + 1,
        forall|k: T| has_key(top1, k) == has_key(old_top, k),
{
    let n = old_top.len() as int;
    assert forall|a: int, b: int| 0 <= a < b < top1.len() implies top1[a].0 != top1[b].0 by {
        assert(top1[a].0 == old_top[a].0); assert(top1[b].0 == old_top[b].0);
    }
    assert forall|q: int| 0 <= q < top1.len() implies (#[trigger] top1[q]).1.parents.wf() by {
        if q != i { assert(top1[q] == old_top[q]); }
    }
    assert forall|q: int| 0 <= q < n && q != i implies (#[trigger] top1[q]).1.parents@ == old_top[q].1.parents@ by {
        assert(top1[q] == old_top[q]);
    }
    assert forall|q: int| 0 <= q < top1.len() implies (#[trigger] top1[q]).1.num_children as int
        == waits_count(top1, top1[q].0, n) - if top1[q].0 == p { 1int } else { 0int } by {
        lemma_waits_add_lister(old_top, top1, i, p, top1[q].0, n);
        assert(top1[q].0 == old_top[q].0);
        assert(top1[q].1.num_children == old_top[q].1.num_children);
    }
    lemma_waits_add_lister(old_top, top1, i, p, p, n);
    assert forall|k: T| has_key(top1, k) == has_key(old_top, k) by {
        if has_key(top1, k) { let t = choose|t: int| 0 <= t < top1.len() && top1[t].0 == k; assert(old_top[t].0 == k); }
        if has_key(old_top, k) { let t = choose|t: int| 0 <= t < old_top.len() && old_top[t].0 == k; assert(top1[t].0 == k); }
    }
}
/// step 1, child not pending: appended with the single dependant p
pub proof fn lemma_dep_step1_push<T>(old_top: Seq<(T, Dependencies<T>)>, top1: Seq<(T, Dependencies<T>)>, p: T)
    requires topo_wf(old_top), top1.len() == old_top.len() + 1, top1.drop_last() == old_top,
        !has_key(old_top, top1.last().0), no_stale_edges(old_top, top1.last().0),
        top1.last().1.num_children == 0, top1.last().1.parents@ == seq![p], top1.last().1.parents.wf(),
    ensures topo_wf_except(top1, p),
        waits_count(top1, p, top1.len() as int) == waits_count(old_top, p, old_top.len() as int) + 1,
{
    let n = old_top.len() as int;
    let c = top1.last().0;
    assert(seq![p].contains(p)) by { assert(seq![p][0] == p); }
    assert forall|a: int, b: int| 0 <= a < b < top1.len() implies top1[a].0 != top1[b].0 by {
        if b == n { assert(top1[a] == old_top[a]); assert(old_top[a].0 != c); }
        else { assert(top1[a] == old_top[a]); assert(top1[b] == old_top[b]); }
    }
    assert forall|q: int| 0 <= q < top1.len() implies (#[trigger] top1[q]).1.parents.wf() by {
        if q < n { assert(top1[q] == old_top[q]); }
    }
    assert forall|m: int| 0 <= m < n implies (#[trigger] top1[m]).1.parents@ == old_top[m].1.parents@ by {
        assert(top1[m] == old_top[m]);
    }
    assert forall|q: int| 0 <= q < top1.len() implies (#[trigger] top1[q]).1.num_children as int
        == waits_count(top1, top1[q].0, n + 1) - if top1[q].0 == p { 1int } else { 0int } by {
        let kq = top1[q].0;
        lemma_waits_ext(top1, old_top, kq, n);
        assert(lists(top1, n, kq) == (kq == p)) by {
            if seq![p].contains(kq) { let t = choose|t: int| 0 <= t < seq![p].len() && seq![p][t] == kq; }
        }
        if q < n { assert(top1[q] == old_top[q]); }
        else {
            assert forall|m: int| 0 <= m < n implies !lists(old_top, m, c) by { }
            lemma_waits_zero(old_top, c, n);
        }
    }
    lemma_waits_ext(top1, old_top, p, n);
}
/// step 2, the waiting item is pending at index j: its counter catches up
pub proof fn lemma_dep_step2_update<T>(top1: Seq<(T, Dependencies<T>)>, fin: Seq<(T, Dependencies<T>)>, j: int, p: T)
    requires topo_wf_except(top1, p), 0 <= j < top1.len(), top1[j].0 == p, fin.len() == top1.len(),
        forall|q: int| 0 <= q < top1.len() && q != j ==> #[trigger] fin[q] == top1[q],
        fin[j].0 == p, fin[j].1.num_children == top1[j].1.num_children + 1, fin[j].1.parents == top1[j].1.parents,
    ensures topo_wf(fin)
{
    let n = top1.len() as int;
    assert forall|q: int| 0 <= q < n implies (#[trigger] fin[q]).0 == top1[q].0 && fin[q].1.parents == top1[q].1.parents by {
        if q != j { assert(fin[q] == top1[q]); }
    }
    assert forall|a: int, b: int| 0 <= a < b < fin.len() implies fin[a].0 != fin[b].0 by {
        assert(fin[a].0 == top1[a].0); assert(fin[b].0 == top1[b].0);
    }
    assert forall|q: int| 0 <= q < fin.len() implies (#[trigger] fin[q]).1.num_children as int == waits_count(fin, fin[q].0, n) by {
        assert forall|m: int| 0 <= m < n implies (#[trigger] fin[m]).1.parents@ == top1[m].1.parents@ by {}
        lemma_waits_ext(fin, top1, fin[q].0, n);
        if q != j { assert(fin[q] == top1[q]); assert(top1[q].0 != p); }
    }
}
/// step 2, the waiting item is not pending: appended with counter 1
pub proof fn lemma_dep_step2_push<T>(top1: Seq<(T, Dependencies<T>)>, fin: Seq<(T, Dependencies<T>)>, p: T)
    requires topo_wf_except(top1, p), !has_key(top1, p), fin.len() == top1.len() + 1, fin.drop_last() == top1,
        fin.last().0 == p, fin.last().1.num_children == 1, fin.last().1.parents@.len() == 0, fin.last().1.parents.wf(),
        waits_count(top1, p, top1.len() as int) == 1,
    ensures topo_wf(fin)
{
    let n = top1.len() as int;
    assert forall|a: int, b: int| 0 <= a < b < fin.len() implies fin[a].0 != fin[b].0 by {
        if b == n { assert(fin[a] == top1[a]); assert(top1[a].0 != p); }
        else { assert(fin[a] == top1[a]); assert(fin[b] == top1[b]); }
    }
    assert forall|q: int| 0 <= q < fin.len() implies (#[trigger] fin[q]).1.parents.wf() by {
        if q < n { assert(fin[q] == top1[q]); }
    }
    assert forall|m: int| 0 <= m < n implies (#[trigger] fin[m]).1.parents@ == top1[m].1.parents@ by {
        assert(fin[m] == top1[m]);
    }
    assert forall|q: int| 0 <= q < fin.len() implies (#[trigger] fin[q]).1.num_children as int == waits_count(fin, fin[q].0, n + 1) by {
        lemma_waits_ext(fin, top1, fin[q].0, n);
        assert(!lists(fin, n, fin[q].0));
        if q < n { assert(fin[q] == top1[q]); assert(top1[q].0 != p); }
    }
}

/// the dependency parent -> child is on record already
pub open spec fn already_registered<T>(top: Seq<(T, Dependencies<T>)>, parent: T, child: T) -> bool {
    exists|i: int| 0 <= i < top.len() && #[trigger] top[i].0 == child && lists(top, i, parent)
}
/// same pending items, same counters, same dependants (the containers may differ as objects)
pub open spec fn top_equiv<T>(a: Seq<(T, Dependencies<T>)>, b: Seq<(T, Dependencies<T>)>) -> bool {
    a.len() == b.len() && forall|i: int| 0 <= i < a.len() ==> (#[trigger] a[i]).0 == b[i].0
        && a[i].1.num_children == b[i].1.num_children && a[i].1.parents@ == b[i].1.parents@
}
pub proof fn lemma_equiv_wf<T>(a: Seq<(T, Dependencies<T>)>, b: Seq<(T, Dependencies<T>)>)
    requires topo_wf(a), top_equiv(a, b)
    ensures topo_wf(b)
{
    assert forall|i: int, j: int| 0 <= i < j < b.len() implies b[i].0 != b[j].0 by {
        assert(a[i].0 == b[i].0); assert(a[j].0 == b[j].0);
    }
    assert forall|i: int| 0 <= i < b.len() implies (#[trigger] b[i]).1.parents.wf() by {
        assert(a[i].1.parents@ == b[i].1.parents@); assert(a[i].1.parents.wf());
    }
    assert forall|i: int| 0 <= i < b.len() implies (#[trigger] b[i]).1.num_children as int == waits_count(b, b[i].0, b.len() as int) by {
        assert forall|m: int| 0 <= m < a.len() implies (#[trigger] b[m]).1.parents@ == a[m].1.parents@ by { assert(a[m].0 == b[m].0); }
        lemma_waits_ext(b, a, b[i].0, a.len() as int);
        assert(a[i].0 == b[i].0);
    }
}
/// the entry of `child` that lists `parent` keeps doing so when only counters change or an
/// item is appended
pub proof fn lemma_key_pos<T>(fin: Seq<(T, Dependencies<T>)>, top1: Seq<(T, Dependencies<T>)>, child: T, parent: T)
    requires
        top1.len() <= fin.len(),
        forall|q: int| 0 <= q < top1.len() ==> (#[trigger] fin[q]).0 == top1[q].0 && fin[q].1.parents@ == top1[q].1.parents@,
        exists|i: int| 0 <= i < top1.len() && #[trigger] top1[i].0 == child && lists(top1, i, parent),
    ensures exists|i: int| 0 <= i < fin.len() && #[trigger] fin[i].0 == child && lists(fin, i, parent)
{
    let i = choose|i: int| 0 <= i < top1.len() && #[trigger] top1[i].0 == child && lists(top1, i, parent);
    assert(fin[i].0 == child && lists(fin, i, parent));
}

// ---- what a scheduling round offers ----------------------------------------------------------

/// "all of whose registered dependencies have completed": no pending item is listed as one
/// the item at index i still waits on
pub open spec fn ready<T>(top: Seq<(T, Dependencies<T>)>, i: int) -> bool {
    forall|m: int| 0 <= m < top.len() ==> !lists(top, m, top[i].0)
}
pub proof fn lemma_waits_pos<T>(a: Seq<(T, Dependencies<T>)>, k: T, n: int, m: int)
    requires 0 <= m < n <= a.len(), lists(a, m, k)
    ensures waits_count(a, k, n) >= 1
    decreases n
{
    lemma_waits_bounds(a, k, n - 1);
    if m < n - 1 { lemma_waits_pos(a, k, n - 1, m); }
}
/// under the invariant, the counter is zero exactly for the ready items
pub proof fn lemma_ready_iff_zero<T>(top: Seq<(T, Dependencies<T>)>, i: int)
    requires topo_wf(top), 0 <= i < top.len()
    ensures (top[i].1.num_children == 0) <==> ready(top, i)
{
    let k = top[i].0;
    if ready(top, i) {
        assert forall|m: int| 0 <= m < top.len() implies !lists(top, m, k) by {}
        lemma_waits_zero(top, k, top.len() as int);
    }
    if top[i].1.num_children == 0 {
        assert forall|m: int| 0 <= m < top.len() implies !lists(top, m, k) by {
            if lists(top, m, k) { lemma_waits_pos(top, k, top.len() as int, m); }
        }
    }
}

// shims for the iterator chains of peek_all / in_cycle / peek_all_cyclic (ASSUMED: the std
// meaning of iter().filter(f).map(key).collect(), values().all(f), keys().collect())
pub open spec fn strictly_increasing(s: Seq<int>) -> bool {
    forall|a: int, b: int| 0 <= a < b < s.len() ==> s[a] < s[b]
}
#[verifier::external_body]
pub fn filter_keys<'a, K, V, F: Fn(&V) -> bool>(m: &'a IndexMap<K, V>, f: F) -> (r: Vec<&'a K>)
    requires forall|v: &V| #[trigger] f.requires((v,))
    ensures exists|idx: Seq<int>| #[trigger] strictly_increasing(idx) && idx.len() == r@.len()
        && (forall|j: int| 0 <= j < idx.len() ==> 0 <= #[trigger] idx[j] < m@.len() && *r@[j] == m@[idx[j]].0 && f.ensures((&m@[idx[j]].1,), true))
        && (forall|i: int| 0 <= i < m@.len() && !idx.contains(i) ==> f.ensures((&(#[trigger] m@[i]).1,), false))
{ unimplemented!() }
#[verifier::external_body]
pub fn all_values<K, V, F: Fn(&V) -> bool>(m: &IndexMap<K, V>, f: F) -> (r: bool)
    requires forall|v: &V| #[trigger] f.requires((v,))
    ensures r ==> forall|i: int| 0 <= i < m@.len() ==> f.ensures((&(#[trigger] m@[i]).1,), true),
        !r ==> exists|i: int| 0 <= i < m@.len() && f.ensures((&(#[trigger] m@[i]).1,), false),
{ unimplemented!() }
#[verifier::external_body]
pub fn all_keys<'a, K, V>(m: &'a IndexMap<K, V>) -> (r: Vec<&'a K>)
    ensures r@.len() == m@.len(), forall|i: int| 0 <= i < m@.len() ==> *(#[trigger] r@[i]) == m@[i].0
{ unimplemented!() }

/// the offered list is exactly the items selected by `sel`, each once, in schedule order
pub open spec fn offered_exactly<T>(top: Seq<(T, Dependencies<T>)>, offered: Seq<&T>, sel: spec_fn(int) -> bool) -> bool {
    exists|idx: Seq<int>| #[trigger] strictly_increasing(idx) && idx.len() == offered.len()
        && (forall|j: int| 0 <= j < idx.len() ==> 0 <= #[trigger] idx[j] < top.len() && *offered[j] == top[idx[j]].0 && sel(idx[j]))
        && (forall|i: int| 0 <= i < top.len() && sel(i) ==> idx.contains(i))
}
pub open spec fn all_waiting<T>(top: Seq<(T, Dependencies<T>)>) -> bool {
    forall|i: int| 0 <= i < top.len() ==> (#[trigger] top[i]).1.num_children != 0
}
/// C26, first sentence: under the invariant a round offers exactly the ready items
pub proof fn lemma_round_offers_ready<T>(top: Seq<(T, Dependencies<T>)>, offered: Seq<&T>)
    requires topo_wf(top), offered_exactly(top, offered, |i: int| top[i].1.num_children == 0)
    ensures offered_exactly(top, offered, |i: int| ready(top, i))
{
    let idx = choose|idx: Seq<int>| #[trigger] strictly_increasing(idx) && idx.len() == offered.len()
        && (forall|j: int| 0 <= j < idx.len() ==> 0 <= #[trigger] idx[j] < top.len() && *offered[j] == top[idx[j]].0 && top[idx[j]].1.num_children == 0)
        && (forall|i: int| 0 <= i < top.len() && top[i].1.num_children == 0 ==> idx.contains(i));
    assert forall|j: int| 0 <= j < idx.len() implies 0 <= #[trigger] idx[j] < top.len() && *offered[j] == top[idx[j]].0 && ready(top, idx[j]) by {
        lemma_ready_iff_zero(top, idx[j]);
    }
    assert forall|i: int| 0 <= i < top.len() && ready(top, i) implies idx.contains(i) by {
        lemma_ready_iff_zero(top, i);
    }
    assert(strictly_increasing(idx));
}
/// C26, second sentence: a cycle is reported exactly when the schedule is non-empty and every
/// pending item still waits on a pending item
pub proof fn lemma_cycle_iff<T>(top: Seq<(T, Dependencies<T>)>)
    requires topo_wf(top)
    ensures all_waiting(top) <==> forall|i: int| 0 <= i < top.len() ==> !#[trigger] ready(top, i)
{
    assert forall|i: int| 0 <= i < top.len() implies ((#[trigger] top[i]).1.num_children == 0 <==> ready(top, i)) by {
        lemma_ready_iff_zero(top, i);
    }
    if all_waiting(top) {
        assert forall|i: int| 0 <= i < top.len() implies !#[trigger] ready(top, i) by { assert(top[i].1.num_children != 0); }
    }
    if forall|i: int| 0 <= i < top.len() ==> !#[trigger] ready(top, i) {
        assert forall|i: int| 0 <= i < top.len() implies (#[trigger] top[i]).1.num_children != 0 by { assert(!ready(top, i)); }
    }
}
