"""Unit `topo` (C26): crates/topo TopoSort under contract, IndexMap/IndexSet replaced by a specified shim."""
from tools.unitapi import Unit, Rewrite

TP = 'crates/topo/src/lib.rs'

UNIT = u = Unit('topo', ['C26'], 'dependency scheduler: representation invariant over all histories')
u.raw('use std::ops::Index;')
u.shim('indexmap.rs')
u.extract(TP, 'struct CycleErr', keep_derives=set())
u.extract(TP, 'struct Dependencies', keep_derives=set(), pub_fields=True,
          rewrites=[Rewrite('R4', r'^struct Dependencies', 'pub struct Dependencies', flags=8, why='private datatype widened to pub')])
u.extract(TP, 'struct TopoSort', keep_derives=set(), pub_fields=True)
u.spec('spec.rs')
u.extract(TP, 'impl Dependencies<T>::fn new', wrap=('impl<T> Dependencies<T> {', '}'), contract='''
    ensures res.num_children == 0, res.parents@.len() == 0, res.parents.wf()
''')
u.extract(TP, 'impl Default for TopoSort<T>::fn default', wrap=('impl<T> Default for TopoSort<T> {', '}'), contract='''
    ensures res.top@.len() == 0, topo_wf(res.top@)
''')
IMPL = ('impl<T: Clone> TopoSort<T> {', '}')
u.extract(TP, 'impl TopoSort<T>::fn len', wrap=IMPL, contract='    ensures res == self.top@.len()')
u.extract(TP, 'impl TopoSort<T>::fn is_empty', wrap=IMPL, contract='    ensures res == (self.top@.len() == 0)')

u.trusted += [
    'indexmap::{IndexMap, IndexSet, Entry} as specified in shims/verus/indexmap.rs (insertion-ordered sequences with distinct keys/elements)',
    '`T::clone` returns an equal value and `Into<T>::into` is some total conversion (generic parameters)',
    'iterator chains of peek_all / in_cycle / peek_all_cyclic are replaced by shim functions that take the SAME closure (predicate text kept)',
    'usage protocol of the checker (InferenceCtx::finish): a dependency is only registered on an item that is pending or has never been in the schedule -- stated as a precondition of insert_dep / insert (no stale edges), not proved about hir_ty',
    'extend / insert_deps / pop / pop_all (generic IntoIterator, closure chains) are not under contract: insert_deps is a loop over insert_dep, extend inserts items without dependencies',
]

MONO_U = Rewrite('R4', r'pub fn insert<U>\(&mut self, item: U\) -> bool\s*where\s*U: Into<T>,', 'pub fn insert(&mut self, item: T) -> bool', count=1,
                 why='generic parameter instantiated at U = T, the only instantiation the checker uses (Into<T> for T is the identity)')
u.extract(TP, 'impl TopoSort<T>::fn insert', wrap=('impl<T: Clone> TopoSort<T> {', '}'), rewrites=[MONO_U],
          inserts=[('e.insert(dep);', 'after', ' proof { assert(self.top@.drop_last() =~= old(self).top@); lemma_push_fresh(old(self).top@, self.top@); } ')],
          contract='''
    requires topo_wf(old(self).top@), no_stale_edges(old(self).top@, item)
    ensures
        topo_wf(final(self).top@),
        res == !has_key(old(self).top@, item),
        // a lone element: nothing else changes, a new item waits on nothing and nothing waits on it
        res ==> final(self).top@.len() == old(self).top@.len() + 1
                && final(self).top@.drop_last() == old(self).top@
                && final(self).top@.last().0 == item
                && final(self).top@.last().1.num_children == 0
                && final(self).top@.last().1.parents@.len() == 0,
        !res ==> final(self).top@ == old(self).top@,
''')
u.extract(TP, 'impl TopoSort<T>::fn clear', wrap=IMPL, contract='''
    ensures final(self).top@.len() == 0, topo_wf(final(self).top@)
''')

u.extract(TP, 'impl TopoSort<T>::fn remove', wrap=IMPL,
          desugar_for={0: ('si', 'ref')},
          contract='''
    requires topo_wf(old(self).top@)
    ensures
        topo_wf(final(self).top@),
        res == has_key(old(self).top@, *child),
        // "an item is offered again only after it was re-registered as pending": it is gone
        !has_key(final(self).top@, *child),
        !res ==> final(self).top@ == old(self).top@,
        // the other items stay, in their order, with their registered dependants
        res ==> exists|i: int| 0 <= i < old(self).top@.len() && #[trigger] old(self).top@[i].0 == *child
            && remove_inv(final(self).top@, old(self).top@.remove(i), old(self).top@[i].1.parents@, old(self).top@[i].1.parents@.len() as int),
''',
          loops={0: '''
    invariant
        0 <= si <= it_si@.len(), *it_si == p.parents, p.parents.wf(),
        self.top.wf(), keys_distinct(self.top@),
        remove_inv(self.top@, old(self).top@.remove(gi), p.parents@, si as int),
        0 <= gi < old(self).top@.len(), old(self).top@[gi].0 == *child, old(self).top@[gi].1 == *p, topo_wf(old(self).top@),
    decreases it_si@.len() - si
'''},
          inserts=[('@after_stmt:let result = self.top.', 'after', '''
        let ghost gi: int = if has_key(old(self).top@, *child) {
            choose|i: int| 0 <= i < old(self).top@.len() && #[trigger] old(self).top@[i].0 == *child
                && result == Some(old(self).top@[i].1) && self.top@ == old(self).top@.remove(i) } else { 0 };
        proof { if has_key(old(self).top@, *child) { lemma_remove_start(old(self).top@, gi); } }
'''),
                   ('@loop_start:0', 'after', '''
                proof {
                    let key = it_si@[si as int];
                    assert(still_to_do(p.parents@, si as int, key));
                    lemma_waits_bounds(old(self).top@.remove(gi), key, old(self).top@.remove(gi).len() as int);
                }
'''),
                   ('@loop_end:0', 'after', '''
            proof { lemma_remove_end(self.top@, old(self).top@.remove(gi), p.parents@, old(self).top@, gi); }
''')])

MONO_PQ = Rewrite('R4', r'pub fn insert_dep<P, Q>\(&mut self, parent: P, child: Q\)\s*where\s*P: Into<T>,\s*Q: Into<T>,',
                  'pub fn insert_dep(&mut self, parent: T, child: T)', count=1,
                  why='generic parameters instantiated at P = Q = T, the only instantiation the checker uses (Into<T> for T is the identity)')
ANNOT = Rewrite('R4', r'let (parent|child) = (parent|child)\.into\(\);', r'let \1: T = \2.into();', count=2,
                why='type annotation added: with P = Q = T the target of `.into()` is no longer fixed by a where clause')
u.extract(TP, 'impl TopoSort<T>::fn insert_dep', wrap=IMPL, rewrites=[MONO_PQ, ANNOT], contract='''
    requires
        topo_wf(old(self).top@), clone_is_identity::<T>(),
        // usage protocol: dependencies are registered on items that are pending or were never scheduled
        no_stale_edges(old(self).top@, child), no_stale_edges(old(self).top@, parent),
        old(self).top@.len() < usize::MAX - 2,
    ensures
        topo_wf(final(self).top@),
        // `parent` waits on `child`: child is pending and lists parent as a dependant
        exists|i: int| 0 <= i < final(self).top@.len() && #[trigger] final(self).top@[i].0 == child && lists(final(self).top@, i, parent),
        // a dependency that was already registered changes nothing
        already_registered(old(self).top@, parent, child) ==> top_equiv(old(self).top@, final(self).top@),
        // a new one makes the waiting item pending too
        !already_registered(old(self).top@, parent, child) ==> has_key(final(self).top@, parent),
''', inserts=[
    ('e.insert(dep);', 'after', '''
                proof {
                    assert(self.top@.drop_last() =~= old(self).top@);
                    assert(self.top@.last().1.parents@ =~= seq![parent]);
                    lemma_dep_step1_push(old(self).top@, self.top@, parent);
                    assert(self.top@[self.top@.len() - 1].0 == child);
                    assert(lists(self.top@, self.top@.len() - 1, parent)) by { assert(seq![parent][0] == parent); }
                }
'''),
    ('// Already registered', 'after', '''
                    proof {
                        lemma_equiv_wf(old(self).top@, self.top@);
                        assert(self.top@[ci].0 == child && lists(self.top@, ci, parent));
                    }
'''),
    ('let child: T = child.into();', 'after', '''
        let ghost ci: int = if has_key(old(self).top@, child) {
            choose|i: int| 0 <= i < old(self).top@.len() && #[trigger] old(self).top@[i].0 == child } else { -1 };
'''),
    ('self.top\n            .entry(parent)', 'before', '''
        let ghost top1 = self.top@;
        proof {
            if ci >= 0 {
                assert(top1[ci].1.parents@ =~= old(self).top@[ci].1.parents@.push(parent));
                lemma_dep_step1_update(old(self).top@, top1, ci, parent);
                assert(lists(top1, ci, parent)) by { assert(top1[ci].1.parents@[top1[ci].1.parents@.len() - 1] == parent); }
            }
            lemma_waits_bounds(top1, parent, top1.len() as int);
            if !has_key(old(self).top@, parent) {
                assert forall|m: int| 0 <= m < old(self).top@.len() implies !lists(old(self).top@, m, parent) by {}
                lemma_waits_zero(old(self).top@, parent, old(self).top@.len() as int);
            }
        }
'''),
    ('@body_end', 'after', '''
        proof {
            if has_key(top1, parent) {
                let j = choose|j: int| 0 <= j < top1.len() && #[trigger] top1[j].0 == parent
                    && self.top@ == top1.update(j, (parent, self.top@[j].1));
                lemma_dep_step2_update(top1, self.top@, j, parent);
                lemma_key_pos(self.top@, top1, child, parent);
            } else {
                assert(self.top@.drop_last() =~= top1);
                lemma_dep_step2_push(top1, self.top@, parent);
                lemma_key_pos(self.top@, top1, child, parent);
            }
        }
'''),
])

import re as _re


def _pred(m):
    body = m.group(1).strip()
    return 'filter_keys(&self.top, |v: &Dependencies<T>| -> (b: bool) ensures b == (%s) { %s })' % (body, body)


FILTER = Rewrite('R7', r'self\s*\.top\s*\.iter\(\)\s*\.filter\(\|&\(_, v\)\| ([^()]*)\)\s*\.map\(\|\(k, _\)\| k\)\s*\.collect\(\)', _pred, count=1,
                 why='`.iter().filter(|&(_, v)| P).map(|(k, _)| k).collect()` -> shim `filter_keys(map, |v| P)` (assumed std meaning); the predicate P is kept and gets `ensures b == P` (R2)')
ALLV = Rewrite('R7', r'self\.top\.values\(\)\.all\(\|v\| ([^()]*)\)',
               lambda m: 'all_values(&self.top, |v: &Dependencies<T>| -> (b: bool) ensures b == (%s) { %s })' % (m.group(1).strip(), m.group(1).strip()), count=1,
               why='`.values().all(|v| P)` -> shim `all_values(map, |v| P)`; predicate kept')
KEYS = Rewrite('R7', r'self\.top\.keys\(\)\.collect\(\)', 'all_keys(&self.top)', count=1, why='`.keys().collect()` -> shim `all_keys(map)`')

u.extract(TP, 'impl TopoSort<T>::fn peek_all', wrap=IMPL, rewrites=[FILTER], contract='''
    ensures
        // the offered items are exactly those whose counter is zero (lemma_round_offers_ready:
        // under the invariant these are exactly the items whose dependencies have all completed)
        res is Ok ==> offered_exactly(self.top@, res->Ok_0@, |i: int| self.top@[i].1.num_children == 0),
        // (lemma_cycle_iff: ... a cycle is reported only when every pending item still waits on a pending item)
        res is Err <==> self.top@.len() > 0 && all_waiting(self.top@),
''', inserts=[('@after_stmt:let result: Vec<_> =', 'after', '''
        proof {
            let top = self.top@;
            let idx = choose|idx: Seq<int>| #[trigger] strictly_increasing(idx) && idx.len() == result@.len()
                && (forall|j: int| 0 <= j < idx.len() ==> 0 <= #[trigger] idx[j] < top.len() && *result@[j] == top[idx[j]].0 && top[idx[j]].1.num_children == 0)
                && (forall|i: int| 0 <= i < top.len() && !idx.contains(i) ==> (#[trigger] top[i]).1.num_children != 0);
            if result@.len() == 0 {
                assert forall|i: int| 0 <= i < top.len() implies (#[trigger] top[i]).1.num_children != 0 by { assert(!idx.contains(i)); }
            } else {
                assert(top[idx[0]].1.num_children == 0);
            }
        }
''')])
u.extract(TP, 'impl TopoSort<T>::fn in_cycle', wrap=IMPL, rewrites=[ALLV], contract='''
    ensures res == (self.top@.len() > 0 && all_waiting(self.top@))
''')
u.extract(TP, 'impl TopoSort<T>::fn peek_all_cyclic', wrap=IMPL, rewrites=[KEYS], contract='''
    ensures
        res is Some <==> (self.top@.len() > 0 && all_waiting(self.top@)),
        // a cycle-breaking round offers every pending item, in order
        res is Some ==> res->0@.len() == self.top@.len() && forall|i: int| 0 <= i < self.top@.len() ==> *(#[trigger] res->0@[i]) == self.top@[i].0,
''')
u.expected += ['lemma_round_offers_ready', 'lemma_cycle_iff', 'lemma_ready_iff_zero']

MUTANTS = [
    (TP, '                    y.num_children -= 1;\n', '', 'violation'),
    (TP, '.filter(|&(_, v)| v.num_children == 0)\n            .map(|(k, _)| k)\n            .collect();\n\n        if !self.is_empty() && result.is_empty() {',
         '.filter(|&(_, v)| v.num_children != 0)\n            .map(|(k, _)| k)\n            .collect();\n\n        if !self.is_empty() && result.is_empty() {', 'violation'),
    (TP, '!self.is_empty() && self.top.values().all(|v| v.num_children != 0)', '!self.is_empty() && self.top.values().all(|v| v.num_children == 0)', 'violation'),
    (TP, 'let result = self.top.shift_remove(child);', 'let result = self.top.swap_remove(child);', 'violation'),
    (TP, '            .num_children += 1;', '            .num_children += 2;', 'violation'),
    (TP, '                    // Already registered\n                    return;', '                    // Already registered', 'violation'),
    (TP, '                dep.parents.insert(parent.clone());\n', '', 'violation'),
    (TP, '        if !self.is_empty() && result.is_empty() {\n            Err(CycleErr)', '        if result.is_empty() {\n            Err(CycleErr)', 'violation'),
]
