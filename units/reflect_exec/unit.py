"""Unit `reflect_exec` (C18 with C17): bounded stand-in that prints, through the compiler built
from the tree, what core.meta reports for a pool of types -- size, alignment, stride, and the
row of each kind (member names and offsets, array length, integer width and sign, pointer
mutability, tag offset and is_non_zero of optionals, tag offset of error unions and enums,
variant count, sub types) -- plus the pairwise equality of the type values, and compares it
with a layout computed from the documented representation rules (C17).  BOUNDED."""
from tools.unitapi import Unit
from tools import execdriver

UNIT = u = Unit('reflect_exec', ['C18'], 'bounded: core.meta rows of a pool of types printed by a compiled program, compared with the documented layout rules')
u.expected = ['compile_type_info']
u.trusted += ['BOUNDED stand-in (not a proof): 40 types (primitives, 5 structs, arrays, pointers, slices, distincts, 7 optionals, 3 error unions, 3 enums), pointer width 64; isize / usize are left out of the equality matrix (known finding: they share the id of i64 / u64); the oracle is the representation rules of C17 written in Python; core.println and the host linker are trusted']

PTR = 8


def rup(x, a):
    return (x + a - 1) // a * a


class Ty:
    def __init__(self, kind, expr, **kw):
        self.kind, self.expr = kind, expr
        self.__dict__.update(kw)

    def align(self):
        k = self.kind
        if k in ('int', 'float'):
            return min(8, self.bytes)
        if k in ('bool', 'char'):
            return 1
        if k in ('str', 'ptr', 'slice', 'rawptr'):
            return PTR
        if k == 'array':
            return self.sub.align()
        if k == 'distinct':
            return self.sub.align()
        if k == 'struct':
            return max([f.align() for _, f in self.fields] + [1])
        if k == 'opt':
            return self.sub.align()
        if k == 'err':
            return max(self.e.align(), self.p.align())
        if k == 'enum':
            return max([t.align() for _, t in self.variants if t is not None] + [1])
        if k == 'void':
            return 1

    def offsets(self):
        off, out = 0, []
        for _, f in self.fields:
            off = rup(off, f.align())
            out.append(off)
            off += f.size()
        return out, off

    def tag_offset(self):
        k = self.kind
        if k == 'opt':
            return self.sub.size()
        if k == 'err':
            return max(self.e.size(), self.p.size())
        if k == 'enum':
            return max([t.size() for _, t in self.variants if t is not None] + [0])

    def nonzero(self):
        t = self
        while t.kind == 'distinct':
            t = t.sub
        return t.kind in ('ptr', 'rawptr')

    def size(self):
        k = self.kind
        if k in ('int', 'float'):
            return self.bytes
        if k in ('bool', 'char'):
            return 1
        if k in ('str', 'ptr', 'rawptr'):
            return PTR
        if k == 'slice':
            return 2 * PTR
        if k == 'array':
            return self.n * self.sub.stride()
        if k == 'distinct':
            return self.sub.size()
        if k == 'struct':
            return self.offsets()[1]
        if k == 'opt':
            return self.sub.size() if self.sub.nonzero() else self.sub.size() + 1
        if k in ('err', 'enum'):
            return self.tag_offset() + 1
        if k == 'void':
            return 0

    def stride(self):
        return rup(self.size(), self.align())


def pool():
    P = {}

    def I(name, b, s):
        P[name] = Ty('int', name, bytes=b, signed=s)
    for n, b, s in [('i8', 1, True), ('u8', 1, False), ('i16', 2, True), ('u16', 2, False), ('i32', 4, True), ('u32', 4, False), ('i64', 8, True), ('u64', 8, False)]:
        I(n, b, s)
    P['f32'] = Ty('float', 'f32', bytes=4)
    P['f64'] = Ty('float', 'f64', bytes=8)
    P['bool'] = Ty('bool', 'bool')
    P['char'] = Ty('char', 'char')
    P['str'] = Ty('str', 'str')
    P['S3'] = Ty('struct', 'S3', fields=[('a', P['u8']), ('b', P['u16'])])
    P['Pair'] = Ty('struct', 'Pair', fields=[('a', P['i64']), ('b', P['i32'])])
    P['P5'] = Ty('struct', 'P5', fields=[(f, P['u8']) for f in 'abcde'])
    P['N'] = Ty('struct', 'N', fields=[('x', P['Pair']), ('y', P['u8']), ('z', P['S3'])])
    P['Z'] = Ty('struct', 'Z', fields=[])
    P['Mix'] = Ty('struct', 'Mix', fields=[('a', P['u8']), ('b', P['f64']), ('c', P['bool']), ('d', P['u32']), ('e', P['str'])])
    P['A3'] = Ty('array', '[3]u16', n=3, sub=P['u16'])
    P['A5'] = Ty('array', '[5]Pair', n=5, sub=P['Pair'])
    P['A2'] = Ty('array', '[2]S3', n=2, sub=P['S3'])
    P['PC'] = Ty('ptr', '^u8', sub=P['u8'], mutable=False)
    P['PM'] = Ty('ptr', '^mut Pair', sub=P['Pair'], mutable=True)
    P['SL'] = Ty('slice', '[]u32', sub=P['u32'])
    P['DP'] = Ty('distinct', 'DPair', sub=P['Pair'])
    P['DU'] = Ty('distinct', 'DU16', sub=P['u16'])
    P['O1'] = Ty('opt', '?i32', sub=P['i32'])
    P['O2'] = Ty('opt', '?^i32', sub=Ty('ptr', '^i32', sub=P['i32'], mutable=False))
    P['O3'] = Ty('opt', '?Pair', sub=P['Pair'])
    P['O4'] = Ty('opt', '??i32', sub=P['O1'])
    P['O5'] = Ty('opt', '?bool', sub=P['bool'])
    P['O6'] = Ty('opt', '?S3', sub=P['S3'])
    P['R1'] = Ty('err', 'str!u64', e=P['str'], p=P['u64'])
    P['R2'] = Ty('err', 'str!Pair', e=P['str'], p=P['Pair'])
    P['R3'] = Ty('err', 'u8!S3', e=P['u8'], p=P['S3'])
    P['O7'] = Ty('opt', '?(str!u64)', sub=P['R1'])
    P['E1'] = Ty('enum', 'E1', variants=[('A', None), ('B', P['u8']), ('C', P['u64']), ('D', P['S3'])])
    P['E2'] = Ty('enum', 'Packet', variants=[('Bytes', Ty('array', '[12]u8', n=12, sub=P['u8'])), ('Number', P['u64'])])
    P['E3'] = Ty('enum', 'E3', variants=[('X', None), ('Y', None)])
    return P


DECLS = '''S3 :: struct { a: u8, b: u16 };
Pair :: struct { a: i64, b: i32 };
P5 :: struct { a: u8, b: u8, c: u8, d: u8, e: u8 };
N :: struct { x: Pair, y: u8, z: S3 };
Z :: struct {};
Mix :: struct { a: u8, b: f64, c: bool, d: u32, e: str };
DPair :: distinct Pair;
DU16 :: distinct u16;
E1 :: enum { A, B: u8, C: u64, D: S3 };
Packet :: enum { Bytes: [12]u8, Number: u64 };
E3 :: enum { X, Y };
'''


def b(x):
    return 'true' if x else 'false'


def gen():
    P = pool()
    src = ['core :: #mod("core");', 'meta :: core.meta;', '', DECLS]
    main = ['main :: () {']
    exp = []
    for key, t in P.items():
        head = '# %s' % t.expr
        main.append('    core.println("%s");' % head)
        exp.append(head)
        main.append('    core.println(meta.size_of(%s), " ", meta.align_of(%s), " ", meta.stride_of(%s));' % (t.expr, t.expr, t.expr))
        exp.append('%d %d %d' % (t.size(), t.align(), t.stride()))
        fn = 'row_%s' % key
        if t.kind == 'int':
            src.append('%s :: () { i := #unwrap(meta.get_type_info(%s), meta.Type_Info.Int); core.println(i.bit_width, " ", i.signed); }' % (fn, t.expr))
            exp.append('%d %s' % (t.bytes * 8, b(t.signed)))
        elif t.kind == 'float':
            src.append('%s :: () { i := #unwrap(meta.get_type_info(%s), meta.Type_Info.Float); core.println(i.bit_width); }' % (fn, t.expr))
            exp.append('%d' % (t.bytes * 8))
        elif t.kind == 'struct':
            offs, _ = t.offsets()
            src.append('%s :: () {' % fn)
            src.append('    i := #unwrap(meta.get_type_info(%s), meta.Type_Info.Struct);' % t.expr)
            src.append('    core.println(i.members.len);')
            exp.append(str(len(t.fields)))
            for k, ((name, ft), off) in enumerate(zip(t.fields, offs)):
                src.append('    core.println(i.members[%d].name, " ", i.members[%d].offset, " ", meta.size_of(i.members[%d].ty), " ", i.members[%d].ty == %s);' % (k, k, k, k, ft.expr))
                exp.append('%s %d %d true' % (name, off, ft.size()))
            src.append('}')
        elif t.kind == 'array':
            src.append('%s :: () { i := #unwrap(meta.get_type_info(%s), meta.Type_Info.Array); core.println(i.len, " ", meta.size_of(i.sub_ty), " ", i.sub_ty == %s); }' % (fn, t.expr, t.sub.expr))
            exp.append('%d %d true' % (t.n, t.sub.size()))
        elif t.kind == 'ptr':
            src.append('%s :: () { i := #unwrap(meta.get_type_info(%s), meta.Type_Info.Pointer); core.println(i.mutable, " ", meta.size_of(i.sub_ty), " ", i.sub_ty == %s); }' % (fn, t.expr, t.sub.expr))
            exp.append('%s %d true' % (b(t.mutable), t.sub.size()))
        elif t.kind == 'slice':
            src.append('%s :: () { i := #unwrap(meta.get_type_info(%s), meta.Type_Info.Slice); core.println(meta.size_of(i.sub_ty), " ", i.sub_ty == %s); }' % (fn, t.expr, t.sub.expr))
            exp.append('%d true' % t.sub.size())
        elif t.kind == 'distinct':
            src.append('%s :: () { i := #unwrap(meta.get_type_info(%s), meta.Type_Info.Distinct); core.println(meta.size_of(i.sub_ty), " ", i.sub_ty == %s, " ", i.sub_ty == %s); }' % (fn, t.expr, t.sub.expr, t.expr))
            exp.append('%d true false' % t.sub.size())
        elif t.kind == 'opt':
            src.append('%s :: () { i := #unwrap(meta.get_type_info(%s), meta.Type_Info.Optional); core.println(i.is_non_zero, " ", i.discriminant_offset, " ", meta.size_of(i.sub_ty), " ", i.sub_ty == %s); }' % (fn, t.expr, t.sub.expr))
            exp.append('%s %d %d true' % (b(t.sub.nonzero()), 0 if t.sub.nonzero() else t.tag_offset(), t.sub.size()))
        elif t.kind == 'err':
            src.append('%s :: () { i := #unwrap(meta.get_type_info(%s), meta.Type_Info.Error_Union); core.println(i.discriminant_offset, " ", i.error_ty == %s, " ", i.payload_ty == %s); }' % (fn, t.expr, t.e.expr, t.p.expr))
            exp.append('%d true true' % t.tag_offset())
        elif t.kind == 'enum':
            src.append('%s :: () { i := #unwrap(meta.get_type_info(%s), meta.Type_Info.Enum); core.println(i.variants.len, " ", i.discriminant_offset); }' % (fn, t.expr))
            exp.append('%d %d' % (len(t.variants), t.tag_offset()))
        else:
            continue
        main.append('    %s();' % fn)
    # pairwise equality of the type values: the identity matrix
    keys = list(P.keys())
    src.append('eq_matrix :: () {')
    exp.append('# equality')
    main.append('    core.println("# equality");')
    main.append('    eq_matrix();')
    for i, ki in enumerate(keys):
        row = ', '.join('u8.(%s == %s)' % (P[ki].expr, P[kj].expr) for kj in keys)
        src.append('    core.println(%s);' % row.replace(', ', ', "", '))
        exp.append(''.join('1' if i == j else '0' for j in range(len(keys))))
    src.append('}')
    main.append('}')
    return ('reflect', '\n'.join(src + main) + '\n', exp)


def runner(unit, prop, repo, scratch, tier):
    return execdriver.run_cases(unit, prop, repo, scratch, tier, [gen()], 'compile_type_info',
                                'reflection reports for every type the size, alignment and stride, the field names, types and offsets, array length, integer width and signedness, pointer mutability, variants and tag offset the generated code uses; two type values are equal exactly when they denote the same type',
                                '%d types: size / align / stride, the row of each kind, and the %d x %d equality matrix' % (len(pool()), len(pool()), len(pool())))


u.runner = runner
MUTANTS = []
