"""Unit `any_cast` (C18 `any` clause, C02 footprint): the prefix of cast_into_memory that keeps
the original source type, and its `(_, Ty::Any)` arm."""
from tools.unitapi import Unit, Rewrite, sibling, contract_of

layout = sibling('layout')
memory = sibling('memory')
M = 'crates/codegen/src/compiler/mod.rs'
T = 'crates/hir/src/common/ty.rs'
L = 'crates/codegen/src/layout.rs'

UNIT = u = Unit('any_cast', ['C18', 'C02'], 'cast to `any`: carried type id and store footprint')
layout.prelude(u)
u.shim('clif.rs')
layout.api_stubs(u)
u.extract(M, 'enum Location', keep_derives={'Clone', 'Copy'}, rewrites=[Rewrite('R4', r'^enum Location', 'pub enum Location', flags=8, why='private datatype widened to pub for spec accessors')])
u.extract(M, 'struct MemoryLoc', keep_derives={'Clone', 'Copy'}, pub_fields=True)
u.parts.append(('spec', memory.UNIT.dir + '/spec.rs'))
u.spec('spec.rs')
u.trusted += [
    'MemoryLoc::{write_val,into_value,from_stack}, unwrap_or_alloca, Ty::is_aggregate, padding_needed_for: contracts proved in units memory / layout, used here as stubs',
    'to_type_id(ty) returns the id of `ty` (stub; its id assignment is proved in unit typeid, its memo lookup is assumed)',
    'the rest of cast_into_memory between the prefix and the `any` arm does not reassign cast_from_original (it is declared without `mut`)',
]
IMPL = ('impl MemoryLoc {', '}')
for key in ['from_stack', 'with_offset', 'into_value', 'write_val']:
    u.extract(M, 'impl MemoryLoc::fn ' + key, wrap=IMPL, contract=contract_of(memory.UNIT, key), stub='memory')
u.extract(M, 'impl UnwrapOrAlloca for Option<MemoryLoc>::fn unwrap_or_alloca', key='unwrap_or_alloca',
          wrap=('pub trait UnwrapOrAllocaT { fn unwrap_or_alloca(self, builder: &mut FunctionBuilder, ty: Intern<Ty>) -> MemoryLoc; }\nimpl UnwrapOrAllocaT for Option<MemoryLoc> {', '}'),
          contract=contract_of(memory.UNIT, 'unwrap_or_alloca'), stub='memory')
u.extract(T, 'impl Ty::fn is_aggregate', wrap=('impl Ty {', '}'), contract=contract_of(memory.UNIT, 'is_aggregate'), stub='memory')
u.extract(L, 'fn padding_needed_for', wrap=('pub mod layout { use vstd::prelude::*; use super::*;', '}'),
          contract=contract_of(layout.UNIT, 'padding_needed_for'), stub='layout')
u.raw('''
pub struct MetaTyData { pub _p: u8 }
impl Intern<Ty> {
    // ASSUMED: the id of this very type (see unit typeid for what an id looks like)
    #[verifier::external_body]
    pub fn to_type_id(self, meta_tys: &mut MetaTyData, pointer_ty: types::Type) -> (r: u32)
        ensures r == type_id_of(*self.0)
    { unimplemented!() }
}
''')

u.extract(T, 'impl InternTyExt for Intern<Ty>::fn absolute_intern_ty', wrap=('impl Intern<Ty> {', '}'),
          contract='''
    ensures *res.0 == spec_abs_opt(*self.0, unwrap_variants)
    decreases *self.0
''', loops={0: '''
    invariant spec_abs_opt(*curr_ty.0, unwrap_variants) == spec_abs_opt(*self.0, unwrap_variants),
        curr_ty == self || !wraps(*curr_ty.0, unwrap_variants),
    decreases (if wraps(*curr_ty.0, unwrap_variants) { 1int } else { 0int })
'''}, inserts=[('@loop_start:0', 'after', '''
            proof {
                match *curr_ty.0 {
                    Ty::Distinct { sub_ty, .. } => lemma_abs_opt_idem(*sub_ty.0, unwrap_variants),
                    Ty::EnumVariant { sub_ty, .. } => lemma_abs_opt_idem(*sub_ty.0, unwrap_variants),
                    _ => {}
                }
            }
''')])

u.extract(M, 'fn cast_into_memory', key='cast_prefix',
          lift=dict(start_after='            None => return val,\n        }\n    }\n', end_before='if *cast_from == Ty::AlwaysJumps {',
                    sig='fn cast_prefix(cast_from: Intern<Ty>, cast_to: Intern<Ty>) -> (res: (Intern<Ty>, Intern<Ty>, Intern<Ty>))',
                    tail='(cast_from_original, cast_from, cast_to)',
                    why='the statements of cast_into_memory that fix cast_from_original / cast_from / cast_to, lifted into a function returning the three'),
          contract='''
    ensures
        // the ORIGINAL source type (distinct wrappers kept) is what later becomes the type id of an `any`
        res.0 == cast_from,
        *res.1.0 == spec_abs_opt(*cast_from.0, false),
        *res.2.0 == spec_abs_opt(*cast_to.0, true),
''')

u.extract(M, 'fn cast_into_memory', key='cast_to_any',
          lift=dict(anchor='(_, Ty::Any) => {',
                    sig='''fn cast_to_any(meta_tys: &mut MetaTyData, builder: &mut FunctionBuilder, ptr_ty: types::Type, val: Option<Value>,
                          cast_from_original: Intern<Ty>, cast_from: Intern<Ty>, cast_to: Intern<Ty>, memory: Option<MemoryLoc>) -> (res: Option<Value>)''',
                    why='the `(_, Ty::Any)` arm of cast_into_memory lifted into a function; assumed path condition: cast_to is `any`'),
          inserts=[('any_mem.write_val(builder, typeid, typeid_offset);', 'after', '''
            let ghost wi = builder.log@.len() - 1;
            proof {
                assert(pow2(32) == 0x1_0000_0000) by (compute);
                vstd::arithmetic::div_mod::lemma_small_mod(type_id_of(*cast_from_original.0) as nat, pow2(32));
            }
            assert(builder.log@[wi] == (Ev::Write { base: loc_base(any_mem), lo: loc_off(any_mem), hi: loc_off(any_mem) + 4,
                                                     val: Den::Int { bits: 32, val: type_id_of(*cast_from_original.0) as nat } }));
'''),
                   ('return Some(any_mem.into_value(builder, ptr_ty));', 'before', '''
            assert(builder.log@[wi] == (Ev::Write { base: loc_base(any_mem), lo: loc_off(any_mem), hi: loc_off(any_mem) + 4,
                                                     val: Den::Int { bits: 32, val: type_id_of(*cast_from_original.0) as nat } }));
''')],
          contract='''
    requires
        *cast_to.0 is Any, entry_ok(*cast_to.0), entry_ok(*cast_from.0), pbw() == 32 || pbw() == 64,
        ptr_ty.bits_ == pbw(), !ptr_ty.is_float, ptr_bytes_spec() == pbw() / 8,
        memory is Some ==> loc_wf(memory->0),
        val is Some ==> (val->0.den@ is Addr || den_bytes(val->0.den@) <= tsize(*cast_from.0)),
    ensures
        res is Some, res->0.den@ is Addr,
        // C18: the `any` carries the id of the type the value was made from (at offset 0, 4 bytes)
        wrote_id(final(builder).log@, old(builder).log@.len() as int, ptr_base(res->0), ptr_off(res->0), type_id_of(*cast_from_original.0)),
        // C02: inside the destination, everything written lies inside the `any` value
        memory is Some ==> ptr_base(res->0) == loc_base(memory->0) && ptr_off(res->0) == loc_off(memory->0),
''')
u.fn_props = {'absolute_intern_ty': ['C18'], 'cast_prefix': ['C18'], 'cast_to_any': ['C18', 'C02']}

MUTANTS = [
    # the change written by the C18 seeding agent
    (M, '    let cast_from_original = cast_from;\n\n    let mut cast_from = cast_from.absolute_intern_ty(false);',
        '    let mut cast_from = cast_from.absolute_intern_ty(false);\n    let cast_from_original = cast_from;\n', 'violation'),
    (M, 'let typeid = cast_from_original.to_type_id(meta_tys, ptr_ty) as i64;', 'let typeid = cast_from.to_type_id(meta_tys, ptr_ty) as i64;', 'violation'),
    (M, 'let typeid_offset = 0;', 'let typeid_offset = 4;', 'violation'),
    (T, '                Ty::EnumVariant { sub_ty, .. } if unwrap_variants => {', '                Ty::EnumVariant { sub_ty, .. } => {', 'violation'),
]
