// Specification for the `any` clause of C18 ("an `any` carries the type of the value it was
// made from") and its store footprint (C02).  Ghost code only.

/// `Intern::absolute_intern_ty(unwrap_variants)`: distinct wrappers (and, optionally, variant
/// wrappers) removed
pub open spec fn spec_abs_opt(ty: Ty, unwrap_variants: bool) -> Ty decreases ty {
    match ty {
        Ty::Distinct { sub_ty, .. } => spec_abs_opt(*sub_ty.0, unwrap_variants),
        Ty::EnumVariant { sub_ty, .. } => if unwrap_variants { spec_abs_opt(*sub_ty.0, unwrap_variants) } else { ty },
        _ => ty,
    }
}
/// the runtime id of a type (what `to_type_id` returns for it; proved well-formed in unit typeid)
pub uninterp spec fn type_id_of(ty: Ty) -> u32;

/// the log contains, after position `from`, a 4-byte store of the integer `id` at byte `off`
/// of object `base`
pub open spec fn wrote_id(log: Seq<Ev>, from: int, base: Base, off: int, id: u32) -> bool {
    exists|i: int| from <= i < log.len() && #[trigger] log[i] == (Ev::Write {
        base, lo: off, hi: off + 4, val: Den::Int { bits: 32, val: id as nat } })
}

/// is the outermost constructor one that absolute_intern_ty removes?
pub open spec fn wraps(ty: Ty, unwrap_variants: bool) -> bool {
    ty is Distinct || (unwrap_variants && ty is EnumVariant)
}
pub proof fn lemma_abs_opt_idem(ty: Ty, uv: bool)
    ensures !wraps(spec_abs_opt(ty, uv), uv), spec_abs_opt(spec_abs_opt(ty, uv), uv) == spec_abs_opt(ty, uv)
    decreases ty
{
    match ty {
        Ty::Distinct { sub_ty, .. } => lemma_abs_opt_idem(*sub_ty.0, uv),
        Ty::EnumVariant { sub_ty, .. } => if uv { lemma_abs_opt_idem(*sub_ty.0, uv) },
        _ => {}
    }
}
