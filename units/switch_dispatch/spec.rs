// Specification for the run-time half of C11: "When it runs, exactly the arm for the value's
// current variant executes".  Ghost code only.

/// the jump table a switch over `sum_ty` with these arms must have: the discriminant of each
/// arm's variant leads to that arm's block (arms are distinct variants -- the checker's half of
/// C11 -- so the order of insertion does not matter)
pub open spec fn expected_table(sum_ty: Ty, arms: Seq<(Intern<Ty>, Block, SwitchArm)>, n: int) -> Map<int, int> decreases n {
    if n <= 0 { Map::empty() } else {
        expected_table(sum_ty, arms, n - 1).insert(discrim_of(sum_ty, *arms[n - 1].0.0)->0 as int, arms[n - 1].1.id as int)
    }
}
/// every arm's variant has a discriminant in `sum_ty` (the checker accepted the switch)
pub open spec fn arms_ok(sum_ty: Ty, arms: Seq<(Intern<Ty>, Block, SwitchArm)>) -> bool {
    forall|i: int| 0 <= i < arms.len() ==> discrim_of(sum_ty, *(#[trigger] arms[i]).0.0) is Some
}
/// with pairwise different variants, the table sends the discriminant of arm i to block i
pub proof fn lemma_table_hits(sum_ty: Ty, arms: Seq<(Intern<Ty>, Block, SwitchArm)>, n: int, i: int)
    requires 0 <= i < n <= arms.len(), arms_ok(sum_ty, arms),
        forall|a: int, b: int| 0 <= a < b < arms.len() ==> discrim_of(sum_ty, *arms[a].0.0)->0 != discrim_of(sum_ty, *arms[b].0.0)->0,
    ensures
        expected_table(sum_ty, arms, n).dom().contains(discrim_of(sum_ty, *arms[i].0.0)->0 as int),
        expected_table(sum_ty, arms, n)[discrim_of(sum_ty, *arms[i].0.0)->0 as int] == arms[i].1.id as int,
    decreases n
{
    if i < n - 1 { lemma_table_hits(sum_ty, arms, n - 1, i); }
}
/// ... and a tag that is no arm's discriminant is not in the table (it goes to the default block)
pub proof fn lemma_table_misses(sum_ty: Ty, arms: Seq<(Intern<Ty>, Block, SwitchArm)>, n: int, tag: int)
    requires 0 <= n <= arms.len(), forall|i: int| 0 <= i < n ==> discrim_of(sum_ty, *(#[trigger] arms[i]).0.0)->0 as int != tag,
    ensures !expected_table(sum_ty, arms, n).dom().contains(tag)
    decreases n
{
    if n > 0 { lemma_table_misses(sum_ty, arms, n - 1, tag); }
}
