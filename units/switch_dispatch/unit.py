"""Unit `switch_dispatch` (C11, run-time half): the jump table of a switch over a tagged sum type."""
from tools.unitapi import Unit, Rewrite, sibling

layout = sibling('layout')
F = 'crates/codegen/src/compiler/functions.rs'

UNIT = u = Unit('switch_dispatch', ['C11'], 'switch over a tagged sum type: tag read and jump table')
layout.prelude(u)
u.shim('clif.rs')
u.shim('clif_cf.rs')
layout.api_stubs(u)
u.raw('''
#[derive(Clone, Copy)]
pub struct SwitchArm { pub _p: u8 }
pub mod hir { pub use super::SwitchArm; }
/// the discriminant of variant `v` in the sum type `s` (None if `v` is no variant of `s`);
/// get_tagged_union_discrim is used through this name only (ASSUMED stub)
pub uninterp spec fn discrim_of(s: Ty, v: Ty) -> Option<u64>;
impl Intern<Ty> {
    #[verifier::external_body]
    pub fn get_tagged_union_discrim(&self, variant: &Intern<Ty>) -> (r: Option<u64>) ensures r == discrim_of(*self.0, *variant.0) { unimplemented!() }
}
// cranelift_frontend::Switch: "set_entry: set a switch entry for value `index` to jump to
// `block`"; "emit: build the switch ... jumping to `otherwise` if no entry matches"
pub struct Switch { pub table: Ghost<Map<int, int>> }
pub uninterp spec fn dispatched(b0: FunctionBuilder, b1: FunctionBuilder, val: Den, table: Map<int, int>, otherwise: int) -> bool;
impl Switch {
    #[verifier::external_body]
    pub fn new() -> (r: Switch) ensures r.table@ == Map::<int, int>::empty() { unimplemented!() }
    #[verifier::external_body]
    pub fn set_entry(&mut self, index: u128, block: Block)
        ensures final(self).table@ == old(self).table@.insert(index as int, block.id as int)
    { unimplemented!() }
    #[verifier::external_body]
    pub fn emit(self, builder: &mut FunctionBuilder, val: Value, otherwise: Block)
        ensures dispatched(*old(builder), *final(builder), val.den@, self.table@, otherwise.id as int),
            final(builder).log@ == old(builder).log@.push(Ev::Control),
    { unimplemented!() }
}
pub struct FunctionCompiler { pub builder: FunctionBuilder, pub ptr_ty: types::Type }
''')
u.spec('spec.rs')
u.trusted += [
    'cranelift_frontend::Switch as documented (shim above); Cranelift load footprint (shims/verus/clif.rs)',
    'get_tagged_union_discrim is used through the uninterpreted `discrim_of` (it is not under contract)',
    'the arms carry pairwise different variants of the scrutinee type: that is the checker half of C11 (unit switch_sites, bounded)',
    'the blocks of the arms, the binding of the switch argument (unwrap_sum_ty) and the nullable-pointer branch are not under contract',
]
NAMES = Rewrite('R6', r'self\.func_writer\[\*arm_block\] =\s*format!\("switch_arm_discrim\{discrim\}"\)\.into\(\);', '', count=1, why='debug names of blocks are not part of any contract')
REFVEC = Rewrite('R4', r'in &arm_blocks \{', 'in arm_blocks {', count=1, why='`arm_blocks` is already a reference in the lifted function')
u.extract(F, "impl FunctionCompiler<'_>::fn compile_expr_with_args", key='switch_dispatch', wrap=('impl FunctionCompiler {', '}'),
          rewrites=[NAMES, REFVEC], desugar_for={0: ('ai', 'ref')},
          lift=dict(start_at='let discrim_val =', end_before='\n\n                    self.builder.switch_to_block(default_block);',
                    sig='''fn switch_dispatch(&mut self, sum_ty: Intern<Ty>, scrutinee_val: Value, enum_layout: EnumLayout,
                           arm_blocks: &Vec<(Intern<Ty>, Block, hir::SwitchArm)>, default_block: Block)''',
                    why='the tagged branch of the Expr::Switch arm of compile_expr_with_args, from the tag load to the emission of the jump table, lifted into a method'),
          contract='''
    requires
        has_enum_layout(*sum_ty.0), enum_layout.view() == tenum(*sum_ty.0), tenum(*sum_ty.0).discriminant_offset < 0x4000_0000,
        scrutinee_val.den@ is Addr, arms_ok(*sum_ty.0, arm_blocks@),
        // the tag is a byte (an unsigned 8-bit integer)
        forall|k: int| is_int_of(#[trigger] load_den(ptr_base(scrutinee_val), ptr_off(scrutinee_val) + tenum(*sum_ty.0).discriminant_offset, 8, k), 8),
    ensures
        // the value switched on is the byte at the discriminant offset of the scrutinee, and the
        // table sends the discriminant of every arm's variant to that arm's block, everything
        // else to the default block
        exists|b_mid: FunctionBuilder, tag: Den| #[trigger] dispatched(b_mid, final(self).builder, tag,
                expected_table(*sum_ty.0, arm_blocks@, arm_blocks@.len() as int), default_block.id as int)
            // ... read as an UNSIGNED number (the table is keyed by unsigned discriminants)
            && tag is Int && tag->Int_val == load_den(ptr_base(scrutinee_val), ptr_off(scrutinee_val) + tenum(*sum_ty.0).discriminant_offset, 8, old(self).builder.log@.len() as int)->Int_val,
''',
          inserts=[('switch.emit(', 'before', 'let ghost b_mid = self.builder; let ghost tbl = switch.table@; '),
                   ('@body_end', 'after', ' proof { assert(dispatched(b_mid, self.builder, discrim_val.den@, tbl, default_block.id as int)); } ')],
          loops={0: '''
                invariant
                    0 <= ai <= it_ai@.len(), it_ai@ == arm_blocks@, arms_ok(*sum_ty.0, arm_blocks@),
                    switch.table@ == expected_table(*sum_ty.0, arm_blocks@, ai as int),
                decreases it_ai@.len() - ai
'''})

MUTANTS = [
    (F, '''                    let discrim_val = self.builder.ins().load(
                        types::I8,''', '''                    let discrim_val = self.builder.ins().sload8(
                        types::I32,''', 'violation'),
    (F, '''                    let discrim_val = self.builder.ins().load(
                        types::I8,''', '''                    let discrim_val = self.builder.ins().uload8(
                        types::I32,''', 'ok'),
    (F, 'switch.set_entry(discrim as u128, *arm_block);', 'switch.set_entry(discrim as u128 + 1, *arm_block);', 'violation'),
    (F, 'switch.emit(&mut self.builder, discrim_val, default_block);', 'switch.emit(&mut self.builder, scrutinee_val, default_block);', 'violation'),
    (F, '''                        scrutinee_val,
                        enum_layout.discriminant_offset() as i32,
                    );

                    let mut switch = Switch::new();''', '''                        scrutinee_val,
                        0,
                    );

                    let mut switch = Switch::new();''', 'violation'),
    (F, 'self.func_writer[default_block] = "switch_default".into();', 'self.func_writer[default_block] = "switch_otherwise".into();', 'ok'),
]
