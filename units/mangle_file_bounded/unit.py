"""Unit `mangle_file_bounded` (C27): bounded stand-in on the real text of
create_mangled_for_file (the table of contents + the parts) and the functions of mangle.rs it
calls, with a stand-in for FileName::get_components.  BOUNDED -- not a proof."""
from tools.unitapi import Unit
from tools import textdriver

UNIT = u = Unit('mangle_file_bounded', ['C27'], 'bounded: different (module, path, parts) descriptors get different symbol names')
u.expected = ['create_mangled_for_file']
u.trusted += ['BOUNDED stand-in (not a proof): module name absent or one of 6 names, paths of at most 2 (quick) / 3 (thorough) pieces over the same 6 names (digit- and underscore-leading ones included), 1..2 final parts over 5 kinds x 3 texts; FileName::get_components is replaced by a stand-in that hands over the given module name and pieces (the real one reads the file system path)']

PRELUDE = '''use std::borrow::Cow;
pub struct Interner;
#[derive(Clone)]
pub struct FileName(pub Option<String>, pub Vec<String>);
pub struct FileNameComponents<'a, T: Iterator<Item = Cow<'a, str>>> { pub mod_name: Option<Cow<'a, str>>, pub sub_parts: T }
impl FileName {
    pub fn get_components<'a>(&'a self, _mod_dir: &'a std::path::Path, _interner: &'a Interner) -> FileNameComponents<'a, impl Iterator<Item = Cow<'a, str>>> {
        FileNameComponents { mod_name: self.0.as_deref().map(Cow::Borrowed), sub_parts: self.1.iter().map(|s| Cow::Borrowed(s.as_str())) }
    }
}
// itertools::Itertools::collect_vec
trait CollectVec: Iterator + Sized { fn collect_vec(self) -> Vec<Self::Item> { self.collect() } }
impl<T: Iterator> CollectVec for T {}
'''


def runner(unit, prop, repo, scratch, tier):
    return textdriver.run(unit, prop, repo, scratch, tier, 'crates/codegen/src/mangle.rs',
                          [('enum', 'MangledPartKind'), ('impl', 'MangledPartKind'), ('struct', 'MangledPart'), ('fn', 'create_mangled_for_file')],
                          PRELUDE, 'mangle/file_main.rs', [2], [3], 'create_mangled_for_file',
                          'two different descriptors (module name or none, path pieces, final parts) never get the same symbol name')


u.runner = runner

G = 'crates/codegen/src/mangle.rs'
MUTANTS = [
    (G, '    if components.mod_name.is_some() {\n        mangled.push(MangledPartKind::Module.to_code());\n    }\n', '    if components.mod_name.is_some() {\n        mangled.push(MangledPartKind::FileOrFolder.to_code());\n    }\n', 'violation'),
]
