// Specification for C02 as frame conditions: "storing a value into a local, ... struct field,
// array element, enum payload, optional, error union ... never changes the bytes of any other
// live value".  For every emitting function: each store it appends to the instruction stream
// lies inside the destination object [loc, loc + size(ty)).  Ghost code only.

/// the object a memory location points into, and the byte offset inside that object
pub open spec fn loc_base(l: MemoryLoc) -> Base {
    match l.addr { Location::Stack(s) => Base::Slot(s.id as int), Location::Addr(v) => ptr_base(v) }
}
pub open spec fn loc_off(l: MemoryLoc) -> int {
    match l.addr { Location::Stack(s) => l.offset as int, Location::Addr(v) => ptr_off(v) + l.offset }
}
/// an address-based location carries a pointer whose provenance is known, and offsets stay
/// inside the range Cranelift's i32 immediates can express
pub open spec fn loc_wf(l: MemoryLoc) -> bool {
    (l.addr is Addr ==> l.addr->Addr_0.den@ is Addr) && l.offset <= 0x3fff_ffff
}

pub open spec fn log_extends(old_log: Seq<Ev>, new_log: Seq<Ev>) -> bool {
    old_log.len() <= new_log.len() && forall|i: int| #![trigger new_log[i]] #![trigger old_log[i]] 0 <= i < old_log.len() ==> new_log[i] == old_log[i]
}
/// every event appended from index `from` on is pure, a read, a slot creation, or a write
/// that stays inside bytes [lo, hi) of object `base`
pub open spec fn only_writes_within(log: Seq<Ev>, from: int, base: Base, lo: int, hi: int) -> bool {
    forall|i: int| from <= i < log.len() ==> ev_within(#[trigger] log[i], base, lo, hi)
}
/// events that change no memory (pure instructions, loads, slot creation, control flow)
pub open spec fn ev_quiet(e: Ev) -> bool { !(e is Write) && !(e is Call) && !(e is Trap) }
pub open spec fn ev_within(e: Ev, base: Base, lo: int, hi: int) -> bool {
    match e {
        Ev::Write { base: b, lo: l, hi: h, .. } => b == base && lo <= l && l <= h && h <= hi,
        _ => ev_quiet(e),
    }
}
pub open spec fn only_quiet(log: Seq<Ev>, from: int) -> bool {
    forall|i: int| from <= i < log.len() ==> ev_quiet(#[trigger] log[i])
}
/// the frame condition of one emitting call
pub open spec fn frame(old_b: FunctionBuilder, new_b: FunctionBuilder, l: MemoryLoc, size: int) -> bool {
    log_extends(old_b.log@, new_b.log@)
    && only_writes_within(new_b.log@, old_b.log@.len() as int, loc_base(l), loc_off(l), loc_off(l) + size)
}
pub open spec fn no_writes(old_b: FunctionBuilder, new_b: FunctionBuilder) -> bool {
    log_extends(old_b.log@, new_b.log@)
    && only_quiet(new_b.log@, old_b.log@.len() as int)
    && new_b.slots == old_b.slots
}

pub open spec fn spec_is_aggregate(ty: Ty) -> bool {
    match spec_abs(ty) {
        Ty::ConcreteStruct { .. } => true,
        Ty::AnonStruct { .. } => true,
        Ty::Enum { .. } => true,
        Ty::ErrorUnion { .. } => true,
        Ty::ConcreteArray { .. } => true,
        Ty::AnonArray { .. } => true,
        Ty::Slice { .. } => true,
        Ty::RawSlice => true,
        Ty::Any => true,
        Ty::Optional { sub_ty } => !is_ptr(*sub_ty.0),
        _ => false,
    }
}

pub proof fn lemma_within_push(log: Seq<Ev>, from: int, base: Base, lo: int, hi: int, e: Ev)
    requires only_writes_within(log, from, base, lo, hi), ev_within(e, base, lo, hi), from <= log.len()
    ensures only_writes_within(log.push(e), from, base, lo, hi)
{
    assert forall|i: int| from <= i < log.push(e).len() implies ev_within(#[trigger] log.push(e)[i], base, lo, hi) by {
        if i < log.len() { assert(log.push(e)[i] == log[i]); }
    }
}
pub proof fn lemma_within_weaken(log: Seq<Ev>, from: int, base: Base, lo: int, hi: int, lo2: int, hi2: int)
    requires only_writes_within(log, from, base, lo, hi), lo2 <= lo, hi <= hi2
    ensures only_writes_within(log, from, base, lo2, hi2)
{
    assert forall|i: int| from <= i < log.len() implies ev_within(#[trigger] log[i], base, lo2, hi2) by {
        assert(ev_within(log[i], base, lo, hi));
    }
}
/// frames compose: a later call that writes inside a sub-range keeps the frame of the whole
pub proof fn lemma_frame_trans(l0: Seq<Ev>, l1: Seq<Ev>, l2: Seq<Ev>, base: Base, lo: int, hi: int)
    requires log_extends(l0, l1), log_extends(l1, l2),
        only_writes_within(l1, l0.len() as int, base, lo, hi),
        only_writes_within(l2, l1.len() as int, base, lo, hi),
    ensures log_extends(l0, l2), only_writes_within(l2, l0.len() as int, base, lo, hi)
{
    assert forall|i: int| 0 <= i < l0.len() implies #[trigger] l2[i] == l0[i] by {
        assert(l1[i] == l0[i]); assert(l2[i] == l1[i]);
    }
    assert forall|i: int| l0.len() <= i < l2.len() implies ev_within(#[trigger] l2[i], base, lo, hi) by {
        if i < l1.len() {
            assert(l2[i] == l1[i]);
            assert(ev_within(l1[i], base, lo, hi));
        }
    }
}
/// events that write nothing fit every frame
pub proof fn lemma_quiet_any(log: Seq<Ev>, from: int, base: Base, lo: int, hi: int)
    requires only_quiet(log, from)
    ensures only_writes_within(log, from, base, lo, hi)
{
    assert forall|i: int| from <= i < log.len() implies ev_within(#[trigger] log[i], base, lo, hi) by {
        assert(ev_quiet(log[i]));
    }
}

pub proof fn lemma_log_refl(log: Seq<Ev>, base: Base, lo: int, hi: int)
    ensures log_extends(log, log), only_writes_within(log, log.len() as int, base, lo, hi), only_quiet(log, log.len() as int)
{
}

/// introduction rule: pointwise facts about the new log give the frame
pub proof fn lemma_frame_intro(oldl: Seq<Ev>, newl: Seq<Ev>, base: Base, lo: int, hi: int)
    requires
        oldl.len() <= newl.len(),
        forall|i: int| 0 <= i < oldl.len() ==> #[trigger] newl[i] == oldl[i],
        forall|i: int| oldl.len() <= i < newl.len() ==> ev_within(#[trigger] newl[i], base, lo, hi),
    ensures log_extends(oldl, newl), only_writes_within(newl, oldl.len() as int, base, lo, hi)
{
}
pub proof fn lemma_quiet_intro(oldl: Seq<Ev>, newl: Seq<Ev>)
    requires
        oldl.len() <= newl.len(),
        forall|i: int| 0 <= i < oldl.len() ==> #[trigger] newl[i] == oldl[i],
        forall|i: int| oldl.len() <= i < newl.len() ==> ev_quiet(#[trigger] newl[i]),
    ensures log_extends(oldl, newl), only_quiet(newl, oldl.len() as int)
{
}
/// one more step of a loop: the log grew from `cur` by events that are all inside the frame
pub proof fn lemma_frame_step(oldl: Seq<Ev>, cur: Seq<Ev>, newl: Seq<Ev>, base: Base, lo: int, hi: int)
    requires
        log_extends(oldl, cur), only_writes_within(cur, oldl.len() as int, base, lo, hi),
        cur.len() <= newl.len(),
        forall|i: int| 0 <= i < cur.len() ==> #[trigger] newl[i] == cur[i],
        forall|i: int| cur.len() <= i < newl.len() ==> ev_within(#[trigger] newl[i], base, lo, hi),
    ensures log_extends(oldl, newl), only_writes_within(newl, oldl.len() as int, base, lo, hi)
{
    assert forall|i: int| 0 <= i < oldl.len() implies #[trigger] newl[i] == oldl[i] by {
        assert(cur[i] == oldl[i]); assert(newl[i] == cur[i]);
    }
    assert forall|i: int| oldl.len() <= i < newl.len() implies ev_within(#[trigger] newl[i], base, lo, hi) by {
        if i < cur.len() { assert(newl[i] == cur[i]); assert(ev_within(cur[i], base, lo, hi)); }
    }
}

pub open spec fn no_new_writes(old_b: FunctionBuilder, new_b: FunctionBuilder) -> bool {
    log_extends(old_b.log@, new_b.log@) && only_quiet(new_b.log@, old_b.log@.len() as int)
}

/// the frame condition stated on an address (object + offset) instead of a MemoryLoc
pub open spec fn frame_at(old_b: FunctionBuilder, new_b: FunctionBuilder, base: Base, off: int, size: int) -> bool {
    log_extends(old_b.log@, new_b.log@)
    && only_writes_within(new_b.log@, old_b.log@.len() as int, base, off, off + size)
}
/// `base` is a stack slot created between the two builder states, exactly `size` bytes large
pub open spec fn fresh_slot(old_b: FunctionBuilder, new_b: FunctionBuilder, base: Base, size: int) -> bool {
    base is Slot
    && !old_b.slots@.dom().contains(base->Slot_0)
    && new_b.slots@.dom().contains(base->Slot_0)
    && new_b.slots@[base->Slot_0] == size
}
