"""Unit `memory` (C02): frame conditions for the functions that emit stores."""
from tools.unitapi import Unit, Rewrite, sibling

layout = sibling('layout')
M = 'crates/codegen/src/compiler/mod.rs'
T = 'crates/hir/src/common/ty.rs'

UNIT = u = Unit('memory', ['C02'], 'store footprints: MemoryLoc::{with_offset,into_value,write_val,write_all,memset}, unwrap_or_alloca, variant->enum conversion')
layout.prelude(u)
u.shim('clif.rs')
layout.api_stubs(u)
u.extract(M, 'enum Location', keep_derives={'Clone', 'Copy'}, rewrites=[Rewrite('R4', r'^enum Location', 'pub enum Location', flags=8, why='private datatype widened to pub for spec accessors')])
u.extract(M, 'struct MemoryLoc', keep_derives={'Clone', 'Copy'}, pub_fields=True)
u.spec('spec.rs')
u.trusted += [
    'Cranelift store/load/stack_store/emit_small_memory_copy footprints as specified in shims/verus/clif.rs',
    'layout contracts (stride, size, align, enum_layout) proved in unit layout and used here as stubs',
    'distinct stack slots and distinct heap objects do not overlap (Cranelift / allocator guarantee)',
    'values handed to write_all carry the width of their type (den_bytes <= size), pointers carry provenance (Den::Addr)',
    'cast_into_memory as a whole is NOT under contract (its arms variant->enum, optional->optional nil, payload->union, array->array, struct->struct are); the recursion is assumed to meet the frame contract',
    'struct casts: the by-name map of the destination members is a shim (index_members / at), which member is equivalent to which is uninterpreted',
]

DYN = Rewrite('R4', r'&mut dyn Module', '&mut Module', count=None, why='trait object -> shim struct of the same name')
TYPATH = Rewrite('R4', r'cranelift::codegen::ir::Type::', 'types::Type::', count=None, why='type path normalisation')

u.extract(T, 'impl Ty::fn is_aggregate', wrap=('impl Ty {', '}'),
          contract='    ensures res == spec_is_aggregate(*self)')

IMPL = ('impl MemoryLoc {', '}')
u.extract(M, 'impl MemoryLoc::fn from_stack', wrap=IMPL, contract='''
    ensures res.addr == Location::Stack(stack_slot), res.offset == offset
''')
u.extract(M, 'impl MemoryLoc::fn from_addr', wrap=IMPL, contract='''
    ensures res.addr == Location::Addr(addr), res.offset == offset
''')
u.extract(M, 'impl MemoryLoc::fn with_offset', wrap=IMPL, contract='''
    requires self.offset as int + offset as int <= u32::MAX
    ensures loc_base(res) == loc_base(self), loc_off(res) == loc_off(self) + offset,
        res.addr == self.addr, res.offset == self.offset + offset
''')
u.extract(M, 'impl MemoryLoc::fn into_value', wrap=IMPL, contract='''
    requires loc_wf(self)
    ensures
        // the address of the location itself; nothing is written
        res.den@ is Addr, ptr_base(res) == loc_base(self), ptr_off(res) == loc_off(self),
        no_writes(*old(builder), *final(builder)),
''', ret='res', inserts=[('@body_start', 'after', '''
        proof { lemma_log_refl(old(builder).log@, Base::Unknown, 0, 0); }
''')])
u.extract(M, 'impl MemoryLoc::fn write_val', wrap=IMPL, contract='''
    requires loc_wf(*self), -0x3fff_ffff <= offset <= 0x3fff_ffff
    ensures
        // exactly one store: the bytes of x at loc + offset
        final(builder).log@ == old(builder).log@.push(Ev::Write { base: loc_base(*self),
            lo: loc_off(*self) + offset, hi: loc_off(*self) + offset + den_bytes(x.den@), val: x.den@ }),
        final(builder).slots == old(builder).slots,
''')

W_INV = '''
    invariant
        loc_wf(self), self.addr == Location::Stack(slot), 0 <= off <= tsize(*ty.0), entry_ok(*ty.0),
        log_extends(old(builder).log@, builder.log@),
        only_writes_within(builder.log@, old(builder).log@.len() as int, loc_base(self), loc_off(self), loc_off(self) + tsize(*ty.0)),
        builder.slots == old(builder).slots,
    decreases tsize(*ty.0) - off
'''


def w_step(width):
    return [('off += %d;' % width, 'after', '''
                                proof {
                                    lemma_frame_step(old(builder).log@, l0_%d, builder.log@, loc_base(self), loc_off(self), loc_off(self) + tsize(*ty.0));
                                }
''' % width)]


def w_snap(n, width):
    return [('@loop_start:%d' % n, 'after', ' let ghost l0_%d = builder.log@; ' % width)]


u.extract(M, 'impl MemoryLoc::fn write_all', wrap=IMPL, expand_macro='mem_cpy_loop',
          rewrites=[DYN, TYPATH],
          contract='''
    requires
        loc_wf(self), entry_ok(*ty.0),
        // a non-aggregate value is as wide as its type; an aggregate is passed by address
        (val is Some && !spec_is_aggregate(*ty.0)) ==> 0 <= den_bytes(val->0.den@) <= tsize(*ty.0),
    ensures
        frame(*old(builder), *final(builder), self, tsize(*ty.0) as int),
        final(builder).slots == old(builder).slots,
''',
          loop_count=4,
          loops={0: W_INV, 1: W_INV, 2: W_INV, 3: W_INV},
          inserts=[('@body_start', 'after', '''
        proof {
            lemma_log_refl(old(builder).log@, loc_base(self), loc_off(self), loc_off(self) + tsize(*ty.0));
        }
''')] + w_snap(0, 8) + w_snap(1, 4) + w_snap(2, 2) + w_snap(3, 1) + w_step(8) + w_step(4) + w_step(2) + w_step(1))


def m_step(width):
    return [('off += %d;' % width, 'after', '''
                            proof {
                                lemma_frame_step(old(builder).log@, l0_%d, builder.log@, loc_base(self), loc_off(self), loc_off(self) + tsize(*ty.0));
                            }
''' % width)]


u.extract(M, 'impl MemoryLoc::fn memset', wrap=IMPL, expand_macro='mem_cpy_loop',
          rewrites=[DYN, TYPATH],
          contract='''
    requires
        loc_wf(self), entry_ok(*ty.0),
        // cranelift's emit_small_memset wants the size to be a multiple of the alignment
        self.addr is Addr ==> tsize(*ty.0) % talign(*ty.0) == 0,
    ensures
        frame(*old(builder), *final(builder), self, tsize(*ty.0) as int),
        final(builder).slots == old(builder).slots,
''',
          loop_count=4,
          loops={0: W_INV, 1: W_INV, 2: W_INV, 3: W_INV},
          inserts=[('@body_start', 'after', '''
        proof {
            lemma_log_refl(old(builder).log@, loc_base(self), loc_off(self), loc_off(self) + tsize(*ty.0));
        }
''')] + w_snap(0, 8) + w_snap(1, 4) + w_snap(2, 2) + w_snap(3, 1) + m_step(8) + m_step(4) + m_step(2) + m_step(1))

u.extract(M, 'impl UnwrapOrAlloca for Option<MemoryLoc>::fn unwrap_or_alloca', key='unwrap_or_alloca',
          wrap=('pub trait UnwrapOrAllocaT { fn unwrap_or_alloca(self, builder: &mut FunctionBuilder, ty: Intern<Ty>) -> MemoryLoc; }\nimpl UnwrapOrAllocaT for Option<MemoryLoc> {', '}'),
          contract='''
    ensures
        self is Some ==> res == self->0 && *final(builder) == *old(builder),
        self is None ==> {
            // a fresh slot that is exactly as large as the type
            &&& res.addr is Stack && res.offset == 0
            &&& !old(builder).slots@.dom().contains(res.addr->Stack_0.id as int)
            &&& final(builder).slots@ == old(builder).slots@.insert(res.addr->Stack_0.id as int, tsize(*ty.0) as int)
            &&& no_new_writes(*old(builder), *final(builder))
        },
        entry_ok(*ty.0) || self is Some,
''')

# ---- variant -> enum conversion inside cast_into_memory (R5: statement range lifted) ----
u.extract(M, 'fn cast_into_memory', key='cast_variant_to_enum',
          rewrites=[DYN],
          lift=dict(start_after='assert_eq!(sub_ty, found_sub_ty);',
                    end_at='return Some(memory.into_value(builder, ptr_ty));',
                    sig='''fn cast_variant_to_enum(module: &mut Module, builder: &mut FunctionBuilder, ptr_ty: types::Type,
                            val: Option<Value>, cast_to: Intern<Ty>, memory: Option<MemoryLoc>,
                            sub_ty: &Intern<Ty>, discriminant: &u64, enum_layout: EnumLayout) -> (res: Option<Value>)''',
                    why='the tail of the `variant -> enum` arm of cast_into_memory (after the variant has been looked up) lifted into a function; assumed path condition: cast_to is the enum, sub_ty the payload type of one of its variants, enum_layout its layout'),
          contract='''
    requires
        // path condition of the arm (assumed)
        enum_variants(*cast_to.0) is Some, entry_ok(*cast_to.0), entry_ok(*sub_ty.0),
        enum_layout.view() == tenum(*cast_to.0), enum_layout_ok(*cast_to.0, tenum(*cast_to.0)),
        exists|i: int| 0 <= i < payloads_of(*cast_to.0).len() && #[trigger] payloads_of(*cast_to.0)[i] == *sub_ty.0,
        memory is Some ==> loc_wf(memory->0),
        (val is Some && !spec_is_aggregate(*sub_ty.0)) ==> 0 <= den_bytes(val->0.den@) <= tsize(*sub_ty.0),
    ensures
        // the result is the address of the enum value; everything written lies inside it
        res is Some, res->0.den@ is Addr,
        frame_at(*old(builder), *final(builder), ptr_base(res->0), ptr_off(res->0), tsize(*cast_to.0) as int),
        memory is Some ==> ptr_base(res->0) == loc_base(memory->0) && ptr_off(res->0) == loc_off(memory->0),
        // without a destination the value lives in a fresh stack slot of exactly the enum's size
        memory is None ==> ptr_off(res->0) == 0 && fresh_slot(*old(builder), *final(builder), ptr_base(res->0), tsize(*cast_to.0) as int),
''',
          inserts=[('@body_start', 'after', '''
        proof {
            let w = choose|i: int| 0 <= i < payloads_of(*cast_to.0).len() && #[trigger] payloads_of(*cast_to.0)[i] == *sub_ty.0;
            assert(tsize(payloads_of(*cast_to.0)[w]) <= tenum(*cast_to.0).discriminant_offset);
        }
''')])

# ---- the compound-assignment call site of write_all (Stmt::Assign in compile_stmt), lifted ----
F = 'crates/codegen/src/compiler/functions.rs'
u.raw('''
// shims for the lifted call site: expression ids, the typing table and the callees that are
// not under contract (ASSUMED contracts, listed in the evidence)
#[derive(Clone, Copy)] pub struct ExprIdx(pub u32);
pub struct AssignBody { pub dest: ExprIdx, pub value: ExprIdx }
pub mod hir { #[derive(Clone, Copy)] pub struct BinaryOp(pub u8); }
pub uninterp spec fn expr_ty(e: ExprIdx) -> Ty;
pub uninterp spec fn spec_ty_max(a: Ty, b: Ty) -> Option<Ty>;
#[derive(Clone, Copy)] pub struct LocalDefIdx(pub u32);
// `self.locals: FxHashMap<Idx<hir::LocalDef>, Value>`: the address of every local (ghost view)
pub struct LocalMap { pub m: Ghost<Map<u32, Value>> }
impl LocalMap {
    #[verifier::external_body]
    pub fn insert(&mut self, k: LocalDefIdx, v: Value) ensures final(self).m@ == old(self).m@.insert(k.0, v) { unimplemented!() }
}
pub uninterp spec fn local_ty(l: LocalDefIdx) -> Ty;
/// stack slots are never destroyed or resized while a function is compiled
pub open spec fn slots_grow(a: FunctionBuilder, b: FunctionBuilder) -> bool {
    forall|s: int| a.slots@.dom().contains(s) ==> #[trigger] b.slots@.dom().contains(s) && b.slots@[s] == a.slots@[s]
}
pub struct FunctionCompiler { pub builder: FunctionBuilder, pub module: Module, pub ptr_ty: types::Type, pub locals: LocalMap }
impl FunctionCompiler {
    #[verifier::external_body]
    pub fn ty_of_local(&self, l: LocalDefIdx) -> (r: Intern<Ty>) ensures *r.0 == local_ty(l) { unimplemented!() }
    // `self.world_bodies[self.loc.file()][local_def].value`: the initialiser, if any
    #[verifier::external_body]
    pub fn local_value(&self, l: LocalDefIdx) -> (r: Option<ExprIdx>) { unimplemented!() }
    // ASSUMED: compiling an initialiser into a destination (or default-initialising it) emits
    // code, may create further slots and locals, and destroys none
    #[verifier::external_body]
    pub fn compile_and_cast_into_memory(&mut self, expr: ExprIdx, cast_to: Intern<Ty>, memory: MemoryLoc) -> (r: Option<Value>)
        requires loc_wf(memory)
        ensures slots_grow(old(self).builder, final(self).builder), log_extends(old(self).builder.log@, final(self).builder.log@), final(self).ptr_ty == old(self).ptr_ty
    { unimplemented!() }
    #[verifier::external_body]
    pub fn store_default_in_memory(&mut self, expected_ty: Intern<Ty>, memory: MemoryLoc)
        requires loc_wf(memory)
        ensures slots_grow(old(self).builder, final(self).builder), log_extends(old(self).builder.log@, final(self).builder.log@), final(self).ptr_ty == old(self).ptr_ty
    { unimplemented!() }
    #[verifier::external_body]
    pub fn ty_of(&self, e: ExprIdx) -> (r: Intern<Ty>) ensures *r.0 == expr_ty(e) { unimplemented!() }
    // ASSUMED: a binary operation yields a scalar of the common type of its operands and
    // writes to no live value
    #[verifier::external_body]
    pub fn compile_binary(&mut self, lhs: ExprIdx, rhs: ExprIdx, op: hir::BinaryOp) -> (r: Option<Value>)
        ensures
            no_new_writes(old(self).builder, final(self).builder),
            r is Some && spec_ty_max(expr_ty(lhs), expr_ty(rhs)) is Some
                ==> den_bytes(r->0.den@) == tsize(spec_ty_max(expr_ty(lhs), expr_ty(rhs))->0),
    { unimplemented!() }
    // ASSUMED: a cast between non-aggregate types yields a scalar as wide as the target type
    #[verifier::external_body]
    pub fn cast(&mut self, val: Option<Value>, cast_from: Intern<Ty>, cast_to: Intern<Ty>) -> (r: Option<Value>)
        ensures
            no_new_writes(old(self).builder, final(self).builder),
            r is Some && !spec_is_aggregate(*cast_to.0) ==> 0 <= den_bytes(r->0.den@) == tsize(*cast_to.0),
    { unimplemented!() }
}
impl Ty {
    #[verifier::external_body]
    pub fn max(&self, other: &Ty) -> (r: Option<Ty>) ensures r == spec_ty_max(*self, *other) { unimplemented!() }
}
impl Ty {
    // `.into()` of a Ty into its interned handle
    #[verifier::external_body]
    pub fn intern(self) -> (r: Intern<Ty>) ensures *r.0 == self { unimplemented!() }
}
''')
u.extract(F, 'impl FunctionCompiler<\'_>::fn compile_stmt', key='quick_assign_store',
          wrap=('impl FunctionCompiler {', '}'),
          rewrites=[Rewrite('R4', r'self\.tys\[self\.loc\]\[([a-z_.]+)\]', r'self.ty_of(\1)', count=1,
                            why='typing table lookup -> shim `ty_of` (uninterpreted expr_ty)'),
                    Rewrite('R4', r'\.expect\("hir_ty would\'ve caught this"\)\s*\.into\(\)', '.unwrap().intern()', count=1,
                            why='`.expect(msg).into()` -> `.unwrap().intern()`: message dropped (R6), From<Ty> for Intern<Ty> named'),
                    Rewrite('R4', r'self\.module, &mut self\.builder', '&mut self.module, &mut self.builder', count=1,
                            why='`self.module` is a `&mut dyn Module` field in the real struct, an owned shim here')],
          lift=dict(start_at='let res = self.compile_binary(assign_body.dest, assign_body.value, op);',
                    end_at='dest.write_all(res, *dest_ty, self.module, &mut self.builder);',
                    sig='fn quick_assign_store(&mut self, assign_body: &AssignBody, dest: MemoryLoc, dest_ty: &Intern<Ty>, op: hir::BinaryOp)',
                    why='the compound-assignment branch of hir::Stmt::Assign in compile_stmt lifted into a method; assumed path condition: dest is the address of the destination, dest_ty its type'),
          contract='''
    requires
        loc_wf(dest), entry_ok(*dest_ty.0), *dest_ty.0 == expr_ty(assign_body.dest),
        !spec_is_aggregate(*dest_ty.0),
        spec_ty_max(expr_ty(assign_body.dest), expr_ty(assign_body.value)) is Some,
    ensures
        // the only bytes written are those of the destination
        frame(old(self).builder, final(self).builder, dest, tsize(*dest_ty.0) as int),
''')

# ---- a local definition gets a stack slot of its own (Stmt::LocalDef arm, R5: lifted) -----------
u.extract(F, 'impl FunctionCompiler<\'_>::fn compile_stmt', key='stmt_local_def',
          wrap=('impl FunctionCompiler {', '}'),
          rewrites=[Rewrite('R4', r'self\.tys\[self\.loc\]\[local_def\]', 'self.ty_of_local(local_def)', count=1, why='typing table lookup -> shim `ty_of_local` (uninterpreted local_ty)'),
                    Rewrite('R4', r'self\.world_bodies\[self\.loc\.file\(\)\]\[local_def\]\.value', 'self.local_value(local_def)', count=1, why='lookup in the hir bodies -> shim (uninterpreted)'),
                    Rewrite('R6', r'debug!\([^;]*\);', '', count=None, why='logging dropped')],
          lift=dict(anchor='hir::Stmt::LocalDef(local_def) =>', sig='fn stmt_local_def(&mut self, local_def: LocalDefIdx)',
                    why='the Stmt::LocalDef arm of compile_stmt lifted into a method'),
          contract="""
    ensures
        // "aggregates are copied on assignment": the local lives at offset 0 of a stack slot that
        // did not exist before this statement and is exactly as large as its type -- it shares
        // no memory with any value that was live before
        final(self).locals.m@.dom().contains(local_def.0),
        final(self).locals.m@[local_def.0].den@ is Addr,
        ptr_off(final(self).locals.m@[local_def.0]) == 0,
        fresh_slot(old(self).builder, final(self).builder, ptr_base(final(self).locals.m@[local_def.0]), tsize(local_ty(local_def)) as int),
""")

# ---- nil values (create_nil_value) and the nil branch of the optional -> optional cast ----------
CV = 'crates/codegen/src/convert.rs'
u.extract(CV, 'enum FinalTy', keep_derives={'Clone', 'Copy'})
u.extract(CV, 'struct NumberType', keep_derives={'Clone', 'Copy'})
u.raw("""
pub uninterp spec fn tfinal(ty: Ty) -> FinalTy;
pub open spec fn final_bytes(f: FinalTy) -> int {
    match f { FinalTy::Number(nt) => nt.ty.bits_ as int / 8, FinalTy::Pointer(t) => t.bits_ as int / 8, _ => 0 }
}
/// ASSUMED path condition: the machine type of a pointer-like payload is as wide as its layout
pub open spec fn ptr_payload_ok(opt: Ty) -> bool {
    match spec_abs(opt) {
        Ty::Optional { sub_ty } => is_ptr(*sub_ty.0) ==> (tfinal(*sub_ty.0) is Number || tfinal(*sub_ty.0) is Pointer)
            && !(tfinal(*sub_ty.0) is Number && tfinal(*sub_ty.0)->Number_0.ty.is_float)
            && !(tfinal(*sub_ty.0) is Pointer && tfinal(*sub_ty.0)->Pointer_0.is_float)
            && final_bytes(tfinal(*sub_ty.0)) == tsize(*sub_ty.0) && entry_ok(opt) && entry_ok(*sub_ty.0),
        _ => true,
    }
}
impl Intern<Ty> {
    // `GetFinalTy::get_final_ty`: a table read
    #[verifier::external_body]
    pub fn get_final_ty(&self) -> (r: FinalTy) ensures r == tfinal(*self.0) { unimplemented!() }
}
pub fn verus_assert(b: bool) requires b {}
#[verifier::external_body]
pub fn proved_unreachable<T>() -> (r: T) requires false { unimplemented!() }
""")
u.extract(CV, 'impl FinalTy::fn into_real_type', wrap=('impl FinalTy {', '}'), contract="""
    ensures self is Number ==> res == Some(self->Number_0.ty), self is Pointer ==> res == Some(self->Pointer_0),
        !(self is Number) && !(self is Pointer) ==> res is None
""")
UNREACH_NIL = Rewrite('R6', r'unreachable!\("the type of nil should be an optional"\);', 'return proved_unreachable();', count=1,
                      why='`unreachable!` -> a call whose precondition is `false`: PROVED unreachable')
ASSERTS = Rewrite('R6', r'assert!\(([^;]*?)\);', r'verus_assert(\1);', count=None, why='`assert!` -> a call whose precondition is the asserted condition: PROVED not to fire')
EXPECT = Rewrite('R6', r'\.expect\("[^"]*"\)', '.unwrap()', count=None, why='`.expect(msg)` -> `.unwrap()`: message dropped, the Option must be PROVED to be Some')
C_NIL = """
    requires
        *option_ty.0 is Optional, entry_ok(*option_ty.0), ptr_payload_ok(*option_ty.0),
        memory is Some ==> loc_wf(memory->0),
    ensures
        // a nil is written inside the optional it is a value of, and nowhere else
        memory is Some ==> frame(*old(builder), *final(builder), memory->0, tsize(*option_ty.0) as int),
        memory is None && !has_enum_layout(*option_ty.0) ==> no_new_writes(*old(builder), *final(builder)),
        memory is None && has_enum_layout(*option_ty.0) ==> res.den@ is Addr && ptr_off(res) == 0
            && fresh_slot(*old(builder), *final(builder), ptr_base(res), tsize(*option_ty.0) as int)
            && frame_at(*old(builder), *final(builder), ptr_base(res), 0, tsize(*option_ty.0) as int),
"""
NIL_TAIL = Rewrite('R8', r'\n(\s*)memory\.into_value\(builder, ptr_ty\)\n', r"\n\1let ghost mid = *builder; let res_tail = memory.into_value(builder, ptr_ty); proof { lemma_frame_intro(old(builder).log@, mid.log@, loc_base(memory), loc_off(memory), loc_off(memory) + tsize(*option_ty.0)); lemma_quiet_any(builder.log@, mid.log@.len() as int, loc_base(memory), loc_off(memory), loc_off(memory) + tsize(*option_ty.0)); lemma_frame_trans(old(builder).log@, mid.log@, builder.log@, loc_base(memory), loc_off(memory), loc_off(memory) + tsize(*option_ty.0)); } res_tail\n",
                   count=1, why='the tail expression is bound to a name so that the proof block can follow it')
u.extract(M, 'fn create_nil_value', rewrites=[UNREACH_NIL, ASSERTS, EXPECT, NIL_TAIL], contract=C_NIL,
          inserts=[('\n        nil\n', 'before', """
        proof {
            if memory is Some {
                lemma_frame_intro(old(builder).log@, builder.log@, loc_base(memory->0), loc_off(memory->0), loc_off(memory->0) + tsize(*option_ty.0));
            } else {
                lemma_quiet_intro(old(builder).log@, builder.log@);
            }
        }
""")])
u.extract(M, 'fn cast_into_memory', key='opt_to_opt_nil',
          lift=dict(start_after='|builder, _func_writer| ', end_before=',\n                cast_to.get_final_ty().into_real_type(),',
                    sig="""fn opt_to_opt_nil(builder: &mut FunctionBuilder, ptr_ty: types::Type, cast_from: Intern<Ty>, cast_to: Intern<Ty>,
                          memory: Option<MemoryLoc>) -> (res: Option<Value>)""",
                    why='the body of the `map_nil` closure of the `optional -> optional` arm of cast_into_memory lifted into a function; assumed path condition: both types are optionals, memory is the destination'),
          contract="""
    requires
        *cast_from.0 is Optional, *cast_to.0 is Optional, entry_ok(*cast_from.0), entry_ok(*cast_to.0),
        ptr_payload_ok(*cast_from.0), ptr_payload_ok(*cast_to.0),
        memory is Some ==> loc_wf(memory->0),
    ensures
        // the nil of the DESTINATION optional: only bytes of the destination are written
        memory is Some ==> frame(*old(builder), *final(builder), memory->0, tsize(*cast_to.0) as int),
""")

# ---- payload -> optional / error union (cast_payload_into_tagged_union, verbatim) --------------
u.raw("""
pub struct MetaTyData { pub _p: u8 }
pub struct NiceFuncWriter { pub _p: u8 }
// the recursion: ASSUMED to satisfy the frame contract this unit establishes arm by arm -- a
// conversion into a destination writes only the bytes of the destination type there
#[verifier::external_body]
pub fn cast_into_memory(meta_tys: &mut MetaTyData, module: &mut Module, builder: &mut FunctionBuilder, func_writer: &mut NiceFuncWriter,
                        ptr_ty: types::Type, val: Option<Value>, cast_from: Intern<Ty>, cast_to: Intern<Ty>, memory: Option<MemoryLoc>) -> (r: Option<Value>)
    requires memory is Some ==> loc_wf(memory->0)
    ensures memory is Some ==> frame(*old(builder), *final(builder), memory->0, tsize(*cast_to.0) as int)
        && final(builder).slots == old(builder).slots
{ unimplemented!() }
""")
NOASSERT = Rewrite('R6', r'assert!\((?:[^;]|;(?!\n))*?\);\n', '\n', count=None, why='`assert!(..)` dropped: a failed assertion aborts, it writes no memory (the frame contract is about stores)')
u.extract(M, 'fn cast_payload_into_tagged_union', rewrites=[DYN, NOASSERT, EXPECT], contract="""
    requires
        // path condition (assumed): union_ty is a tagged optional / error union and
        // to_payload_ty is one of its payload types
        has_enum_layout(*union_ty.0), entry_ok(*union_ty.0),
        exists|i: int| 0 <= i < payloads_of(*union_ty.0).len() && #[trigger] payloads_of(*union_ty.0)[i] == *to_payload_ty.0,
        memory is Some ==> loc_wf(memory->0),
    ensures
        // the payload and the tag are written inside the union value, nothing else is
        res.den@ is Addr,
        frame_at(*old(builder), *final(builder), ptr_base(res), ptr_off(res), tsize(*union_ty.0) as int),
        memory is Some ==> ptr_base(res) == loc_base(memory->0) && ptr_off(res) == loc_off(memory->0),
        memory is None ==> ptr_off(res) == 0 && fresh_slot(*old(builder), *final(builder), ptr_base(res), tsize(*union_ty.0) as int),
""", inserts=[('@body_start', 'after', """
    proof {
        let w = choose|i: int| 0 <= i < payloads_of(*union_ty.0).len() && #[trigger] payloads_of(*union_ty.0)[i] == *to_payload_ty.0;
        assert(tsize(payloads_of(*union_ty.0)[w]) <= tenum(*union_ty.0).discriminant_offset);
    }
""")])

# ---- array -> array and struct -> struct casts (cast_array_to_array verbatim) --------------------
u.raw("""
// `assert!(c)`: the statements after it run only when c holds (a failed assertion aborts the
// compiler, nothing more is emitted) -- ASSUMED std behaviour
#[verifier::external_body]
pub fn rt_assert(c: bool) ensures c { unimplemented!() }
pub uninterp spec fn spec_feq(a: Ty, b: Ty, strict: bool) -> bool;
impl Ty {
    // structural equivalence of two types: uninterpreted here (which branch is taken does not
    // matter for the frame)
    #[verifier::external_body]
    pub fn is_functionally_equivalent_to(&self, other: &Ty, strict: bool) -> (r: bool) ensures r == spec_feq(*self, *other, strict) { unimplemented!() }
    #[verifier::external_body]
    pub fn is_array(&self) -> (r: bool) ensures r == (spec_abs(*self) is AnonArray || spec_abs(*self) is ConcreteArray) { unimplemented!() }
}
pub open spec fn arr_len(t: Ty) -> nat {
    match spec_abs(t) { Ty::AnonArray { size, .. } => size as nat, Ty::ConcreteArray { size, .. } => size as nat, _ => 0 }
}
pub open spec fn arr_sub(t: Ty) -> Ty {
    match spec_abs(t) { Ty::AnonArray { sub_ty, .. } => *sub_ty.0, Ty::ConcreteArray { sub_ty, .. } => *sub_ty.0, _ => t }
}
pub open spec fn is_arr(t: Ty) -> bool { spec_abs(t) is AnonArray || spec_abs(t) is ConcreteArray }
/// the table entries of a type and of everything its distinct / variant wrappers wrap are the
/// ones unit layout establishes (rely condition: calc_single enters the wrapped type first)
pub open spec fn chain_ok(ty: Ty) -> bool decreases ty {
    entry_ok(ty) && match ty {
        Ty::Distinct { sub_ty, .. } => chain_ok(*sub_ty.0),
        Ty::EnumVariant { sub_ty, .. } => chain_ok(*sub_ty.0),
        _ => true,
    }
}
pub proof fn lemma_chain(ty: Ty)
    requires chain_ok(ty)
    ensures tsize(ty) == tsize(spec_abs(ty)), entry_ok(spec_abs(ty))
    decreases ty
{
    match ty {
        Ty::Distinct { sub_ty, .. } => { lemma_chain(*sub_ty.0); }
        Ty::EnumVariant { sub_ty, .. } => { lemma_chain(*sub_ty.0); }
        _ => {}
    }
}
pub proof fn lemma_rup_ge(x: nat, a: nat) ensures rup(x, a) >= x
{
    if a > 0 && x % a != 0 { assert(x % a < a) by(nonlinear_arith) requires a > 0; }
}
pub proof fn lemma_arr_size(ty: Ty)
    requires chain_ok(ty), is_arr(ty)
    ensures tsize(ty) == arr_len(ty) * stride_of(arr_sub(ty))
{
    lemma_chain(ty);
}
pub proof fn lemma_elem_in_array(stride: nat, sub: nat, len: nat, idx: nat)
    requires idx < len, sub <= stride
    ensures stride * idx + sub <= stride * len, stride * idx <= stride * len
{
    assert(stride * idx + stride == stride * (idx + 1)) by(nonlinear_arith);
    assert(stride * (idx + 1) <= stride * len) by(nonlinear_arith) requires idx + 1 <= len;
    assert(stride * idx <= stride * len) by(nonlinear_arith) requires idx <= len;
}
""")
u.extract(T, 'impl Ty::fn as_array', wrap=('impl Ty {', '}'), contract="""
    ensures is_arr(*self) ==> res is Some && (res->0).0 as nat == arr_len(*self) && *((res->0).1).0 == arr_sub(*self),
        !is_arr(*self) ==> res is None
""")
RT_ASSERT = Rewrite('R7', r'assert!\(((?:[^;]|;(?!\n))*?)\);\n', r'rt_assert(\1);\n', count=None, why='`assert!(c)` -> `rt_assert(c)`: what follows runs only when c holds')
RT_ASSERT_EQ = Rewrite('R7', r'assert_eq!\(([^,;]*?), ([^,;]*?)\);\n', r'rt_assert(\1 == \2);\n', count=None, why='`assert_eq!(a, b)` -> `rt_assert(a == b)`')
MAP_LOAD = Rewrite('R7', r'(\w+)\s*\.get_final_ty\(\)\s*\.into_real_type\(\)\s*\.map\(\|(\w+)\|\s*\{\s*builder\s*\.ins\(\)\s*\.load\(([^;]*?)\)\s*\}\)',
                   r'match \1.get_final_ty().into_real_type() { Some(\2) => Some(builder.ins().load(\3)), None => None }', count=1,
                   why='`opt.map(|t| builder.ins().load(t, ..))` written as the match it abbreviates (the closure borrows the builder mutably)')
u.extract(M, 'fn cast_array_to_array', rewrites=[DYN, RT_ASSERT, RT_ASSERT_EQ, MAP_LOAD], contract="""
    requires
        chain_ok(*cast_from.0), chain_ok(*cast_to.0), tsize(*cast_from.0) <= 0x3fff_ffff, tsize(*cast_to.0) <= 0x3fff_ffff,
        // an array is handed over by address
        val is Some ==> val->0.den@ is Addr,
        memory is Some ==> loc_wf(memory->0) && memory->0.offset + tsize(*cast_to.0) <= 0x3fff_ffff,
    ensures
        // either the value is handed on untouched, or every element is converted into its place
        // inside the destination array: nothing outside the destination array is written
        !spec_feq(arr_sub(*cast_from.0), arr_sub(*cast_to.0), false) && val is Some ==> {
            &&& res is Some && res->0.den@ is Addr
            &&& frame_at(*old(builder), *final(builder), ptr_base(res->0), ptr_off(res->0), tsize(*cast_to.0) as int)
            &&& memory is Some ==> ptr_base(res->0) == loc_base(memory->0) && ptr_off(res->0) == loc_off(memory->0)
            &&& memory is None ==> ptr_off(res->0) == 0 && fresh_slot(*old(builder), *final(builder), ptr_base(res->0), tsize(*cast_to.0) as int)
        },
        // same element representation: the value itself, nothing is emitted
        spec_feq(arr_sub(*cast_from.0), arr_sub(*cast_to.0), false) ==> res == val && final(builder).log == old(builder).log && final(builder).slots == old(builder).slots,
        !spec_feq(arr_sub(*cast_from.0), arr_sub(*cast_to.0), false) && val is None ==> res is None && final(builder).log == old(builder).log,
""", loops={0: """
            invariant
                loc_wf(result_mem), result_mem.offset + tsize(*cast_to.0) <= 0x3fff_ffff,
                is_arr(*cast_to.0), is_arr(*cast_from.0), to_len == arr_len(*cast_to.0), from_len == arr_len(*cast_from.0), from_len == to_len,
                *to_sub_ty.0 == arr_sub(*cast_to.0), *from_sub_ty.0 == arr_sub(*cast_from.0),
                chain_ok(*cast_from.0), chain_ok(*cast_to.0), tsize(*cast_from.0) <= 0x3fff_ffff, tsize(*cast_to.0) <= 0x3fff_ffff,
                entry_ok(*to_sub_ty.0), entry_ok(*from_sub_ty.0),
                to_sub_stride as nat == stride_of(*to_sub_ty.0), from_sub_stride as nat == stride_of(*from_sub_ty.0),
                val.den@ is Addr,
                log_extends(l1, builder.log@),
                only_writes_within(builder.log@, l1.len() as int, loc_base(result_mem), loc_off(result_mem), loc_off(result_mem) + tsize(*cast_to.0)),
                builder.slots == slots1,
"""}, inserts=[('@after_stmt:let result_mem =', 'after', """
        let ghost l1 = builder.log@; let ghost slots1 = builder.slots;
        proof { lemma_log_refl(l1, loc_base(result_mem), loc_off(result_mem), loc_off(result_mem) + tsize(*cast_to.0)); }
"""), ('@loop_start:0', 'after', """
            let ghost lb = builder.log@;
            proof {
                assert(idx < to_len);
                lemma_arr_size(*cast_to.0); lemma_arr_size(*cast_from.0);
                lemma_rup_ge(tsize(*to_sub_ty.0), talign(*to_sub_ty.0));
                lemma_elem_in_array(to_sub_stride as nat, tsize(*to_sub_ty.0), to_len as nat, idx as nat);
                lemma_elem_in_array(from_sub_stride as nat, 0, from_len as nat, idx as nat);
                assert(to_len as nat * stride_of(*to_sub_ty.0) == stride_of(*to_sub_ty.0) * to_len as nat) by(nonlinear_arith);
                assert(from_len as nat * stride_of(*from_sub_ty.0) == stride_of(*from_sub_ty.0) * from_len as nat) by(nonlinear_arith);
            }
"""), ('@after_stmt:let dest = result_mem.with_offset(to_offset)', 'after', ' let ghost mid = builder.log@; '),
   ('@loop_body_end:0', 'before', """
            proof {
                let base = loc_base(result_mem); let lo = loc_off(result_mem); let hi = loc_off(result_mem) + tsize(*cast_to.0);
                lemma_within_weaken(builder.log@, mid.len() as int, base, loc_off(dest), loc_off(dest) + tsize(*to_sub_ty.0), lo, hi);
                assert forall|i: int| lb.len() <= i < builder.log@.len() implies ev_within(#[trigger] builder.log@[i], base, lo, hi) by {
                    if i < mid.len() { assert(builder.log@[i] == mid[i]); assert(ev_quiet(mid[i])); }
                }
                lemma_frame_step(l1, lb, builder.log@, base, lo, hi);
            }
""")])

# ---- struct -> struct cast (cast_struct_to_struct verbatim) ---------------------------------------
u.raw("""
pub uninterp spec fn spec_members_equiv(a: Seq<MemberTy>, b: Seq<MemberTy>) -> bool;
// `a.iter().zip_eq(b.iter()).all(|(from, to)| from.name == to.name && from.ty.is_functionally_equivalent_to(&to.ty, true))`:
// which branch is taken does not matter for the frame -- uninterpreted
#[verifier::external_body]
pub fn members_all_equiv(a: &Vec<MemberTy>, b: &Vec<MemberTy>) -> (r: bool) ensures r == spec_members_equiv(a@, b@) { unimplemented!() }
// `v.iter().enumerate().map(|(idx, m)| (m.name, (idx, m.ty))).collect::<FxHashMap<_, _>>()`:
// the members by name (ASSUMED meaning of the iterator chain)
pub struct MemberIndex { pub m: Ghost<Seq<MemberTy>> }
#[verifier::external_body]
pub fn index_members(v: &Vec<MemberTy>) -> (r: MemberIndex) ensures r.m@ == v@ { unimplemented!() }
impl MemberIndex {
    // `map[name]`: position and type of the member of that name; panics when there is none, so
    // what follows runs only when there is one
    #[verifier::external_body]
    pub fn at(&self, name: &Name) -> (r: (usize, Intern<Ty>))
        ensures (r.0 as int) < self.m@.len(), self.m@[r.0 as int].ty == r.1
    { unimplemented!() }
}
impl Ty {
    #[verifier::external_body]
    pub fn is_struct(&self) -> (r: bool) ensures r == is_struct_ty(spec_abs(*self)) { unimplemented!() }
    // `Some(members.clone())` of the struct under the wrappers (ASSUMED: accessor)
    #[verifier::external_body]
    pub fn as_struct(&self) -> (r: Option<Vec<MemberTy>>)
        ensures is_struct_ty(spec_abs(*self)) ==> r is Some && r->0@ == members_of(spec_abs(*self)), !is_struct_ty(spec_abs(*self)) ==> r is None
    { unimplemented!() }
}
/// the part of the struct layout rule a copy into the struct needs: every member lies inside
pub open spec fn fields_in(f: Seq<Ty>, l: StructLayoutView) -> bool {
    l.offsets.len() == f.len() && forall|i: int| 0 <= i < f.len() ==> #[trigger] l.offsets[i] + tsize(f[i]) <= l.size
}
pub proof fn lemma_fields_in(ty: Ty, l: StructLayoutView)
    requires struct_layout_ok(ty, l)
    ensures fields_in(field_tys(ty), l)
{}
pub proof fn lemma_struct_size(ty: Ty)
    requires chain_ok(ty), is_struct_ty(spec_abs(ty))
    ensures tsize(ty) == tstruct(spec_abs(ty)).size
{
    lemma_chain(ty);
}
""")
ALL_EQUIV = Rewrite('R7', r'from_members\s*\.iter\(\)\s*\.zip_eq\(to_members\.iter\(\)\)\s*\.all\(\|\(from, to\)\| \{\s*from\.name == to\.name && from\.ty\.is_functionally_equivalent_to\(&to\.ty, true\)\s*\}\)',
                    'members_all_equiv(&from_members, &to_members)', count=1, flags=16,
                    why='iterator chain `zip_eq(..).all(|(from, to)| same name && functionally equivalent)` -> shim with an uninterpreted result')
BY_NAME = Rewrite('R7', r'let to_members: FxHashMap<_, _> = to_members\s*\.iter\(\)\s*\.enumerate\(\)\s*\.map\(\|\(idx, member_ty\)\| \(member_ty\.name, \(idx, member_ty\.ty\)\)\)\s*\.collect\(\);',
                  'let to_members_v = to_members; let to_members = index_members(&to_members_v);', count=1,
                  why='iterator chain building the by-name map of the destination members -> shim `index_members` (position and type of each member)')
BY_NAME_AT = Rewrite('R4', r'to_members\[from_name\]', 'to_members.at(from_name)', count=1, why='Index on FxHashMap -> shim read `at`')
MAP_LOAD2 = Rewrite('R7', MAP_LOAD.pattern, MAP_LOAD.repl, count=1, why=MAP_LOAD.why)
u.extract(M, 'fn cast_struct_to_struct', rewrites=[DYN, RT_ASSERT, RT_ASSERT_EQ, ALL_EQUIV, BY_NAME, BY_NAME_AT, MAP_LOAD2],
          desugar_for={0: ('mi', 'enum_ref')}, contract="""
    requires
        chain_ok(*cast_from.0), chain_ok(*cast_to.0), tsize(*cast_from.0) <= 0x3fff_ffff, tsize(*cast_to.0) <= 0x3fff_ffff,
        val is Some ==> val->0.den@ is Addr,
        memory is Some ==> loc_wf(memory->0) && memory->0.offset + tsize(*cast_to.0) <= 0x3fff_ffff,
    ensures
        // either the value is handed on untouched, or every member is converted into the place of
        // the member of the same name inside the destination struct: nothing else is written
        !spec_members_equiv(members_of(spec_abs(*cast_from.0)), members_of(spec_abs(*cast_to.0))) && val is Some ==> {
            &&& res is Some && res->0.den@ is Addr
            &&& frame_at(*old(builder), *final(builder), ptr_base(res->0), ptr_off(res->0), tsize(*cast_to.0) as int)
            &&& memory is Some ==> ptr_base(res->0) == loc_base(memory->0) && ptr_off(res->0) == loc_off(memory->0)
            &&& memory is None ==> ptr_off(res->0) == 0 && fresh_slot(*old(builder), *final(builder), ptr_base(res->0), tsize(*cast_to.0) as int)
        },
        spec_members_equiv(members_of(spec_abs(*cast_from.0)), members_of(spec_abs(*cast_to.0))) ==> res == val && final(builder).log == old(builder).log && final(builder).slots == old(builder).slots,
        !spec_members_equiv(members_of(spec_abs(*cast_from.0)), members_of(spec_abs(*cast_to.0))) && val is None ==> res is None && final(builder).log == old(builder).log,
""", loops={0: """
            invariant
                0 <= mi <= it_mi@.len(), it_mi@ == members_of(spec_abs(*cast_from.0)),
                from_members@.len() == to_members.m@.len(), to_members.m@ == members_of(spec_abs(*cast_to.0)),
                loc_wf(result_mem), result_mem.offset + tsize(*cast_to.0) <= 0x3fff_ffff,
                is_struct_ty(spec_abs(*cast_from.0)), is_struct_ty(spec_abs(*cast_to.0)),
                chain_ok(*cast_from.0), chain_ok(*cast_to.0), tsize(*cast_from.0) <= 0x3fff_ffff, tsize(*cast_to.0) <= 0x3fff_ffff,
                from_layout.view() == tstruct(spec_abs(*cast_from.0)), fields_in(field_tys(spec_abs(*cast_from.0)), tstruct(spec_abs(*cast_from.0))),
                to_layout.view() == tstruct(spec_abs(*cast_to.0)), fields_in(field_tys(spec_abs(*cast_to.0)), tstruct(spec_abs(*cast_to.0))),
                tsize(*cast_to.0) == tstruct(spec_abs(*cast_to.0)).size, tsize(*cast_from.0) == tstruct(spec_abs(*cast_from.0)).size,
                val.den@ is Addr,
                log_extends(l1, builder.log@),
                only_writes_within(builder.log@, l1.len() as int, loc_base(result_mem), loc_off(result_mem), loc_off(result_mem) + tsize(*cast_to.0)),
                builder.slots == slots1,
            decreases it_mi@.len() - mi
"""}, inserts=[('@after_stmt:let result_mem =', 'after', """
        let ghost l1 = builder.log@; let ghost slots1 = builder.slots;
        proof { lemma_log_refl(l1, loc_base(result_mem), loc_off(result_mem), loc_off(result_mem) + tsize(*cast_to.0)); }
"""), ('@loop_start:0', 'after', """
            let ghost lb = builder.log@;
"""), ('@after_stmt:let to_layout = cast_to.struct_layout().unwrap()', 'after', """
        proof {
            lemma_struct_size(*cast_to.0); lemma_struct_size(*cast_from.0);
            lemma_fields_in(spec_abs(*cast_to.0), tstruct(spec_abs(*cast_to.0)));
            lemma_fields_in(spec_abs(*cast_from.0), tstruct(spec_abs(*cast_from.0)));
        }
"""), ('@after_stmt:let to_offset =', 'after', """
            proof {
                let lt = tstruct(spec_abs(*cast_to.0)); let lf = tstruct(spec_abs(*cast_from.0));
                assert(to_layout.view().offsets[to_idx as int] == to_offset as nat);
                assert(from_layout.view().offsets[from_idx as int] == from_offset as nat);
                assert(lt.offsets[to_idx as int] + tsize(field_tys(spec_abs(*cast_to.0))[to_idx as int]) <= lt.size);
                assert(lf.offsets[from_idx as int] + tsize(field_tys(spec_abs(*cast_from.0))[from_idx as int]) <= lf.size);
                assert(*to_ty.0 == field_tys(spec_abs(*cast_to.0))[to_idx as int]);
            }
"""), ('@after_stmt:let src = if from_ty.is_aggregate()', 'after', ' let ghost mid = builder.log@; '),
   ('@loop_body_end:0', 'before', """
            proof {
                let base = loc_base(result_mem); let lo = loc_off(result_mem); let hi = loc_off(result_mem) + tsize(*cast_to.0);
                assert(*to_ty.0 == field_tys(spec_abs(*cast_to.0))[to_idx as int]);
                lemma_within_weaken(builder.log@, mid.len() as int, base, loc_off(dest), loc_off(dest) + tsize(*to_ty.0), lo, hi);
                assert forall|i: int| lb.len() <= i < builder.log@.len() implies ev_within(#[trigger] builder.log@[i], base, lo, hi) by {
                    if i < mid.len() { assert(builder.log@[i] == mid[i]); assert(ev_quiet(mid[i])); }
                }
                lemma_frame_step(l1, lb, builder.log@, base, lo, hi);
            }
""")])

MUTANTS = [
    (M, '    memory.write_val(builder, one, enum_layout.discriminant_offset() as i32);', '    memory.write_val(builder, one, enum_layout.discriminant_offset() as i32 + 8);', 'violation'),
    (M, '        to_payload_ty,\n        Some(memory),\n    );\n\n    let enum_layout = union_ty', '        union_ty,\n        Some(memory),\n    );\n\n    let enum_layout = union_ty', 'ok'),
    (M, '|builder, _func_writer| Some(create_nil_value(builder, ptr_ty, cast_to, memory)),', '|builder, _func_writer| Some(create_nil_value(builder, ptr_ty, cast_from, memory)),', 'violation'),
    (M, 'memory.write_val(builder, zero, opt_layout.discriminant_offset() as i32);', 'memory.write_val(builder, zero, opt_layout.discriminant_offset() as i32 + 1);', 'violation'),
    # the three C02 defects repaired by "fix:" commits, re-introduced
    (M, 'let discrim = builder.ins().iconst(types::I8, *discriminant as i64);', 'let discrim = builder.ins().iconst(ptr_ty, *discriminant as i64);', 'violation'),
    (M, '                    let size = ty.size();\n                    let align = if size % ty.align() == 0 {', '                    let size = ty.stride();\n                    let align = if size % ty.align() == 0 {', 'violation'),
    (M, '''                            while (off + $width) <= ty.size() as i32 {
                                let bytes = builder.ins().load(''', '''                            while (off + $width) <= ty.stride() as i32 {
                                let bytes = builder.ins().load(''', 'violation'),
    (M, 'cranelift::codegen::ir::Type::int_with_byte_size($width).unwrap(),\n                                val as i64,', 'cranelift::codegen::ir::Type::int_with_byte_size(8).unwrap(),\n                                val as i64,', 'violation'),
    # array -> array and struct -> struct casts
    (M, '            let to_offset = to_sub_stride * idx;', '            let to_offset = from_sub_stride * idx;', 'violation'),
    (M, '            let to_offset = to_layout.offsets()[to_idx];', '            let to_offset = from_layout.offsets()[to_idx];', 'violation'),
    (M, '            let dest = result_mem.with_offset(to_offset);\n\n            let src = if from_ty.is_aggregate() {', '            let dest = result_mem.with_offset(from_offset);\n\n            let src = if from_ty.is_aggregate() {', 'violation'),
    (M, '            let from_offset = from_sub_stride * idx;\n            let to_offset = to_sub_stride * idx;', '            let to_offset = to_sub_stride * idx;\n            let from_offset = from_sub_stride * idx;', 'ok'),
    # a local takes over the address its initialiser returned (no slot of its own)
    (F, '                    self.compile_and_cast_into_memory(value, ty, memory);\n                } else {\n                    debug!("store default', '                    if let Some(v) = self.compile_and_cast_into_memory(value, ty, memory) { self.locals.insert(local_def, v); return; }\n                } else {\n                    debug!("store default', 'violation'),
    # others
    (M, 'memory.write_val(builder, discrim, enum_layout.discriminant_offset() as i32);', 'memory.write_val(builder, discrim, enum_layout.discriminant_offset() as i32 + 1);', 'violation'),
    (M, '                    .stack_store(x, slot, offset + self.offset as i32)', '                    .stack_store(x, slot, offset)', 'violation'),
    (M, 'offset: self.offset + offset,', 'offset: offset,', 'violation'),
    (M, '''                    size: ty.size(),
                    align_shift: ty.align_shift(),
                });

                MemoryLoc::from_stack(stack_slot, 0)''', '''                    size: ty.size() / 2,
                    align_shift: ty.align_shift(),
                });

                MemoryLoc::from_stack(stack_slot, 0)''', 'violation'),
    (M, '                                    .stack_store(bytes, slot, off + self.offset as i32);', '                                    .stack_store(bytes, slot, off);', 'violation'),
    (F, '                    let res = self.cast(res, max_ty, *dest_ty);\n', '', 'violation'),
    # harmless: swap two independent statements
    (M, '        let discrim = builder.ins().iconst(types::I8, *discriminant as i64);\n        memory.write_val(builder, discrim, enum_layout.discriminant_offset() as i32);',
        '        let tag = builder.ins().iconst(types::I8, *discriminant as i64);\n        memory.write_val(builder, tag, enum_layout.discriminant_offset() as i32);', 'ok'),
]
