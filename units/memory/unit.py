"""Unit `memory` (C02): frame conditions for the functions that emit stores."""
from tools.unitapi import Unit, Rewrite, sibling

layout = sibling('layout')
M = 'crates/codegen/src/compiler/mod.rs'
T = 'crates/hir/src/common/ty.rs'

UNIT = u = Unit('memory', ['C02'], 'store footprints: MemoryLoc::{with_offset,into_value,write_val,write_all,memset}, unwrap_or_alloca, variant->enum conversion')
layout.prelude(u)
u.shim('clif.rs')
layout.api_stubs(u)
u.extract(M, 'enum Location', keep_derives={'Clone', 'Copy'}, rewrites=[Rewrite('R4', r'^enum Location', 'pub enum Location', flags=8, why='private datatype widened to pub for spec accessors')])
u.extract(M, 'struct MemoryLoc', keep_derives={'Clone', 'Copy'}, pub_fields=True)
u.spec('spec.rs')
u.trusted += [
    'Cranelift store/load/stack_store/emit_small_memory_copy footprints as specified in shims/verus/clif.rs',
    'layout contracts (stride, size, align, enum_layout) proved in unit layout and used here as stubs',
    'distinct stack slots and distinct heap objects do not overlap (Cranelift / allocator guarantee)',
    'values handed to write_all carry the width of their type (den_bytes <= size), pointers carry provenance (Den::Addr)',
    'cast_into_memory as a whole, cast_struct_to_struct, cast_array_to_array are NOT under contract: only the store-emitting callees are',
]

DYN = Rewrite('R4', r'&mut dyn Module', '&mut Module', count=None, why='trait object -> shim struct of the same name')
TYPATH = Rewrite('R4', r'cranelift::codegen::ir::Type::', 'types::Type::', count=None, why='type path normalisation')

u.extract(T, 'impl Ty::fn is_aggregate', wrap=('impl Ty {', '}'),
          contract='    ensures res == spec_is_aggregate(*self)')

IMPL = ('impl MemoryLoc {', '}')
u.extract(M, 'impl MemoryLoc::fn from_stack', wrap=IMPL, contract='''
    ensures res.addr == Location::Stack(stack_slot), res.offset == offset
''')
u.extract(M, 'impl MemoryLoc::fn from_addr', wrap=IMPL, contract='''
    ensures res.addr == Location::Addr(addr), res.offset == offset
''')
u.extract(M, 'impl MemoryLoc::fn with_offset', wrap=IMPL, contract='''
    requires self.offset as int + offset as int <= u32::MAX
    ensures loc_base(res) == loc_base(self), loc_off(res) == loc_off(self) + offset,
        res.addr == self.addr, res.offset == self.offset + offset
''')
u.extract(M, 'impl MemoryLoc::fn into_value', wrap=IMPL, contract='''
    requires loc_wf(self)
    ensures
        // the address of the location itself; nothing is written
        res.den@ is Addr, ptr_base(res) == loc_base(self), ptr_off(res) == loc_off(self),
        no_writes(*old(builder), *final(builder)),
''', ret='res', inserts=[('@body_start', 'after', '''
        proof { lemma_log_refl(old(builder).log@, Base::Unknown, 0, 0); }
''')])
u.extract(M, 'impl MemoryLoc::fn write_val', wrap=IMPL, contract='''
    requires loc_wf(*self), -0x3fff_ffff <= offset <= 0x3fff_ffff
    ensures
        // exactly one store: the bytes of x at loc + offset
        final(builder).log@ == old(builder).log@.push(Ev::Write { base: loc_base(*self),
            lo: loc_off(*self) + offset, hi: loc_off(*self) + offset + den_bytes(x.den@) }),
        final(builder).slots == old(builder).slots,
''')

W_INV = '''
    invariant
        loc_wf(self), self.addr == Location::Stack(slot), 0 <= off <= tsize(*ty.0), entry_ok(*ty.0),
        log_extends(old(builder).log@, builder.log@),
        only_writes_within(builder.log@, old(builder).log@.len() as int, loc_base(self), loc_off(self), loc_off(self) + tsize(*ty.0)),
        builder.slots == old(builder).slots,
    decreases tsize(*ty.0) - off
'''


def w_step(width):
    return [('off += %d;' % width, 'after', '''
                                proof {
                                    lemma_frame_step(old(builder).log@, l0_%d, builder.log@, loc_base(self), loc_off(self), loc_off(self) + tsize(*ty.0));
                                }
''' % width)]


def w_snap(n, width):
    return [('@loop_start:%d' % n, 'after', ' let ghost l0_%d = builder.log@; ' % width)]


u.extract(M, 'impl MemoryLoc::fn write_all', wrap=IMPL, expand_macro='mem_cpy_loop',
          rewrites=[DYN, TYPATH],
          contract='''
    requires
        loc_wf(self), entry_ok(*ty.0),
        // a non-aggregate value is as wide as its type; an aggregate is passed by address
        (val is Some && !spec_is_aggregate(*ty.0)) ==> 0 <= den_bytes(val->0.den@) <= tsize(*ty.0),
    ensures
        frame(*old(builder), *final(builder), self, tsize(*ty.0) as int),
        final(builder).slots == old(builder).slots,
''',
          loop_count=4,
          loops={0: W_INV, 1: W_INV, 2: W_INV, 3: W_INV},
          inserts=[('@body_start', 'after', '''
        proof {
            lemma_log_refl(old(builder).log@, loc_base(self), loc_off(self), loc_off(self) + tsize(*ty.0));
        }
''')] + w_snap(0, 8) + w_snap(1, 4) + w_snap(2, 2) + w_snap(3, 1) + w_step(8) + w_step(4) + w_step(2) + w_step(1))


def m_step(width):
    return [('off += %d;' % width, 'after', '''
                            proof {
                                lemma_frame_step(old(builder).log@, l0_%d, builder.log@, loc_base(self), loc_off(self), loc_off(self) + tsize(*ty.0));
                            }
''' % width)]


u.extract(M, 'impl MemoryLoc::fn memset', wrap=IMPL, expand_macro='mem_cpy_loop',
          rewrites=[DYN, TYPATH],
          contract='''
    requires
        loc_wf(self), entry_ok(*ty.0),
        // cranelift's emit_small_memset wants the size to be a multiple of the alignment
        self.addr is Addr ==> tsize(*ty.0) % talign(*ty.0) == 0,
    ensures
        frame(*old(builder), *final(builder), self, tsize(*ty.0) as int),
        final(builder).slots == old(builder).slots,
''',
          loop_count=4,
          loops={0: W_INV, 1: W_INV, 2: W_INV, 3: W_INV},
          inserts=[('@body_start', 'after', '''
        proof {
            lemma_log_refl(old(builder).log@, loc_base(self), loc_off(self), loc_off(self) + tsize(*ty.0));
        }
''')] + w_snap(0, 8) + w_snap(1, 4) + w_snap(2, 2) + w_snap(3, 1) + m_step(8) + m_step(4) + m_step(2) + m_step(1))

u.extract(M, 'impl UnwrapOrAlloca for Option<MemoryLoc>::fn unwrap_or_alloca', key='unwrap_or_alloca',
          wrap=('pub trait UnwrapOrAllocaT { fn unwrap_or_alloca(self, builder: &mut FunctionBuilder, ty: Intern<Ty>) -> MemoryLoc; }\nimpl UnwrapOrAllocaT for Option<MemoryLoc> {', '}'),
          contract='''
    ensures
        self is Some ==> res == self->0 && *final(builder) == *old(builder),
        self is None ==> {
            // a fresh slot that is exactly as large as the type
            &&& res.addr is Stack && res.offset == 0
            &&& !old(builder).slots@.dom().contains(res.addr->Stack_0.id as int)
            &&& final(builder).slots@ == old(builder).slots@.insert(res.addr->Stack_0.id as int, tsize(*ty.0) as int)
            &&& no_new_writes(*old(builder), *final(builder))
        },
        entry_ok(*ty.0) || self is Some,
''')

# ---- variant -> enum conversion inside cast_into_memory (R5: statement range lifted) ----
u.extract(M, 'fn cast_into_memory', key='cast_variant_to_enum',
          rewrites=[DYN],
          lift=dict(start_after='assert_eq!(sub_ty, found_sub_ty);',
                    end_at='return Some(memory.into_value(builder, ptr_ty));',
                    sig='''fn cast_variant_to_enum(module: &mut Module, builder: &mut FunctionBuilder, ptr_ty: types::Type,
                            val: Option<Value>, cast_to: Intern<Ty>, memory: Option<MemoryLoc>,
                            sub_ty: &Intern<Ty>, discriminant: &u64, enum_layout: EnumLayout) -> (res: Option<Value>)''',
                    why='the tail of the `variant -> enum` arm of cast_into_memory (after the variant has been looked up) lifted into a function; assumed path condition: cast_to is the enum, sub_ty the payload type of one of its variants, enum_layout its layout'),
          contract='''
    requires
        // path condition of the arm (assumed)
        enum_variants(*cast_to.0) is Some, entry_ok(*cast_to.0), entry_ok(*sub_ty.0),
        enum_layout.view() == tenum(*cast_to.0), enum_layout_ok(*cast_to.0, tenum(*cast_to.0)),
        exists|i: int| 0 <= i < payloads_of(*cast_to.0).len() && #[trigger] payloads_of(*cast_to.0)[i] == *sub_ty.0,
        memory is Some ==> loc_wf(memory->0),
        (val is Some && !spec_is_aggregate(*sub_ty.0)) ==> 0 <= den_bytes(val->0.den@) <= tsize(*sub_ty.0),
    ensures
        // the result is the address of the enum value; everything written lies inside it
        res is Some, res->0.den@ is Addr,
        frame_at(*old(builder), *final(builder), ptr_base(res->0), ptr_off(res->0), tsize(*cast_to.0) as int),
        memory is Some ==> ptr_base(res->0) == loc_base(memory->0) && ptr_off(res->0) == loc_off(memory->0),
        // without a destination the value lives in a fresh stack slot of exactly the enum's size
        memory is None ==> ptr_off(res->0) == 0 && fresh_slot(*old(builder), *final(builder), ptr_base(res->0), tsize(*cast_to.0) as int),
''',
          inserts=[('@body_start', 'after', '''
        proof {
            let w = choose|i: int| 0 <= i < payloads_of(*cast_to.0).len() && #[trigger] payloads_of(*cast_to.0)[i] == *sub_ty.0;
            assert(tsize(payloads_of(*cast_to.0)[w]) <= tenum(*cast_to.0).discriminant_offset);
        }
''')])

MUTANTS = [
    # the three C02 defects repaired by "fix:" commits, re-introduced
    (M, 'let discrim = builder.ins().iconst(types::I8, *discriminant as i64);', 'let discrim = builder.ins().iconst(ptr_ty, *discriminant as i64);', 'violation'),
    (M, '                    let size = ty.size();\n                    let align = if size % ty.align() == 0 {', '                    let size = ty.stride();\n                    let align = if size % ty.align() == 0 {', 'violation'),
    (M, '''                            while (off + $width) <= ty.size() as i32 {
                                let bytes = builder.ins().load(''', '''                            while (off + $width) <= ty.stride() as i32 {
                                let bytes = builder.ins().load(''', 'violation'),
    (M, 'cranelift::codegen::ir::Type::int_with_byte_size($width).unwrap(),\n                                val as i64,', 'cranelift::codegen::ir::Type::int_with_byte_size(8).unwrap(),\n                                val as i64,', 'violation'),
    # others
    (M, 'memory.write_val(builder, discrim, enum_layout.discriminant_offset() as i32);', 'memory.write_val(builder, discrim, enum_layout.discriminant_offset() as i32 + 1);', 'violation'),
    (M, '                    .stack_store(x, slot, offset + self.offset as i32)', '                    .stack_store(x, slot, offset)', 'violation'),
    (M, 'offset: self.offset + offset,', 'offset: offset,', 'violation'),
    (M, '''                    size: ty.size(),
                    align_shift: ty.align_shift(),
                });

                MemoryLoc::from_stack(stack_slot, 0)''', '''                    size: ty.size() / 2,
                    align_shift: ty.align_shift(),
                });

                MemoryLoc::from_stack(stack_slot, 0)''', 'violation'),
    (M, '                                    .stack_store(bytes, slot, off + self.offset as i32);', '                                    .stack_store(bytes, slot, off);', 'violation'),
    # harmless: swap two independent statements
    (M, '        let discrim = builder.ins().iconst(types::I8, *discriminant as i64);\n        memory.write_val(builder, discrim, enum_layout.discriminant_offset() as i32);',
        '        let tag = builder.ins().iconst(types::I8, *discriminant as i64);\n        memory.write_val(builder, tag, enum_layout.discriminant_offset() as i32);', 'ok'),
]
