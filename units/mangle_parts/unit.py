"""Unit `mangle_parts` (C27): the descriptors handed to the name assembly keep every
distinguishing part (own part first, then all the parts of the caller)."""
from tools.unitapi import Unit, Rewrite

MG = 'crates/codegen/src/mangle.rs'

UNIT = u = Unit('mangle_parts', ['C27'], 'part lists of create_mangled_for_naive_global / create_mangled_for_naive_lambda')
u.raw('use vstd::string::*;')
u.extract(MG, 'enum MangledPartKind', keep_derives={'Clone', 'Copy'},
          rewrites=[Rewrite('R4', r'^enum MangledPartKind', 'pub enum MangledPartKind', flags=8, why='private datatype widened to pub for spec accessors')])
u.raw('''
// shims (ASSUMED): locations, the interner, paths, and the text of a part.  `Cow<str>` is
// replaced by a ghost-viewed text with the two conversions the code uses.
pub struct Text { pub s: Ghost<Seq<char>> }
impl Text {
    #[verifier::external_body]
    pub fn from_str(x: &str) -> (r: Text) ensures r.s@ == x@ { unimplemented!() }
    #[verifier::external_body]
    pub fn from_string(x: String) -> (r: Text) ensures r.s@ == x@ { unimplemented!() }
}
pub struct MangledPart { pub kind: MangledPartKind, pub text: Text }
pub ghost struct PartV { pub kind: MangledPartKind, pub text: Seq<char> }
pub open spec fn pv(p: MangledPart) -> PartV { PartV { kind: p.kind, text: p.text.s@ } }
pub open spec fn pvs(s: Seq<MangledPart>) -> Seq<PartV> { Seq::new(s.len(), |i: int| pv(s[i])) }
pub mod std { pub mod path { pub struct Path { pub _p: u8 } } }
#[derive(Clone, Copy)] pub struct Key(pub u32);
#[derive(Clone, Copy)] pub struct Name(pub Key);
#[derive(Clone, Copy)] pub struct FileName(pub Key);
#[derive(Clone, Copy)] pub struct LambdaIdx(pub u32);
impl LambdaIdx { pub fn into_raw(self) -> (r: u32) ensures r == self.0 { self.0 } }
#[derive(Clone, Copy)] pub struct NaiveGlobalLoc { pub f: FileName, pub n: Name }
impl NaiveGlobalLoc {
    pub fn file(&self) -> (r: FileName) ensures r == self.f { self.f }
    pub fn name(&self) -> (r: Name) ensures r == self.n { self.n }
}
#[derive(Clone, Copy)] pub struct NaiveLambdaLoc { pub f: FileName, pub l: LambdaIdx }
impl NaiveLambdaLoc {
    pub fn file(&self) -> (r: FileName) ensures r == self.f { self.f }
    pub fn lambda(&self) -> (r: LambdaIdx) ensures r == self.l { self.l }
}
pub uninterp spec fn lambda_global(loc: NaiveLambdaLoc) -> Option<NaiveGlobalLoc>;
#[verifier::external_body]
pub fn get_naive_lambda_global(loc: NaiveLambdaLoc) -> (r: Option<NaiveGlobalLoc>) ensures r == lambda_global(loc) { unimplemented!() }
pub struct Interner { pub _p: u8 }
pub uninterp spec fn name_text(k: Key) -> Seq<char>;
impl Interner {
    #[verifier::external_body]
    pub fn lookup(&self, k: Key) -> (r: &str) ensures r@ == name_text(k) { unimplemented!() }
}
pub uninterp spec fn dec_u32(n: u32) -> Seq<char>;
#[verifier::external_body]
pub fn u32_to_string(n: u32) -> (r: String) ensures r@ == dec_u32(n) { unimplemented!() }
// `iter::once(x).chain(rest).collect_vec()` (ASSUMED): x, then everything of `rest`, in order
#[verifier::external_body]
pub fn once_chain(x: MangledPart, rest: Vec<MangledPart>) -> (r: Vec<MangledPart>)
    ensures pvs(r@) == seq![pv(x)] + pvs(rest@)
{ unimplemented!() }
/// the symbol the assembly produces for a file and a descriptor (not under contract here: unit
/// mangle covers the per-part encoding)
pub uninterp spec fn mangled_of(file: FileName, parts: Seq<PartV>) -> Seq<char>;
#[verifier::external_body]
pub fn create_mangled_for_file(file: FileName, mod_dir: &std::path::Path, interner: &Interner, parts: &[MangledPart]) -> (r: String)
    ensures r@ == mangled_of(file, pvs(parts@))
{ unimplemented!() }
''')
u.trusted += [
    'create_mangled_for_file maps (file, descriptor) to a symbol (uninterpreted here); that equal symbols imply equal descriptors is the per-part claim of unit mangle plus the unverified assembly',
    'Cow<str>, Interner, Path, the location types and `once(..).chain(..).collect_vec()` are shims; `impl Iterator` parameters are taken as the Vec of the parts they yield',
    'the other builders (concrete global / lambda, comptime, builtin) call these two and are not under contract',
]
SIGIT = Rewrite('R4', r"final_parts: impl Iterator<Item = MangledPart<'a>>,", 'final_parts: Vec<MangledPart>,', count=1, why='`impl Iterator` parameter -> the Vec of the parts it yields')
LT = Rewrite('R4', r"<'a>\(", '(', count=1, why='lifetime parameter dropped (shim types own their data)')
LT2 = Rewrite('R4', r"&'a Interner", '&Interner', count=1, why='lifetime dropped')
CHAIN = Rewrite('R7', r'&std::iter::once\(([\s\S]*?)\)\s*\.chain\(final_parts\)\s*\.collect_vec\(\)', r'&once_chain(\1, final_parts)', count=None,
                why='`iter::once(x).chain(final_parts).collect_vec()` -> shim with that meaning')
INTO1 = Rewrite('R4', r'interner\.lookup\(loc\.name\(\)\.0\)\.into\(\)', 'Text::from_str(interner.lookup(loc.name().0))', count=None, why='`&str -> Cow<str>` conversion named')
INTO2 = Rewrite('R4', r'loc\.lambda\(\)\.into_raw\(\)\.to_string\(\)\.into\(\)', 'Text::from_string(u32_to_string(loc.lambda().into_raw()))', count=None, why='`u32::to_string` and `String -> Cow<str>` conversion named')
u.extract(MG, 'fn create_mangled_for_naive_global', rewrites=[SIGIT, LT, LT2, CHAIN, INTO1], contract='''
    ensures
        // the name part of the global, then EVERY part the caller passes on (generic ids, comptime
        // indices, ...), in order: nothing that tells two definitions apart is dropped
        res@ == mangled_of(loc.f, seq![PartV { kind: MangledPartKind::Name, text: name_text(loc.n.0) }] + pvs(final_parts@)),
''')
u.extract(MG, 'fn create_mangled_for_naive_lambda', rewrites=[SIGIT, LT, LT2, CHAIN, INTO2], contract='''
    ensures
        lambda_global(loc) is Some ==> res@ == mangled_of(lambda_global(loc)->0.f,
            seq![PartV { kind: MangledPartKind::Name, text: name_text(lambda_global(loc)->0.n.0) }] + pvs(final_parts@)),
        // an anonymous lambda: its index in the file, then every part the caller passes on
        lambda_global(loc) is None ==> res@ == mangled_of(loc.f,
            seq![PartV { kind: MangledPartKind::Lambda, text: dec_u32(loc.l.0) }] + pvs(final_parts@)),
''')

MUTANTS = [
    (MG, '''            &std::iter::once(MangledPart {
                kind: MangledPartKind::Lambda,
                text: loc.lambda().into_raw().to_string().into(),
            })
            .chain(final_parts)
            .collect_vec(),''', '''            &[MangledPart {
                kind: MangledPartKind::Lambda,
                text: loc.lambda().into_raw().to_string().into(),
            }],''', 'violation'),
    (MG, '''            kind: MangledPartKind::Lambda,
                text: loc.lambda().into_raw().to_string().into(),''', '''            kind: MangledPartKind::Name,
                text: loc.lambda().into_raw().to_string().into(),''', 'violation'),
]
