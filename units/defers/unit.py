"""Unit `defers` (C03): registration of defers, their order at block exit, unwinding on break /
continue, and the frame invariant of loops."""
from tools.unitapi import Unit, Rewrite

F = 'crates/codegen/src/compiler/functions.rs'

UNIT = u = Unit('defers', ['C03'], 'defer frames: break_to_label, block exit, Stmt::Defer, while loops, continue')
u.shim('clif.rs')
u.shim('clif_cf.rs')
u.raw('''
// shims for the parts of FunctionCompiler these functions touch (ASSUMED)
#[derive(Clone, Copy, PartialEq, Eq, Structural)]
pub struct ScopeId(pub u32);
pub mod hir { pub use super::ScopeId; }
#[derive(Clone, Copy, PartialEq, Eq, Structural)]
pub struct ExprIdx(pub u32);
pub struct BlockMap { pub m: Ghost<Map<ScopeId, Block>> }
impl BlockMap {
    #[verifier::external_body]
    pub fn at(&self, k: &ScopeId) -> (r: Block) requires self.m@.dom().contains(*k) ensures r == self.m@[*k] { unimplemented!() }
    #[verifier::external_body]
    pub fn insert(&mut self, k: ScopeId, b: Block) ensures final(self).m@ == old(self).m@.insert(k, b) { unimplemented!() }
}
pub struct FunctionCompiler {
    pub builder: FunctionBuilder,
    pub ptr_ty: types::Type,
    pub exits: BlockMap,
    pub continues: BlockMap,
    pub defer_stack: Vec<DeferFrame>,
    // ghost: the expressions whose code has been emitted so far, in emission order
    pub emitted: Ghost<Seq<ExprIdx>>,
    // ghost: the labelled blocks and loops whose bodies are being compiled right now (the only
    // labels a `break` / `continue` met now can name: scoping is resolved in hir)
    pub live: Ghost<Set<ScopeId>>,
}
impl FunctionCompiler {
    // the recursive compilation of one expression: ASSUMED to emit that expression's code here
    // and to leave the defer stack and the live labels as they were (its own pushes and pops are
    // balanced: that is what the block exit contract below shows for Expr::Block).  It may only be
    // called when the frame invariant holds.
    #[verifier::external_body]
    pub fn compile_expr(&mut self, e: ExprIdx) -> (r: Option<Value>)
        requires frames_ok(*old(self))
        ensures final(self).emitted@ == old(self).emitted@.push(e), final(self).defer_stack@ == old(self).defer_stack@,
            final(self).live == old(self).live, final(self).exits == old(self).exits, final(self).continues == old(self).continues,
    { unimplemented!() }
}
// `v.last().cloned()` and `v.extend(w.into_iter().rev())` (ASSUMED std behaviour)
#[verifier::external_body]
pub fn last_cloned(v: &Vec<DeferFrame>) -> (r: Option<DeferFrame>)
    ensures v@.len() == 0 ==> r is None, v@.len() > 0 ==> r == Some(v@[v@.len() - 1])
{ unimplemented!() }
#[verifier::external_body]
pub fn extend_rev(v: &mut Vec<DeferFrame>, w: Vec<DeferFrame>)
    ensures final(v)@ == old(v)@ + w@.reverse()
{ unimplemented!() }
''')
u.extract(F, 'struct DeferFrame', keep_derives=set(), pub_fields=True,
          rewrites=[Rewrite('R4', r'Vec<Idx<hir::Expr>>', 'Vec<ExprIdx>', count=1, why='arena index type -> shim index type'),
                    Rewrite('R4', r'Option<ScopeId>', 'Option<ScopeId>', count=1, why='(no change)')])
u.spec('spec.rs')
u.trusted += [
    'compile_expr (the recursion) emits the code of the expression it is given and keeps its own frame pushes and pops balanced (stub); ghost fields `emitted` and `live` are specification state',
    '`break` / `continue` name only labels of enclosing constructs (resolved in hir::lower: resolve_last_label); stated as the path condition `live.contains(label)` of the lifted arms',
    'Cranelift jump / block shims (shims/verus/clif_cf.rs); Vec::last/cloned/extend/rev as specified in the unit',
]

EXITS = Rewrite('R4', r'self\.exits\[&label\]', 'self.exits.at(&label)', count=1, why='Index on FxHashMap -> shim read `at`')
LASTC = Rewrite('R7', r'self\.defer_stack\.last\(\)\.cloned\(\)', 'last_cloned(&self.defer_stack)', count=1, why='`v.last().cloned()` -> shim with that meaning')
EXTREV = Rewrite('R7', r'self\.defer_stack\.extend\(used_frames\.into_iter\(\)\.rev\(\)\);', 'extend_rev(&mut self.defer_stack, used_frames);', count=None,
                 why='`v.extend(w.into_iter().rev())` -> shim with that meaning')
BARG = Rewrite('R4', r'BlockArg::Value\(value\)', 'BlockArg::Value(value)', count=None, why='(no change)')
IMPLF = ('impl FunctionCompiler {', '}')
C_UNWIND = """
    requires
        frames_ok(*old(self)), old(self).live@.contains(label),
    ensures
        // the defers of every frame from the top down to the frame of `label` run, innermost frame
        // first, each frame last-reached first -- for `label` itself that is what it has reached
        // SO FAR (its exit block runs none) -- and nothing else: the frames below are not touched
        exists|k: int| #[trigger] frame_of(old(self).defer_stack@, label, k)
            && final(self).emitted@ == old(self).emitted@ + unwind(old(self).defer_stack@, k, old(self).defer_stack@.len() as int),
        // the stack of frames is as it was (code after the jump is compiled with the same frames)
        final(self).defer_stack@ == old(self).defer_stack@,
        final(self).live == old(self).live, final(self).exits == old(self).exits, final(self).continues == old(self).continues,
"""
u.extract(F, "impl FunctionCompiler<'_>::fn run_defers_to_label", wrap=IMPLF, rewrites=[LASTC, EXTREV],
          desugar_for={1: ('di', 'rev_ref')}, contract=C_UNWIND,
          inserts=[('@body_start', 'after', """
        let ghost s0 = self.defer_stack@; let ghost e0 = self.emitted@; let ghost live0 = self.live@;
        proof { assert(has_frame(s0, label)); }
        let ghost k: int = choose|k: int| #[trigger] frame_of(s0, label, k);
        // a deferred expression is compiled in the context of its own block: the labels of the
        // constructs being left are not its to jump to (ASSUMED: a deferred expression does not
        // jump out of itself), so no label is live while the defers are emitted
        proof { self.live = Ghost(Set::<ScopeId>::empty()); }
"""),
                   ('@loop_start:0', 'after', ' let ghost m = self.defer_stack@.len() as int; proof { assert(frame == s0[m - 1]); } '),
                   ('@loop_start:1', 'after', ' proof { lemma_run_step(frame, di as int); } '),
                   ('@loop_end:1', 'after', ' proof { lemma_run_ends(frame); lemma_unwind_lo(s0, m - 1, s0.len() as int); assert(self.emitted@ =~= e0 + unwind(s0, m - 1, s0.len() as int)); } '),
                   ('@loop_end:0', 'after', """
        proof {
            self.live = Ghost(live0);
            assert(self.defer_stack@.len() == k);
        }
"""),
                   ('@body_end', 'after', ' proof { assert(self.defer_stack@ =~= s0); } ')],
          loops={0: """
            invariant_except_break
                k + 1 <= self.defer_stack@.len(),
            invariant
                frame_of(s0, label, k), self.live@ == Set::<ScopeId>::empty(),
                k <= self.defer_stack@.len() <= s0.len(),
                self.defer_stack@ == s0.subrange(0, self.defer_stack@.len() as int),
                used_frames@ == s0.subrange(self.defer_stack@.len() as int, s0.len() as int).reverse(),
                self.emitted@ == e0 + unwind(s0, self.defer_stack@.len() as int, s0.len() as int),
                self.exits == old(self).exits, self.continues == old(self).continues,
            ensures self.defer_stack@.len() == k,
                used_frames@ == s0.subrange(k, s0.len() as int).reverse(), self.defer_stack@ == s0.subrange(0, k),
                self.emitted@ == e0 + unwind(s0, k, s0.len() as int), self.live@ == Set::<ScopeId>::empty(),
                self.exits == old(self).exits, self.continues == old(self).continues,
            decreases self.defer_stack@.len()
""", 1: """
                invariant
                    0 <= di <= it_di@.len(), *it_di == frame.defers, self.live@ == Set::<ScopeId>::empty(),
                    self.defer_stack@ == s0.subrange(0, m), m == self.defer_stack@.len(),
                    used_frames@ == s0.subrange(m, s0.len() as int).reverse(),
                    self.emitted@ == e0 + unwind(s0, m, s0.len() as int) + run_from(frame, di as int),
                    self.exits == old(self).exits, self.continues == old(self).continues,
                decreases di
"""})
u.extract(F, "impl FunctionCompiler<'_>::fn break_to_label", wrap=IMPLF, rewrites=[EXITS],
          contract="""
    requires
        frames_ok(*old(self)), old(self).live@.contains(label), old(self).exits.m@.dom().contains(label),
    ensures
        // `break` leaves every block nested in `label`: their defers run, innermost first
        exists|k: int| #[trigger] frame_of(old(self).defer_stack@, label, k)
            && final(self).emitted@ == old(self).emitted@ + unwind(old(self).defer_stack@, k, old(self).defer_stack@.len() as int),
        final(self).defer_stack@ == old(self).defer_stack@, final(self).live == old(self).live,
""")

# ---- the arms that push, pop and use frames (R5: lifted) ---------------------------------------
u.raw('''
impl FunctionCompiler {
    // `self.world_bodies[self.loc.file()].block_to_scope_id(expr)`: the label of a block / loop
    #[verifier::external_body]
    pub fn scope_of(&self, e: ExprIdx) -> (r: Option<ScopeId>) { unimplemented!() }
}
''')
SCOPE = Rewrite('R4', r'self\.world_bodies\[self\.loc\.file\(\)\]\.block_to_scope_id\(expr\)', 'self.scope_of(expr)', count=1, why='lookup in the hir bodies -> shim (uninterpreted)')
NAMES = Rewrite('R6', r'self\.func_writer\[\w+\] = "[^"]*"\.into\(\);', '', count=None, why='debug names of blocks are not part of any contract')
BRIF = Rewrite('R4', r'self\s*\.builder\s*\.ins\(\)\s*\.brif\(', 'self.builder.brif(', count=None, why='brif updates the edge facts of the builder (shim: builder method)')
ANDTHEN = Rewrite('R7', r'condition\.and_then\(\|condition\| self\.compile_expr\(condition\)\)', 'match condition { Some(condition) => self.compile_expr(condition), None => None }', count=1,
                  why='`Option::and_then(closure)` written as the match it abbreviates (the closure borrows self mutably)')
CONT_IDX = Rewrite('R4', r'self\.continues\[&label\]', 'self.continues.at(&label)', count=1, why='Index on FxHashMap -> shim read `at`')

u.extract(F, "impl FunctionCompiler<'_>::fn compile_expr_with_args", key='while_loop', wrap=IMPLF,
          rewrites=[SCOPE, BRIF, ANDTHEN],
          lift=dict(start_at='let scope_id = self.world_bodies[self.loc.file()].block_to_scope_id(expr);\n                if let Some(scope_id) = scope_id {\n                    self.continues.insert',
                    end_at='self.builder.seal_block(header_block);',
                    sig='''fn while_loop(&mut self, expr: ExprIdx, condition: Option<ExprIdx>, body: ExprIdx,
                          header_block: Block, body_block: Block, exit_block: Block)''',
                    why='the Expr::While arm of compile_expr_with_args from the registration of the loop label to the sealing of the header, lifted into a method'),
          inserts=[("// don't seal the header yet", 'after', '''
                // ghost: inside the loop -- its condition (hir::lower_while registers the label
                // before it lowers the condition) and its body -- `break` / `continue` may name it
                let ghost live0 = self.live@; let ghost s1 = self.defer_stack@;
                proof {
                    if scope_id is Some { self.live = Ghost(self.live@.insert(scope_id->0)); }
                    if s1.len() == old(self).defer_stack@.len() + 1 && s1.last().id == scope_id {
                        assert(s1.drop_last() =~= old(self).defer_stack@);
                        lemma_frames_ok_push(old(self).defer_stack@, s1, live0, scope_id);
                    }
                }
'''),
                   ('@after_stmt:self.compile_expr(body)', 'after', ' proof { self.live = Ghost(live0); } '),
                   ('@body_end', 'after', ' proof { assert(self.defer_stack@ =~= old(self).defer_stack@); } ')],
          contract='''
    requires
        frames_ok(*old(self)), header_block.id != body_block.id, body_block.id != exit_block.id,
    ensures
        // the frames are as they were: the loop leaves nothing behind
        final(self).defer_stack@ == old(self).defer_stack@,
''')

u.extract(F, "impl FunctionCompiler<'_>::fn compile_stmt", key='stmt_continue', wrap=IMPLF,
          rewrites=[CONT_IDX],
          lift=dict(anchor='hir::Stmt::Continue {\n                label: Some(label), ..\n            } =>',
                    sig='fn stmt_continue(&mut self, label: ScopeId)',
                    why='the Stmt::Continue arm of compile_stmt lifted into a method; assumed path condition: label names an enclosing loop'),
          contract='''
    requires
        frames_ok(*old(self)), old(self).live@.contains(label), old(self).continues.m@.dom().contains(label),
    ensures
        // `continue` leaves every block nested in the loop: their defers run, innermost first
        exists|k: int| #[trigger] frame_of(old(self).defer_stack@, label, k)
            && final(self).emitted@ == old(self).emitted@ + unwind(old(self).defer_stack@, k, old(self).defer_stack@.len() as int),
        final(self).defer_stack@ == old(self).defer_stack@,
''')

# ---- registration (Stmt::Defer), block entry and block exit -------------------------------------
u.raw('''
// `v.last_mut().expect(msg)`: the last element, mutably (ASSUMED std behaviour; prophecy spec)
#[verifier::external_body]
pub fn vec_last_mut(v: &mut Vec<DeferFrame>) -> (r: &mut DeferFrame)
    requires old(v)@.len() > 0
    ensures *r == old(v)@[old(v)@.len() - 1], final(v)@ == old(v)@.update(old(v)@.len() - 1, *final(r))
{ unimplemented!() }
''')
LASTMUT = Rewrite('R7', r'self\s*\.defer_stack\s*\.last_mut\(\)\s*\.expect\("block didn\'t add to defer stack"\)', 'vec_last_mut(&mut self.defer_stack)', count=1,
                  why='`v.last_mut().expect(msg)` -> shim with that meaning (must be PROVED non-empty)')
u.extract(F, "impl FunctionCompiler<'_>::fn compile_stmt", key='stmt_defer', wrap=IMPLF, rewrites=[LASTMUT],
          lift=dict(anchor='hir::Stmt::Defer { expr, .. } =>', sig='fn stmt_defer(&mut self, expr: ExprIdx)',
                    why='the Stmt::Defer arm of compile_stmt lifted into a method; assumed path condition: a block is being compiled (the stack is not empty)'),
          contract='''
    requires old(self).defer_stack@.len() > 0
    ensures
        // a defer that is reached is recorded, last, in the frame of the block being compiled;
        // it does not run now
        final(self).emitted == old(self).emitted,
        final(self).defer_stack@.len() == old(self).defer_stack@.len(),
        final(self).defer_stack@.drop_last() == old(self).defer_stack@.drop_last(),
        final(self).defer_stack@.last().id == old(self).defer_stack@.last().id,
        final(self).defer_stack@.last().defers@ == old(self).defer_stack@.last().defers@.push(expr),
''')

POPEXP = Rewrite('R6', r'\.expect\("we just pushed this"\)', '.unwrap()', count=1, why='`.expect(msg)` -> `.unwrap()`: message dropped, the Option must be PROVED to be Some')
DBG = Rewrite('R6', r'debug_assert_eq!\(defer_frame\.id, scope_id\);', '', count=1, why='debug assertion dropped')
u.extract(F, "impl FunctionCompiler<'_>::fn compile_expr_with_args", key='block_exit', wrap=IMPLF, rewrites=[POPEXP, DBG],
          desugar_for={0: ('di', 'rev_ref')},
          lift=dict(start_at='let defer_frame = self.defer_stack.pop()', end_before='\n\n                if !no_eval {\n                    if let Some(value) = value {',
                    sig='fn block_exit(&mut self, no_eval: bool, scope_id: Option<ScopeId>)',
                    why='the fall-through end of the Expr::Block arm of compile_expr_with_args (pop the frame and run its defers, before the jump to the exit block) lifted into a method'),
          inserts=[('@loop_start:0', 'after', ' proof { lemma_run_step(defer_frame, di as int); } '),
                   ('@loop_end:0', 'after', ' proof { lemma_run_ends(defer_frame); } '),
                   ('@after_stmt:let defer_frame =', 'after', ' proof { lemma_run_ends(defer_frame); } ')],
          contract='''
    requires
        old(self).defer_stack@.len() > 0,
        // the labels still live are those of the constructs around this block
        forall|l: ScopeId| old(self).live@.contains(l) ==> #[trigger] has_frame(old(self).defer_stack@.drop_last(), l),
    ensures
        // the block is left through its end: its frame is gone and -- unless the end is
        // unreachable -- its defers run here, last reached first (a `break` out of the block has
        // run the defers it had reached itself: run_defers_to_label)
        final(self).defer_stack@ == old(self).defer_stack@.drop_last(),
        !no_eval ==> final(self).emitted@ == old(self).emitted@ + frame_run(old(self).defer_stack@.last()),
        no_eval ==> final(self).emitted@ == old(self).emitted@,
''',
          loops={0: '''
                    invariant
                        0 <= di <= it_di@.len(), *it_di == defer_frame.defers,
                        self.defer_stack@ == old(self).defer_stack@.drop_last(), self.live == old(self).live,
                        defer_frame == old(self).defer_stack@.last(),
                        forall|l: ScopeId| self.live@.contains(l) ==> #[trigger] has_frame(self.defer_stack@, l),
                        self.emitted@ == old(self).emitted@ + run_from(defer_frame, di as int),
                    decreases di
'''})

u.extract(F, "impl FunctionCompiler<'_>::fn compile_expr_with_args", key='block_entry', wrap=IMPLF, rewrites=[SCOPE],
          lift=dict(start_at='let scope_id = self.world_bodies[self.loc.file()].block_to_scope_id(expr);\n                if let Some(scope_id) = scope_id {\n                    self.exits.insert',
                    end_at='defers: Vec::new(),\n                });',
                    sig='fn block_entry(&mut self, expr: ExprIdx, exit_block: Block) -> (scope_id: Option<ScopeId>)', tail='scope_id',
                    why='the start of the Expr::Block arm of compile_expr_with_args (register the exit of the label, push the frame) lifted into a method'),
          inserts=[('@body_end', 'after', '''
        proof {
            let s1 = self.defer_stack@;
            assert(s1.drop_last() =~= old(self).defer_stack@);
            lemma_frames_ok_push(old(self).defer_stack@, s1, old(self).live@, scope_id);
            if scope_id is Some { self.live = Ghost(self.live@.insert(scope_id->0)); }
        }
''')],
          contract='''
    requires frames_ok(*old(self))
    ensures
        // a fresh, empty frame for this block on top of the others; inside the block its label
        // (if it has one) can be jumped to, and every live label still has its frame
        final(self).defer_stack@ == old(self).defer_stack@.push(DeferFrame { id: scope_id, defers: final(self).defer_stack@.last().defers }),
        final(self).defer_stack@.last().defers@.len() == 0,
        scope_id is Some ==> final(self).exits.m@.dom().contains(scope_id->0) && final(self).live@ == old(self).live@.insert(scope_id->0),
        scope_id is None ==> final(self).live == old(self).live,
        frames_ok(*final(self)),
        final(self).emitted == old(self).emitted,
''')

MUTANTS = [
    # the two repaired defects, re-introduced
    (F, "                self.defer_stack.push(DeferFrame {\n                    id: scope_id,\n                    defers: Vec::new(),\n                });\n\n                self.builder.ins().jump(header_block, &[]);\n                self.builder.switch_to_block(header_block);\n                // don't seal the header yet\n\n                if let Some(condition) =\n                    condition.and_then(|condition| self.compile_expr(condition))\n                {\n                    self.builder\n                        .ins()\n                        .brif(condition, body_block, &[], exit_block, &[]);\n                } else {\n                    self.builder.ins().jump(body_block, &[]);\n                }\n\n                self.builder.switch_to_block(body_block);\n                self.builder.seal_block(body_block);\n\n                self.compile_expr(body);\n\n                self.defer_stack.pop();\n\n", "                self.builder.ins().jump(header_block, &[]);\n                self.builder.switch_to_block(header_block);\n                // don't seal the header yet\n\n                if let Some(condition) =\n                    condition.and_then(|condition| self.compile_expr(condition))\n                {\n                    self.builder\n                        .ins()\n                        .brif(condition, body_block, &[], exit_block, &[]);\n                } else {\n                    self.builder.ins().jump(body_block, &[]);\n                }\n\n                self.builder.switch_to_block(body_block);\n                self.builder.seal_block(body_block);\n\n                self.compile_expr(body);\n\n", 'violation'),
    (F, '''                // the blocks inside the loop are being left, so their defers have to run
                self.run_defers_to_label(label);
''', '', 'violation'),
    # the fourth repaired defect, re-introduced: the loop's frame is pushed after its condition was compiled
    (F, "                self.defer_stack.push(DeferFrame {\n                    id: scope_id,\n                    defers: Vec::new(),\n                });\n\n                self.builder.ins().jump(header_block, &[]);\n                self.builder.switch_to_block(header_block);\n                // don't seal the header yet\n\n                if let Some(condition) =\n                    condition.and_then(|condition| self.compile_expr(condition))\n                {\n                    self.builder\n                        .ins()\n                        .brif(condition, body_block, &[], exit_block, &[]);\n                } else {\n                    self.builder.ins().jump(body_block, &[]);\n                }\n\n                self.builder.switch_to_block(body_block);\n                self.builder.seal_block(body_block);\n\n                self.compile_expr(body);\n", "                self.builder.ins().jump(header_block, &[]);\n                self.builder.switch_to_block(header_block);\n                // don't seal the header yet\n\n                if let Some(condition) =\n                    condition.and_then(|condition| self.compile_expr(condition))\n                {\n                    self.builder\n                        .ins()\n                        .brif(condition, body_block, &[], exit_block, &[]);\n                } else {\n                    self.builder.ins().jump(body_block, &[]);\n                }\n\n                self.builder.switch_to_block(body_block);\n                self.builder.seal_block(body_block);\n\n                self.defer_stack.push(DeferFrame {\n                    id: scope_id,\n                    defers: Vec::new(),\n                });\n\n                self.compile_expr(body);\n", 'violation'),
    # others
    (F, '            for defer in frame.defers.iter().rev() {\n                self.compile_expr(*defer);\n            }\n\n            used_frames.push', '            for defer in frame.defers.iter() {\n                self.compile_expr(*defer);\n            }\n\n            used_frames.push', 'violation'),
    (F, '''            if frame.id == Some(label) {
                break;
            }''', '''            if frame.id != Some(label) {
                break;
            }''', 'violation'),
    # the third repaired defect, re-introduced: the target block's own reached defers are not run by the break
    (F, '''            // do it in reverse to make sure later defers can still rely on the allocations of
            // previous defers
            for defer in frame.defers.iter().rev() {''', '''            if frame.id == Some(label) { break; }
            // previous defers
            for defer in frame.defers.iter().rev() {''', 'violation'),
    (F, '                if !no_eval {\n                    // do it in reverse to make sure later defers can still rely on the allocations of\n                    // previous defers\n                    for defer in defer_frame.defers.iter().rev() {', '                if no_eval {\n                    // do it in reverse to make sure later defers can still rely on the allocations of\n                    // previous defers\n                    for defer in defer_frame.defers.iter().rev() {', 'violation'),
    (F, '                break;\n            }\n        }\n\n        self.defer_stack.extend(used_frames.into_iter().rev());', '                break;\n            }\n        }\n', 'violation'),
    (F, '''                    self.break_to_label(None, label);
                } else if union_ty.is_optional() {''', '''                    let exit_block = self.exits[&label];
                    self.builder.ins().jump(exit_block, &[]);
                } else if union_ty.is_optional() {''', 'violation'),
    (F, '// run all the defers from here, backwards to the one we are breaking out of', '// run the defers from here back to the one we are breaking out of', 'ok'),
]

# ---- `.try` propagation: the failing branch (R5: statement range lifted) ---------------------------
u.shim('intern.rs')
u.raw('''
// shims for the failing branch of `.try` (ASSUMED shapes: only what the lifted text names)
pub enum Ty { ErrorUnion { error_ty: Intern<Ty>, payload_ty: Intern<Ty> }, Other }
pub uninterp spec fn ty_is_optional(t: Ty) -> bool;
pub uninterp spec fn ty_abs(t: Ty) -> Ty;
impl Ty {
    #[verifier::external_body] pub fn is_zero_sized(&self) -> (r: bool) { unimplemented!() }
    #[verifier::external_body] pub fn is_optional(&self) -> (r: bool) ensures r == ty_is_optional(*self) { unimplemented!() }
    #[verifier::external_body] pub fn absolute_ty(&self) -> (r: &Ty) ensures *r == ty_abs(*self) { unimplemented!() }
}
// callees that build the value handed to the target block: they emit value code at the insertion
// point but compile no deferred expression and do not touch the frames (ASSUMED)
#[verifier::external_body]
pub fn create_nil_value(builder: &mut FunctionBuilder, ptr_ty: types::Type, option_ty: Intern<Ty>, memory: Option<u8>) -> (r: Value) { unimplemented!() }
#[verifier::external_body]
pub fn unwrap_sum_ty(builder: &mut FunctionBuilder, union_ptr: Value, union_ty: Intern<Ty>, payload_ty: Intern<Ty>) -> (r: Option<Value>) { unimplemented!() }
impl FunctionCompiler {
    #[verifier::external_body]
    pub fn cast(&mut self, val: Option<Value>, cast_from: Intern<Ty>, cast_to: Intern<Ty>) -> (r: Option<Value>)
        ensures final(self).emitted == old(self).emitted, final(self).defer_stack == old(self).defer_stack, final(self).live == old(self).live,
            final(self).exits == old(self).exits, final(self).continues == old(self).continues, final(self).ptr_ty == old(self).ptr_ty
    { unimplemented!() }
}
''')
NOASSERT = Rewrite('R6', r'assert(?:_eq)?!\((?:[^;]|;(?!\n))*?\);\n', '\n', count=None, why='`assert!(..)` dropped: a failed assertion aborts compilation, it emits nothing')
SUPER = Rewrite('R4', r'super::(create_nil_value|unwrap_sum_ty)\(', r'\1(', count=None, why='module path dropped (single file)')
EXITS_ANY = Rewrite('R4', r'self\.exits\[&label\]', 'self.exits.at(&label)', count=None, why='Index on FxHashMap -> shim read `at`')
u.extract(F, "impl FunctionCompiler<'_>::fn compile_expr_with_args", key='try_fail', wrap=IMPLF, rewrites=[NOASSERT, SUPER, EXITS_ANY],
          lift=dict(start_at='if referenced_block_ty.is_zero_sized() {', end_before='\n\n                self.builder.switch_to_block(ok_block);',
                    sig='''fn try_fail(&mut self, label: ScopeId, union: Value, union_ty: Intern<Ty>, referenced_block_ty: Intern<Ty>)''',
                    why='the failing branch of the Expr::Propagate (`.try`) arm of compile_expr_with_args lifted into a method; assumed path condition: label names the enclosing block the failure propagates to'),
          contract='''
    requires
        frames_ok(*old(self)), old(self).live@.contains(label), old(self).exits.m@.dom().contains(label),
        // the operand is an optional or an error union (asserted by the arm)
        ty_is_optional(*union_ty.0) || ty_abs(*union_ty.0) is ErrorUnion,
    ensures
        // a failing `.try` leaves every block nested in the target block: their defers run,
        // innermost first, whatever value is handed over
        exists|k: int| #[trigger] frame_of(old(self).defer_stack@, label, k)
            && final(self).emitted@ == old(self).emitted@ + unwind(old(self).defer_stack@, k, old(self).defer_stack@.len() as int),
        final(self).defer_stack@ == old(self).defer_stack@,
''')
