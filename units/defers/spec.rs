// Specification for C03: "Every `defer` statement that was reached runs its expression exactly
// once, when control leaves the block that contains it ... Defers of one block run in the
// reverse of the order they were reached, inner blocks' defers run before outer blocks' defers,
// and defers of blocks that are not being left do not run."  Ghost code only.

/// the deferred expressions of one frame in the order they must run: last reached first
pub open spec fn frame_run(f: DeferFrame) -> Seq<ExprIdx> { f.defers@.reverse() }

/// leaving the frames stack[lo..hi): innermost (highest index) first, each in reverse order
pub open spec fn unwind(stack: Seq<DeferFrame>, lo: int, hi: int) -> Seq<ExprIdx> decreases hi - lo {
    if hi <= lo { Seq::empty() } else { frame_run(stack[hi - 1]) + unwind(stack, lo, hi - 1) }
}
/// index of the innermost frame that belongs to `label`
pub open spec fn frame_of(stack: Seq<DeferFrame>, label: ScopeId, k: int) -> bool {
    0 <= k < stack.len() && stack[k].id == Some(label)
    && forall|j: int| k < j < stack.len() ==> stack[j].id != Some(label)
}
pub open spec fn has_frame(stack: Seq<DeferFrame>, label: ScopeId) -> bool {
    exists|k: int| #[trigger] frame_of(stack, label, k)
}
/// ghost invariant of the function compiler: every construct code may currently `break` /
/// `continue` to (the enclosing labelled blocks and loops, `live`) has its frame on the stack
pub open spec fn frames_ok(fc: FunctionCompiler) -> bool {
    forall|l: ScopeId| fc.live@.contains(l) ==> #[trigger] has_frame(fc.defer_stack@, l)
}
pub proof fn lemma_unwind_step(stack: Seq<DeferFrame>, lo: int, hi: int)
    requires lo < hi
    ensures unwind(stack, lo, hi) == frame_run(stack[hi - 1]) + unwind(stack, lo, hi - 1)
{
}
pub proof fn lemma_unwind_lo(s: Seq<DeferFrame>, lo: int, hi: int)
    requires 0 <= lo < hi <= s.len()
    ensures unwind(s, lo, hi) == unwind(s, lo + 1, hi) + frame_run(s[lo])
    decreases hi - lo
{
    if hi == lo + 1 {
        assert(unwind(s, lo + 1, hi) =~= Seq::<ExprIdx>::empty());
        assert(unwind(s, lo, hi - 1) =~= Seq::<ExprIdx>::empty());
        assert(unwind(s, lo, hi) =~= frame_run(s[lo]));
    } else {
        lemma_unwind_lo(s, lo, hi - 1);
        assert(unwind(s, lo, hi) =~= frame_run(s[hi - 1]) + (unwind(s, lo + 1, hi - 1) + frame_run(s[lo])));
        assert(unwind(s, lo + 1, hi) + frame_run(s[lo]) =~= frame_run(s[hi - 1]) + unwind(s, lo + 1, hi - 1) + frame_run(s[lo]));
    }
}
/// running a frame's defers from the last one down to position d
pub open spec fn run_from(f: DeferFrame, d: int) -> Seq<ExprIdx> { f.defers@.subrange(d, f.defers@.len() as int).reverse() }
pub proof fn lemma_run_step(f: DeferFrame, d: int)
    requires 0 < d <= f.defers@.len()
    ensures run_from(f, d - 1) == run_from(f, d).push(f.defers@[d - 1])
{
    let s = f.defers@; let n = s.len() as int;
    assert(s.subrange(d - 1, n) =~= seq![s[d - 1]] + s.subrange(d, n));
    assert(run_from(f, d - 1) =~= run_from(f, d).push(s[d - 1]));
}
pub proof fn lemma_run_ends(f: DeferFrame)
    ensures run_from(f, f.defers@.len() as int) == Seq::<ExprIdx>::empty(), run_from(f, 0) == frame_run(f)
{
    assert(f.defers@.subrange(0, f.defers@.len() as int) =~= f.defers@);
    assert(run_from(f, f.defers@.len() as int) =~= Seq::<ExprIdx>::empty());
}
/// pushing a frame keeps every frame that was there findable (unless the new frame takes over
/// its label, in which case the new frame is the one found), and gives the new label a frame
pub proof fn lemma_frames_ok_push(s0: Seq<DeferFrame>, s1: Seq<DeferFrame>, live0: Set<ScopeId>, id: Option<ScopeId>)
    requires s1.len() == s0.len() + 1, s1.drop_last() == s0, s1.last().id == id,
        forall|l: ScopeId| live0.contains(l) ==> #[trigger] has_frame(s0, l),
    ensures
        forall|l: ScopeId| live0.contains(l) ==> #[trigger] has_frame(s1, l),
        id is Some ==> has_frame(s1, id->0),
{
    assert forall|l: ScopeId| live0.contains(l) implies #[trigger] has_frame(s1, l) by {
        if id == Some(l) { assert(frame_of(s1, l, s1.len() - 1)); }
        else {
            assert(has_frame(s0, l));
            let k = choose|k: int| #[trigger] frame_of(s0, l, k);
            assert(s0[k] == s1.drop_last()[k]);
            assert(s1[k] == s0[k]);
            assert forall|j: int| k < j < s1.len() implies s1[j].id != Some(l) by { if j < s0.len() { assert(s0[j] == s1.drop_last()[j]); assert(s1[j] == s0[j]); } }
            assert(frame_of(s1, l, k));
        }
    }
    if id is Some { assert(frame_of(s1, id->0, s1.len() - 1)); }
}
