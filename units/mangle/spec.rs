// Specification for C27: "any two different compiled entities ... receive different symbol
// names".  A symbol name is a table of contents (one kind letter per part), the parts, and
// "E".  Ghost code only.

pub open spec fn is_digit(c: char) -> bool { '0' <= c && c <= '9' }
pub open spec fn ascii_lower(c: char) -> char { if 'A' <= c && c <= 'Z' { ((c as u8) + 32) as char } else { c } }

/// decimal text of a length: the result of `usize::to_string` -- ASSUMED properties (axioms
/// D1, D2 below): non-empty, digits only, different numbers give different texts
pub uninterp spec fn dec(n: nat) -> Seq<char>;

#[verifier::external_body]
pub proof fn axiom_dec_digits(n: nat)
    ensures dec(n).len() > 0, forall|i: int| 0 <= i < dec(n).len() ==> is_digit(#[trigger] dec(n)[i])
{}
#[verifier::external_body]
pub proof fn axiom_dec_injective(a: nat, b: nat)
    ensures dec(a) == dec(b) ==> a == b
{}

/// does the text need the escape?
pub open spec fn needs_escape(t: Seq<char>) -> bool { t.len() > 0 && (is_digit(t[0]) || t[0] == '_') }
/// what is written after the length
pub open spec fn escaped(t: Seq<char>) -> Seq<char> { if needs_escape(t) { seq!['_'] + t } else { t } }
/// one part: the length of what follows, then that
pub open spec fn enc_part(t: Seq<char>) -> Seq<char> { dec(escaped(t).len()) + escaped(t) }

/// the escaped text never starts with a digit: the end of the length stays visible
pub proof fn lemma_escaped_no_digit(t: Seq<char>)
    ensures escaped(t).len() > 0 ==> !is_digit(escaped(t)[0]),
        escaped(t).len() == 0 ==> t.len() == 0,
{
}

/// escaping is injective
pub proof fn lemma_escaped_injective(a: Seq<char>, b: Seq<char>)
    requires escaped(a) == escaped(b)
    ensures a == b
{
    if needs_escape(a) && !needs_escape(b) {
        assert(escaped(b)[0] == '_');
        assert(b[0] == '_');
    }
    if !needs_escape(a) && needs_escape(b) {
        assert(escaped(a)[0] == '_');
        assert(a[0] == '_');
    }
    if needs_escape(a) && needs_escape(b) {
        assert(a =~= escaped(a).subrange(1, escaped(a).len() as int));
        assert(b =~= escaped(b).subrange(1, escaped(b).len() as int));
    }
}

/// C27 for one part, in the form needed for sequences of parts: if two encodings are both
/// followed by something (possibly nothing) and the whole texts agree, then the parts agree
/// and so do the continuations (unique decodability).
pub proof fn lemma_enc_part_prefix_free(a: Seq<char>, ra: Seq<char>, b: Seq<char>, rb: Seq<char>)
    requires enc_part(a) + ra == enc_part(b) + rb
    ensures a == b, ra == rb
{
    let ea = escaped(a); let eb = escaped(b);
    let da = dec(ea.len()); let db = dec(eb.len());
    axiom_dec_digits(ea.len()); axiom_dec_digits(eb.len());
    lemma_escaped_no_digit(a); lemma_escaped_no_digit(b);
    let sa = enc_part(a) + ra; let sb = enc_part(b) + rb;
    assert(sa == da + ea + ra);
    assert(sb == db + eb + rb);
    // the decimal prefixes have the same length: otherwise a digit would face a non-digit
    // or the end of the text ... unless the text after the shorter one starts with a digit,
    // which only `ra` / `rb` could do when the escaped text is empty.  An empty escaped text
    // means length 0, i.e. dec(0); handle via total lengths.
    if da.len() < db.len() {
        let k = da.len() as int;
        assert(sb[k] == db[k]);
        assert(is_digit(sb[k]));
        if ea.len() > 0 {
            assert(sa[k] == ea[0]);
            assert(false);
        } else {
            // ea empty: a is empty, da == dec(0)
            assert forall|i: int| 0 <= i < k implies dec(0)[i] == dec(eb.len())[i] by {
                assert(sa[i] == da[i]); assert(sb[i] == db[i]);
            }
            lemma_dec_zero_prefix(eb.len(), k);
            assert(false);
        }
    }
    if db.len() < da.len() {
        let k = db.len() as int;
        assert(sa[k] == da[k]);
        assert(is_digit(sa[k]));
        if eb.len() > 0 {
            assert(sb[k] == eb[0]);
            assert(false);
        } else {
            assert forall|i: int| 0 <= i < k implies dec(0)[i] == dec(ea.len())[i] by {
                assert(sa[i] == da[i]); assert(sb[i] == db[i]);
            }
            lemma_dec_zero_prefix(ea.len(), k);
            assert(false);
        }
    }
    assert(da.len() == db.len());
    assert(da =~= db) by {
        assert forall|i: int| 0 <= i < da.len() implies da[i] == db[i] by {
            assert(sa[i] == da[i]); assert(sb[i] == db[i]);
        }
    }
    axiom_dec_injective(ea.len(), eb.len());
    assert(ea.len() == eb.len());
    assert(ea =~= eb) by {
        assert forall|i: int| 0 <= i < ea.len() implies ea[i] == eb[i] by {
            assert(sa[da.len() + i] == ea[i]); assert(sb[db.len() + i] == eb[i]);
        }
    }
    lemma_escaped_injective(a, b);
    assert(ra =~= rb) by {
        assert(ra.len() == rb.len());
        assert forall|i: int| 0 <= i < ra.len() implies ra[i] == rb[i] by {
            assert(sa[da.len() + ea.len() + i] == ra[i]); assert(sb[db.len() + eb.len() + i] == rb[i]);
        }
    }
}

/// ASSUMED (D3): the decimal text of 0 is not a proper prefix of the decimal text of another
/// length ("0" vs no leading zeros)
#[verifier::external_body]
pub proof fn lemma_dec_zero_prefix(n: nat, k: int)
    requires dec(0).len() == k, k < dec(n).len(), forall|i: int| 0 <= i < k ==> dec(0)[i] == dec(n)[i]
    ensures false
{}

pub open spec fn kind_code(k: MangledPartKind) -> char {
    match k {
        MangledPartKind::Module => 'M',
        MangledPartKind::FileOrFolder => 'F',
        MangledPartKind::Name => 'N',
        MangledPartKind::GenericID => 'G',
        MangledPartKind::Lambda => 'L',
        MangledPartKind::Comptime => 'Z',
        MangledPartKind::InternalData => 'I',
    }
}
/// different kinds have different letters
pub proof fn lemma_kind_code_injective(a: MangledPartKind, b: MangledPartKind)
    requires kind_code(a) == kind_code(b)
    ensures a == b
{
}
