"""Unit `mangle` (C27): add_part and the assembly of a mangled name."""
from tools.unitapi import Unit, Rewrite

MG = 'crates/codegen/src/mangle.rs'

UNIT = u = Unit('mangle', ['C27'], 'symbol name mangling: add_part, MangledPartKind::to_code')
u.raw('use vstd::string::*;')
u.extract(MG, 'enum MangledPartKind', keep_derives={'Clone', 'Copy'},
          rewrites=[Rewrite('R4', r'^enum MangledPartKind', 'pub enum MangledPartKind', flags=8, why='private datatype widened to pub for spec accessors')])
u.extract(MG, 'struct MangledPart', keep_derives=set(), pub_fields=True,
          rewrites=[Rewrite('R4', r"Cow<'a, str>", "&'a str", count=1, why="`Cow<'a, str>` -> `&'a str`: the part text is only read through Deref<Target = str>"),
                    Rewrite('R4', r'^struct MangledPart', 'pub struct MangledPart', flags=8, why='private datatype widened to pub')])
u.spec('spec.rs')
u.raw('''
// shims for std (ASSUMED): decimal text of a usize, and `str::starts_with` with a char predicate
#[verifier::external_body]
pub fn usize_to_string(n: usize) -> (r: String) ensures r@ == dec(n as nat) { unimplemented!() }
#[verifier::external_body]
pub fn str_starts_with<F: Fn(char) -> bool>(s: &str, f: F) -> (r: bool)
    requires forall|c: char| f.requires((c,))
    ensures s@.len() == 0 ==> !r,
        s@.len() > 0 ==> f.ensures((s@[0],), r),      // the answer of the predicate on the first char
{ unimplemented!() }
pub assume_specification[ char::is_ascii_digit ](c: &char) -> (r: bool) ensures r == is_digit(*c);
pub assume_specification[ char::to_ascii_lowercase ](c: &char) -> (r: char) ensures r == ascii_lower(*c);
''')
u.trusted += [
    'usize::to_string yields a non-empty digits-only decimal text without a leading zero, injective in the number (axioms D1-D3 in units/mangle/spec.rs)',
    'part texts are ASCII (precondition): `str::len` counts bytes, the model counts characters',
    'FileName::get_components (Path, env::current_dir; maps `.` to `-`, strips `.capy`, skips `src`) is upstream of the descriptors and NOT under contract: two paths that it maps to the same components still collide',
    'create_mangled_for_* (iterator chains building the part list) are not under contract; the assembly order is checked only for add_part and to_code',
]

TOSTR = Rewrite('R4', r'((?:\((?:[^()]|\([^()]*\))*\))|(?:part\.text\.len\(\)))\.to_string\(\)', r'usize_to_string(\1)', count=2,
                why='`EXPR.to_string()` on a usize -> shim `usize_to_string(EXPR)` with the assumed decimal-text contract; EXPR is kept')


def _sw(m):
    body = m.group(1).strip()
    spec_body = body.replace('ch.is_ascii_digit()', 'is_digit(ch)')
    return 'str_starts_with(part.text, |ch: char| -> (b: bool) ensures b == (%s) { %s })' % (spec_body, body)


STARTS = Rewrite('R7', r'part\s*\.text\s*\.starts_with\(\|ch: char\|([^{}]*?)\)\s*\{', lambda m: _sw(m) + ' {', count=1,
                 why='`str::starts_with(closure)` -> shim taking the same closure; closure `ensures` spliced (R2); the predicate text is kept')

u.extract(MG, 'impl MangledPartKind::fn to_code', wrap=('impl MangledPartKind {', '}'),
          rewrites=[Rewrite('R4', r'const fn to_code', 'fn to_code', count=1, why='const qualifier dropped')],
          contract='''
    ensures
        // the table of contents uses one upper-case letter per kind, all different
        'A' <= res && res <= 'Z',
        res == kind_code(self),
''')
u.extract(MG, 'fn add_part', rewrites=[STARTS, TOSTR], contract='''
    requires
        part.text.is_ascii(), part.text@.len() < 0x7fff_ffff,
    ensures
        // exactly the encoding of this part is appended
        final(mangled)@ == old(mangled)@ + enc_part(part.text@),
''', inserts=[('@body_start', 'after', '''
    proof {
        vstd::string::is_ascii_spec_bytes(part.text);
        let o = old(mangled)@; let t = part.text@;
        let d1 = dec((t.len() + 1) as nat); let d0 = dec(t.len());
        assert((o + d1).push('_') + t =~= o + (d1 + (seq!['_'] + t)));
        assert(o + d0 + t =~= o + (d0 + t));
        assert((seq!['_'] + t).len() == t.len() + 1);
    }
''')])

u.expected += ['lemma_enc_part_prefix_free', 'lemma_escaped_injective', 'lemma_kind_code_injective']

MUTANTS = [
    # the repaired defect, re-introduced: escape only digit-leading texts, with the kind letter
    (MG, ".starts_with(|ch: char| ch.is_ascii_digit() || ch == '_')", ".starts_with(|ch: char| ch.is_ascii_digit())", 'violation'),
    (MG, "        mangled.push('_');\n", "        mangled.push(part.kind.to_code().to_ascii_lowercase());\n", 'violation'),
    (MG, 'mangled.push_str(&(part.text.len() + 1).to_string());', 'mangled.push_str(&(part.text.len()).to_string());', 'violation'),
    (MG, "            MangledPartKind::Lambda => 'L',", "            MangledPartKind::Lambda => 'G',", 'violation'),
    (MG, '        mangled.push_str(&part.text.len().to_string());\n        mangled.push_str(&part.text);', '        mangled.push_str(&part.text);\n        mangled.push_str(&part.text.len().to_string());', 'violation'),
]
