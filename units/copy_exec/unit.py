"""Unit `copy_exec` (C02): bounded stand-in that runs generated programs through the compiler
built from the tree.  (A) every aggregate type of a pool x every way of copying it (definition,
annotated definition, same-type cast, assignment, function result, argument, struct field,
array element): after the copy every leaf of one copy is overwritten and the other copy is
printed.  (B) a sum type / struct / array stored between two guard bytes (in a struct, and in
the middle element of an array of such structs) by every conversion the property lists: the
guards are printed after every store.  (C) structs of n one-byte fields, n = 1..64, passed and
returned by value into a guarded field.  The oracle is the property: what was not assigned keeps
its value.  BOUNDED: decides what the deductive units cannot read (the Stmt::LocalDef / Assign /
call arms as a whole, changes outside the Verus dialect)."""
from tools.unitapi import Unit
from tools import execdriver

UNIT = u = Unit('copy_exec', ['C02'], 'bounded: generated copy / neighbour programs executed, output compared with the property')
u.expected = ['compile_stmt']
u.trusted += ['BOUNDED stand-in (not a proof): 9 aggregate types x 8 copy forms; 9 guarded destinations x their conversions; by-value structs of 1..64 bytes (19 sizes quick, all 64 thorough); oracle: a value that was not assigned keeps its value; core.println and the host linker are trusted']

# ---- (A) types: name, declaration, leaves (access path, max value) -------------------------------
TYPES = [
    ('S2', 'S2 :: struct { a: u64, b: u64 };', 'struct', [('.a', 2 ** 64 - 1), ('.b', 2 ** 64 - 1)]),
    ('S3', 'S3 :: struct { a: u8, b: u16 };', 'struct', [('.a', 255), ('.b', 65535)]),
    ('S5', 'S5 :: struct { a: u8, b: u8, c: u8, d: u8, e: u8 };', 'struct', [('.' + f, 255) for f in 'abcde']),
    ('S24', 'S24 :: struct { a: u64, b: u64, c: u64 };', 'struct', [('.' + f, 2 ** 64 - 1) for f in 'abc']),
    ('S40', 'S40 :: struct { a: u64, b: u64, c: u64, d: u64, e: u64 };', 'struct', [('.' + f, 2 ** 64 - 1) for f in 'abcde']),
    ('N4', 'N4 :: struct { x: S3, y: u8 };', 'nested', [('.x.a', 255), ('.x.b', 65535), ('.y', 255)]),
    ('A3', 'A3 :: [3]u64;', 'array', [('[0]', 2 ** 64 - 1), ('[1]', 2 ** 64 - 1), ('[2]', 2 ** 64 - 1)]),
    ('A5', 'A5 :: [5]u8;', 'array', [('[%d]' % i, 255) for i in range(5)]),
    ('D2', 'D2 :: distinct S2;', 'distinct', [('.a', 2 ** 64 - 1), ('.b', 2 ** 64 - 1)]),
]


def lit(t, vals):
    name, _, kind, leaves = t
    if kind == 'struct':
        return '%s.{ %s }' % (name, ', '.join('%s = %d' % (p[1:], v) for (p, _), v in zip(leaves, vals)))
    if kind == 'nested':
        return 'N4.{ x = S3.{ a = %d, b = %d }, y = %d }' % tuple(vals)
    if kind == 'array':
        elem = 'u64' if name == 'A3' else 'u8'
        return '%s.(%s.[%s])' % (name, elem, ', '.join(str(v) for v in vals))
    if kind == 'distinct':
        return 'D2.(S2.{ a = %d, b = %d })' % tuple(vals)


def vals_for(t, seed):
    return [(seed * 37 + 11 * i + 5) % (mx + 1) if mx < 2 ** 32 else (seed * 1000003 + i * 7919 + 12345678901) % (mx + 1) for i, (_, mx) in enumerate(t[3])]


def show(var, t):
    return 'core.println(%s);' % ', " ", '.join('%s%s' % (var, p) for p, _ in t[3])


def line(vals):
    return ' '.join(str(v) for v in vals)


FORMS = ['def', 'ann', 'cast', 'assign', 'result', 'field', 'elem', 'arg']


def gen_copy_program():
    src = ['core :: #mod("core");', '']
    for t in TYPES:
        src.append(t[1])
    for t in TYPES:
        n = t[0]
        src.append('Outer_%s :: struct { pre: u8, mid: %s, post: u8 };' % (n, n))
        src.append('id_%s :: (p: %s) -> %s { p }' % (n, n, n))
        # the argument is a copy: writing through a pointer to the original does not change it
        src.append('arg_%s :: (p: %s, q: ^mut %s) {' % (n, n, n))
        nv = vals_for(t, 9)
        for (path, _), v in zip(t[3], nv):
            src.append('    q%s = %d;' % (path, v))
        src.append('    ' + show('p', t))
        src.append('}')
    src.append('')
    main = ['main :: () {']
    expected = []
    k = 0
    for t in TYPES:
        n = t[0]
        for form in FORMS:
            k += 1
            A, B0, B1, A2 = vals_for(t, 1), vals_for(t, 2), vals_for(t, 3), vals_for(t, 4)
            fn = 'case_%d' % k
            body = ['%s :: () {' % fn, '    a := %s;' % lit(t, A)]
            head = '# %s type=%s form=%s' % (fn, n, form)
            exp = [head]
            b = 'b'
            if form == 'def':
                body.append('    b := a;')
            elif form == 'ann':
                body.append('    b : %s = a;' % n)
            elif form == 'cast':
                body.append('    b := %s.(a);' % n)
            elif form == 'assign':
                body.append('    b := %s;' % lit(t, B0))
                body.append('    b = a;')
            elif form == 'result':
                body.append('    b := id_%s(a);' % n)
            elif form == 'field':
                body.append('    o := Outer_%s.{ pre = 17, mid = %s, post = 34 };' % (n, lit(t, B0)))
                body.append('    o.mid = a;')
                b = 'o.mid'
            elif form == 'elem':
                body.append('    arr : [2]%s;' % n)
                body.append('    arr[1] = a;')
                b = 'arr[1]'
            elif form == 'arg':
                body.append('    arg_%s(a, ^mut a);' % n)
                exp.append(line(A))
                body.append('    ' + show('a', t))
                exp.append(line(vals_for(t, 9)))
                body.append('}')
                src.extend(body)
                src.append('')
                main.append('    core.println("%s");' % head)
                main.append('    %s();' % fn)
                expected.extend(exp)
                continue
            # the copy holds the value
            body.append('    ' + show(b, t))
            exp.append(line(A))
            # overwrite every leaf of the copy: the original is unchanged
            for (path, _), v in zip(t[3], B1):
                body.append('    %s%s = %d;' % (b, path, v))
            body.append('    ' + show('a', t))
            exp.append(line(A))
            # overwrite every leaf of the original: the copy is unchanged
            for (path, _), v in zip(t[3], A2):
                body.append('    a%s = %d;' % (path, v))
            body.append('    ' + show(b, t))
            exp.append(line(B1))
            if form == 'field':
                body.append('    core.println(o.pre, " ", o.post);')
                exp.append('17 34')
            body.append('}')
            src.extend(body)
            src.append('')
            main.append('    core.println("%s");' % head)
            main.append('    %s();' % fn)
            expected.extend(exp)
    main.append('}')
    return ('copies', '\n'.join(src + main) + '\n', expected)


# ---- (B) guarded destinations ---------------------------------------------------------------------
def gen_guard_program():
    src = ['core :: #mod("core");', '',
           'S3 :: struct { a: u8, b: u16 };',
           'S5 :: struct { a: u8, b: u8, c: u8, d: u8, e: u8 };',
           'E :: enum { Quit, Small: u8, Big: u64, Pair: S3, Five: S5 };',
           'mk_s3 :: () -> S3 { S3.{ a = 255, b = 65535 } }',
           'mk_opt16 :: (c: bool) -> ?u16 { if c { return nil; } 65535 }',
           '']
    # (wrapper name, mid type, initial value, [(store statement on `w.mid`, comment)])
    DEST = [
        ('W_opt8', '?u8', 'nil', ['{L} = x8;', '{L} = nil;', '{L} = 255;']),
        ('W_opt16', '?u16', 'nil', ['{L} = x16;', '{L} = nil;', '{L} = mk_opt16(false);', '{L} = mk_opt16(true);']),
        ('W_opt64', '?u64', 'nil', ['{L} = x64;', '{L} = nil;']),
        ('W_opts3', '?S3', 'nil', ['{L} = S3.{ a = 255, b = 65535 };', '{L} = nil;', '{L} = mk_s3();']),
        ('W_e', 'E', 'E.Quit.(())', ['{L} = E.Big.(18446744073709551615);', '{L} = E.Small.(255);', '{L} = E.Pair.{ a = 255, b = 65535 };',
                                      '{L} = E.Five.{ a = 255, b = 255, c = 255, d = 255, e = 255 };', '{L} = E.Quit.(());', '{L} = vbig;', '{L} = vsmall;']),
        ('W_err16', 'str!u16', 'x16', ['{L} = "an error";', '{L} = x16;']),
        ('W_err8', 'str!u8', 'x8', ['{L} = x8;', '{L} = "an error";']),
        ('W_s3', 'S3', 'S3.{ a = 1, b = 2 }', ['{L} = .{ b = 65535, a = 255 };', '{L} = mk_s3();', '{L}.a = 255;', '{L}.b = 65535;']),
        ('W_a16', '[3]u16', '.[1, 2, 3]', ['{L} = [3]u16.(src8);', '{L}[0] = 65535;', '{L}[2] = 65535;']),
    ]
    for wn, ty, init, _ in DEST:
        src.append('%s :: struct { pre: u8, mid: %s, post: u8 };' % (wn, ty))
    src.append('')
    main = ['main :: () {']
    expected = []
    for wn, ty, init, stores in DEST:
        fn = 'guard_%s' % wn
        head = '# %s mid=%s' % (fn, ty)
        body = ['%s :: () {' % fn,
                '    x8 : u8 = 255; x16 : u16 = 65535; x64 : u64 = 18446744073709551615;',
                '    vbig := E.Big.(18446744073709551615); vsmall := E.Small.(255);',
                '    src8 := u8.[255, 255, 255];',
                '    before : u64 = 1229782938247303441;',
                '    w := %s.{ pre = 17, mid = %s, post = 34 };' % (wn, init),
                '    after : u64 = 2459565876494606882;',
                '    arr : [3]%s = .[w, w, w];' % wn]
        exp = [head]
        for st in stores:
            body.append('    ' + st.replace('{L}', 'w.mid'))
            body.append('    core.println(w.pre, " ", w.post, " ", before, " ", after);')
            exp.append('17 34 1229782938247303441 2459565876494606882')
            body.append('    ' + st.replace('{L}', 'arr[1].mid'))
            body.append('    core.println(arr[0].pre, " ", arr[0].post, " ", arr[1].pre, " ", arr[1].post, " ", arr[2].pre, " ", arr[2].post);')
            exp.append('17 34 17 34 17 34')
        body.append('}')
        src.extend(body)
        src.append('')
        main.append('    core.println("%s");' % head)
        main.append('    %s();' % fn)
        expected.extend(exp)
    main.append('}')
    return ('guards', '\n'.join(src + main) + '\n', expected)


# ---- (C) by-value structs of n bytes ---------------------------------------------------------------
def gen_sizes_program(sizes):
    src = ['core :: #mod("core");', '']
    main = ['main :: () {']
    expected = []
    for n in sizes:
        fields = ['f%d' % i for i in range(n)]
        vals = [(i * 7 + 3) % 256 for i in range(n)]
        src.append('B%d :: struct { %s };' % (n, ', '.join('%s: u8' % f for f in fields)))
        src.append('WB%d :: struct { pre: u8, mid: B%d, post: u8 };' % (n, n))
        src.append('idb%d :: (p: B%d) -> B%d { p }' % (n, n, n))
        src.append('sumb%d :: (p: B%d) -> u64 { %s }' % (n, n, ' + '.join('u64.(p.%s)' % f for f in fields)))
        fn = 'size_%d' % n
        head = '# %s' % fn
        src.append('%s :: () {' % fn)
        src.append('    w := WB%d.{ pre = 17, mid = B%d.{ %s }, post = 34 };' % (n, n, ', '.join('%s = 0' % f for f in fields)))
        src.append('    v := B%d.{ %s };' % (n, ', '.join('%s = %d' % (f, v) for f, v in zip(fields, vals))))
        src.append('    w.mid = idb%d(v);' % n)
        src.append('    core.println(w.pre, " ", w.post, " ", w.mid.f0, " ", w.mid.f%d, " ", sumb%d(w.mid), " ", sumb%d(v));' % (n - 1, n, n))
        src.append('}')
        src.append('')
        expected.append(head)
        expected.append('17 34 %d %d %d %d' % (vals[0], vals[-1], sum(vals), sum(vals)))
        main.append('    core.println("%s");' % head)
        main.append('    %s();' % fn)
    main.append('}')
    return ('sizes', '\n'.join(src + main) + '\n', expected)


QUICK_SIZES = [1, 2, 3, 4, 5, 7, 8, 9, 12, 15, 16, 17, 24, 31, 32, 33, 48, 63, 64]


def build_cases(tier):
    sizes = list(range(1, 65)) if tier == 'thorough' else QUICK_SIZES
    return [gen_copy_program(), gen_guard_program(), gen_sizes_program(sizes)]


def runner(unit, prop, repo, scratch, tier):
    cases = build_cases(tier)
    return execdriver.run_cases(unit, prop, repo, scratch, tier, cases, 'compile_stmt',
                                'a store changes only its destination: copies of an aggregate are independent, and the bytes next to a stored sum type, struct or array keep their values',
                                '%d aggregate types x %d copy forms; 9 guarded destinations with every listed conversion, as a field and as the middle element of an array; by-value structs of %d sizes between 1 and 64 bytes' % (len(TYPES), len(FORMS), len(QUICK_SIZES) if tier != 'thorough' else 64))


u.runner = runner

F = 'crates/codegen/src/compiler/functions.rs'
M = 'crates/codegen/src/compiler/mod.rs'
MUTANTS = [
    # over-wide tag store (the first repaired C02 defect), seen from outside
    (M, 'let discrim = builder.ins().iconst(types::I8, *discriminant as i64);', 'let discrim = builder.ins().iconst(types::I64, *discriminant as i64);', 'violation'),
]
