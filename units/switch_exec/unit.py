"""Unit `switch_exec` (C11, dispatch clause): bounded stand-in that runs generated programs
through the compiler built from the tree: every value of a 6-variant enum with custom
discriminants (and of a distinct wrapper of it), of `?u32`, `?^u32`-free optionals and of
`str!u32` is switched over with (a) all arms, fully qualified and shorthand, (b) every subset of
arms of size 0..2 plus a default arm; the arm that runs must be the one of the value's variant
(or the default arm when it has none) and the switch argument must be the variant's payload.
BOUNDED."""
import itertools
from tools.unitapi import Unit
from tools import execdriver

UNIT = u = Unit('switch_exec', ['C11'], 'bounded: generated switch programs executed, the arm that ran and its payload compared with the value')
u.expected = ['compile_expr_with_args']
u.trusted += ['BOUNDED stand-in (not a proof): one enum of 6 variants (payloads void, u8, u64, a 3-byte struct, str, i32; discriminants auto, auto, 7, auto, 200, auto) and a distinct wrapper of it, ?u32, ?^u32 (both arm orders), str!u32; all-arms switches (qualified, shorthand) and every arm subset of size <= 2 with a default arm; core.println and the host linker are trusted']

VARIANTS = [('A', None, 'E6.A.(())', None), ('B', 'u8', 'E6.B.(201)', '201'), ('C', 'u64', 'E6.C.(18446744073709551615)', '18446744073709551615'),
            ('D', 'S3', 'E6.D.{ a = 9, b = 513 }', '9 513'), ('E', 'str', 'E6.E.("hello")', 'hello'), ('F', 'i32', 'E6.F.(-5)', '-5')]


def arm_body(name, payload_ty, tag):
    if payload_ty is None:
        return 'core.println("%s %s");' % (tag, name)
    if payload_ty == 'S3':
        return 'core.println("%s %s ", x.a, " ", x.b);' % (tag, name)
    return 'core.println("%s %s ", x);' % (tag, name)


def gen():
    src = ['core :: #mod("core");', '', 'S3 :: struct { a: u8, b: u16 };',
           'E6 :: enum { A, B: u8, C: u64 | 7, D: S3, E: str | 200, F: i32 };', 'D6 :: distinct E6;', '']
    main = ['main :: () {']
    exp = []
    k = 0
    # (a) all arms, fully qualified / shorthand, on the enum and on its distinct wrapper
    for style in ('qualified', 'shorthand'):
        for wrapper in ('E6', 'D6'):
            k += 1
            fn = 'all_%d' % k
            src.append('%s :: (v: %s) {' % (fn, wrapper))
            src.append('    switch x in v {')
            for name, pty, _, _ in VARIANTS:
                pat = ('E6.%s' % name) if style == 'qualified' else ('.%s' % name)
                src.append('        %s => { %s },' % (pat, arm_body(name, pty, 'arm')))
            src.append('    }')
            src.append('}')
            for name, pty, mk, shown in VARIANTS:
                head = '# %s %s %s value=%s' % (fn, style, wrapper, name)
                main.append('    core.println("%s");' % head)
                main.append('    %s(%s);' % (fn, mk if wrapper == 'E6' else 'D6.(E6.(%s))' % mk))
                exp.append(head)
                exp.append('arm %s%s' % (name, (' ' + shown) if shown else ''))
    # (b) subsets with a default arm
    names = [v[0] for v in VARIANTS]
    for size in (0, 1, 2):
        for subset in itertools.combinations(range(len(VARIANTS)), size):
            k += 1
            fn = 'sub_%d' % k
            src.append('%s :: (v: E6) {' % fn)
            src.append('    switch x in v {')
            for i in subset:
                name, pty, _, _ = VARIANTS[i]
                src.append('        .%s => { %s },' % (name, arm_body(name, pty, 'arm')))
            src.append('        _ => { core.println("default"); },')
            src.append('    }')
            src.append('}')
            for i, (name, pty, mk, shown) in enumerate(VARIANTS):
                head = '# %s arms=%s value=%s' % (fn, ''.join(names[j] for j in subset) or '-', name)
                main.append('    core.println("%s");' % head)
                main.append('    %s(%s);' % (fn, mk))
                exp.append(head)
                exp.append(('arm %s%s' % (name, (' ' + shown) if shown else '')) if i in subset else 'default')
    # optionals and error unions
    src.append('opt_all :: (v: ?u32) { switch x in v { u32 => { core.println("arm u32 ", x); }, nil => { core.println("arm nil"); }, } }')
    src.append('opt_def :: (v: ?u32) { switch x in v { u32 => { core.println("arm u32 ", x); }, _ => { core.println("default"); }, } }')
    src.append('opt_def2 :: (v: ?u32) { switch x in v { nil => { core.println("arm nil"); }, _ => { core.println("default"); }, } }')
    src.append('err_all :: (v: str!u32) { switch x in v { u32 => { core.println("arm u32 ", x); }, str => { core.println("arm str ", x); }, } }')
    src.append('err_def :: (v: str!u32) { switch x in v { str => { core.println("arm str ", x); }, _ => { core.println("default"); }, } }')
    # nullable pointers: no tag byte, nil is the null pointer; both orders of the two arms
    src.append('ptr_pn :: (v: ?^u32) { switch x in v { ^u32 => { core.println("arm ptr ", x^); }, nil => { core.println("arm nil"); }, } }')
    src.append('ptr_np :: (v: ?^u32) { switch x in v { nil => { core.println("arm nil"); }, ^u32 => { core.println("arm ptr ", x^); }, } }')
    src.append('ptr_call :: () { t : u32 = 4242; ptr_pn(^t); ptr_pn(nil); ptr_np(^t); ptr_np(nil); }')
    main.append('    core.println("# nullable pointer");')
    main.append('    ptr_call();')
    exp.append('# nullable pointer')
    exp.extend(['arm ptr 4242', 'arm nil', 'arm ptr 4242', 'arm nil'])
    for call, out in [('opt_all(4000000000)', 'arm u32 4000000000'), ('opt_all(nil)', 'arm nil'), ('opt_def(7)', 'arm u32 7'), ('opt_def(nil)', 'default'),
                      ('opt_def2(7)', 'default'), ('opt_def2(nil)', 'arm nil'), ('err_all(77)', 'arm u32 77'), ('err_all("bad")', 'arm str bad'),
                      ('err_def(77)', 'default'), ('err_def("bad")', 'arm str bad')]:
        head = '# %s' % call.replace('"', "'")
        main.append('    core.println("%s");' % head)
        main.append('    %s;' % call)
        exp.append(head)
        exp.append(out)
    main.append('}')
    return ('switches', '\n'.join(src + main) + '\n', exp)


def runner(unit, prop, repo, scratch, tier):
    return execdriver.run_cases(unit, prop, repo, scratch, tier, [gen()], 'compile_expr_with_args',
                                'when a switch runs, exactly the arm of the value\'s current variant executes with the switch argument bound to that variant\'s payload, or the default arm when the variant has no arm',
                                '6-variant enum with custom discriminants and its distinct wrapper: all-arms switches (2 styles) and all arm subsets of size <= 2 with a default, on every variant; ?u32 and str!u32 with and without default, ?^u32 with both arm orders')


u.runner = runner

F = 'crates/codegen/src/compiler/functions.rs'
MUTANTS = [
    # the tag is read sign-extended (seeded C11): discriminant 200 matches no arm
    (F, '''                    let discrim_val = self.builder.ins().load(
                        types::I8,''', '''                    let discrim_val = self.builder.ins().sload8(
                        types::I32,''', 'violation'),
    # the default arm is entered for a value that has an arm: table entry keyed by the arm position
    (F, 'switch.set_entry(discrim as u128, *arm_block);', 'switch.set_entry((discrim as u128) & 0x7f, *arm_block);', 'violation'),
]
