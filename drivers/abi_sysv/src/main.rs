// Bounded stand-in for C19 through the cfg(capy_verif) hook `codegen::verif_hooks::sysv_fn_abi`
// (the real classify_arg / split_aggregate / fn_ty_to_abi): every struct of at most N fields
// drawn from the scalar / array / nested-struct set below is passed and returned in a set of
// signatures (alone, after 4..6 integer arguments, after 7 doubles, twice, with a MEMORY return)
// and the lowering is compared with a reference written from the System V psABI 3.2.3:
// classes per eightbyte by merging the classes of the scalars in it, one register per eightbyte
// wide enough for the bytes left, registers handed out left to right, all or nothing.
// BOUNDED -- not a proof.
use hir::common::{MemberTy, Name, Ty};
use interner::Interner;
use internment::Intern;

#[derive(Clone, Debug)]
enum T { Int(u32), Float(u32), Bool, Arr(u64, Box<T>), Struct(Vec<T>) }

#[derive(Clone, Copy, PartialEq, Debug)]
enum Class { No, Int, Sse }

impl T {
    fn align(&self) -> u32 {
        match self {
            T::Int(b) | T::Float(b) => (*b).min(8),
            T::Bool => 1,
            T::Arr(_, e) => e.align(),
            T::Struct(fs) => fs.iter().map(|f| f.align()).max().unwrap_or(1),
        }
    }
    // capy: a struct's size ends with its last field; the stride rounds it up to the alignment
    fn size(&self) -> u32 {
        match self {
            T::Int(b) | T::Float(b) => *b,
            T::Bool => 1,
            T::Arr(n, e) => e.stride() * *n as u32,
            T::Struct(fs) => self.offsets().last().map(|o| o + fs.last().unwrap().size()).unwrap_or(0),
        }
    }
    fn stride(&self) -> u32 { let a = self.align(); (self.size() + a - 1) / a * a }
    fn offsets(&self) -> Vec<u32> {
        let mut out = vec![];
        let mut end = 0;
        if let T::Struct(fs) = self {
            for f in fs { let a = f.align(); let o = (end + a - 1) / a * a; out.push(o); end = o + f.size(); }
        }
        out
    }
    fn is_aggregate(&self) -> bool { matches!(self, T::Arr(..) | T::Struct(_)) }
    fn leaves(&self, off: u32, out: &mut Vec<(u32, u32, Class)>) {
        match self {
            T::Int(b) => out.push((off, *b, Class::Int)),
            T::Bool => out.push((off, 1, Class::Int)),
            T::Float(b) => out.push((off, *b, Class::Sse)),
            T::Arr(n, e) => for i in 0..*n { e.leaves(off + i as u32 * e.stride(), out) },
            T::Struct(fs) => for (f, o) in fs.iter().zip(self.offsets()) { f.leaves(off + o, out) },
        }
    }
    fn to_ty(&self, i: &mut Interner) -> Intern<Ty> {
        match self {
            T::Int(b) => Ty::IInt((*b * 8) as u8).into(),
            T::Float(b) => Ty::Float((*b * 8) as u8).into(),
            T::Bool => Ty::Bool.into(),
            T::Arr(n, e) => Ty::ConcreteArray { size: *n, sub_ty: e.to_ty(i) }.into(),
            T::Struct(fs) => {
                let members = fs.iter().enumerate().map(|(k, f)| MemberTy { name: Name(i.intern(&format!("f{k}"))), ty: f.to_ty(i) }).collect();
                Ty::AnonStruct { members }.into()
            }
        }
    }
    fn scalar_name(&self) -> String {
        match self { T::Int(b) => format!("i{}", b * 8), T::Float(b) => format!("f{}", b * 8), T::Bool => "i8".into(), _ => unreachable!() }
    }
}

fn merge(a: Class, b: Class) -> Class {
    if a == b { a } else if a == Class::No { b } else if b == Class::No { a } else if a == Class::Int || b == Class::Int { Class::Int } else { Class::Sse }
}

/// None = MEMORY
fn classify(t: &T) -> Option<Vec<Class>> {
    let size = t.size();
    if size > 16 { return None; }
    let n = ((size + 7) / 8) as usize;
    let mut cls = vec![Class::No; n.max(1)];
    let mut leaves = vec![];
    t.leaves(0, &mut leaves);
    for (off, sz, c) in leaves {
        if sz == 0 { continue; }
        for k in (off / 8)..=((off + sz - 1) / 8) { cls[k as usize] = merge(cls[k as usize], c); }
    }
    Some(cls)
}

fn reg(c: Class, left: u32) -> String {
    match c {
        Class::Int => format!("i{}", if left >= 8 { 64 } else { (left.next_power_of_two() * 8).max(8) }),
        Class::Sse => if left == 4 { "f32".into() } else { "f64".into() },
        Class::No => "?".into(),
    }
}

fn in_regs(t: &T, cls: &[Class]) -> String {
    if t.is_aggregate() {
        let size = t.size();
        let mut parts = vec![reg(cls[0], size)];
        if size > 8 { parts.push(reg(cls[1], size - 8)); }
        format!("cast:{}", parts.join(","))
    } else { format!("direct:{}", t.scalar_name()) }
}

fn reference(params: &[T], ret: Option<&T>) -> (Option<String>, Vec<(u16, String)>) {
    let (mut ints, mut sses) = (6i32, 8i32);
    let r = ret.map(|t| match classify(t) {
        Some(cls) => in_regs(t, &cls),
        None => { ints -= 1; format!("indirect:{}", t.size()) }
    });
    let mut out = vec![];
    for (i, t) in params.iter().enumerate() {
        let mem = format!("indirect:{}", (t.stride() + 7) / 8 * 8);
        let s = match classify(t) {
            Some(cls) => {
                let ni = cls.iter().filter(|c| **c == Class::Int).count() as i32;
                let ns = cls.iter().filter(|c| **c == Class::Sse).count() as i32;
                if ni <= ints && ns <= sses { ints -= ni; sses -= ns; in_regs(t, &cls) }
                else if t.is_aggregate() { mem } else { format!("direct:{}", t.scalar_name()) }
            }
            None => mem,
        };
        out.push((i as u16, s));
    }
    (r, out)
}

fn main() {
    let n: usize = std::env::args().nth(1).and_then(|s| s.parse().ok()).unwrap_or(2);
    let mut interner = Interner::default();
    let pair = |a: T, b: T| T::Struct(vec![a, b]);
    let fields: Vec<T> = vec![
        T::Int(1), T::Int(2), T::Int(4), T::Int(8), T::Float(4), T::Float(8), T::Bool,
        T::Arr(2, Box::new(T::Float(4))), T::Arr(3, Box::new(T::Int(1))), T::Arr(2, Box::new(T::Int(4))), T::Arr(2, Box::new(T::Int(2))),
        T::Arr(4, Box::new(T::Int(2))), T::Arr(2, Box::new(T::Float(8))), pair(T::Float(4), T::Float(4)), pair(T::Int(1), T::Int(4)),
    ];
    let mut structs: Vec<T> = vec![];
    let mut frontier: Vec<Vec<T>> = vec![vec![]];
    for _ in 0..n {
        let mut next = vec![];
        for f in &frontier { for x in &fields { let mut g = f.clone(); g.push(x.clone()); next.push(g); } }
        structs.extend(next.iter().map(|fs| T::Struct(fs.clone())));
        frontier = next;
    }
    let i64s = |k: usize| vec![T::Int(8); k];
    let f64s = |k: usize| vec![T::Float(8); k];
    let big = T::Struct(vec![T::Int(8), T::Int(8), T::Int(8)]);
    let mut runs = 0u64;
    for s in &structs {
        let mut sigs: Vec<(Vec<T>, Option<T>)> = vec![
            (vec![s.clone()], None), (vec![], Some(s.clone())), (vec![s.clone(), s.clone()], Some(s.clone())),
            ([f64s(7), vec![s.clone()]].concat(), None),
        ];
        for k in 4..=6 { sigs.push(([i64s(k), vec![s.clone(), T::Int(8)]].concat(), None)); }
        sigs.push(([i64s(4), vec![s.clone()]].concat(), Some(big.clone())));
        for (params, ret) in sigs {
            runs += 1;
            let ptys: Vec<Intern<Ty>> = params.iter().map(|t| t.to_ty(&mut interner)).collect();
            let rty: Intern<Ty> = ret.as_ref().map(|t| t.to_ty(&mut interner)).unwrap_or(Ty::Void.into());
            let want = reference(&params, ret.as_ref());
            let got = std::panic::catch_unwind(|| codegen::verif_hooks::sysv_fn_abi(&ptys, rty));
            match got {
                Ok(got) if got == want => {}
                Ok(got) => {
                    println!("MISMATCH fn({:?}) -> {:?}: lowered as {:?} but the psABI prescribes {:?}", params, ret, got, want);
                    println!("SUMMARY structs={} fields_per_struct={} runs={} mismatches=1", structs.len(), n, runs);
                    std::process::exit(1);
                }
                Err(_) => {
                    println!("MISMATCH fn({:?}) -> {:?}: the lowering panicked", params, ret);
                    println!("SUMMARY structs={} fields_per_struct={} runs={} mismatches=1", structs.len(), n, runs);
                    std::process::exit(1);
                }
            }
        }
    }
    println!("SUMMARY structs={} fields_per_struct={} runs={} mismatches=0", structs.len(), n, runs);
}
