// Bounded stand-in for C26 through the public API of the real `topo` crate: every history of
// at most DEPTH operations (insert, insert_dep, remove) over N items that respects the usage
// protocol (a dependency is only registered on an item that is pending or that no pending item
// still lists) is run against TopoSort and against a reference model written from the property
// statement: an item is offered iff it is pending and every dependency registered for it has
// completed; a cycle is reported iff the schedule is non-empty and nothing can be offered.
// BOUNDED -- not a proof.
use std::collections::BTreeSet;
use topo::TopoSort;

const N: u8 = 3;

#[derive(Clone, Copy, Debug)]
enum Op { Insert(u8), Dep(u8, u8), Deps(u8, u8, u8), Remove(u8) }

#[derive(Clone, Default)]
struct Model { pending: BTreeSet<u8>, waits: BTreeSet<(u8, u8)> }

impl Model {
    fn listed(&self, x: u8) -> bool { self.waits.iter().any(|&(p, _)| p == x) }
    fn ok(&self, x: u8) -> bool { self.pending.contains(&x) || !self.listed(x) }
    fn allowed(&self, op: Op) -> bool {
        match op {
            Op::Insert(x) => self.ok(x),
            Op::Dep(p, c) => self.ok(p) && self.ok(c),
            Op::Deps(p, c1, c2) => self.ok(p) && self.ok(c1) && self.ok(c2),
            Op::Remove(_) => true,
        }
    }
    fn apply(&mut self, op: Op) {
        match op {
            Op::Insert(x) => { self.pending.insert(x); }
            Op::Dep(p, c) => { self.pending.insert(p); self.pending.insert(c); self.waits.insert((p, c)); }
            // insert_deps(p, [c1, c2]) = the two single registrations
            Op::Deps(p, c1, c2) => { self.apply(Op::Dep(p, c1)); self.apply(Op::Dep(p, c2)); }
            Op::Remove(c) => { self.pending.remove(&c); self.waits.retain(|&(_, cc)| cc != c); }
        }
    }
    fn ready(&self) -> BTreeSet<u8> {
        self.pending.iter().copied().filter(|&x| !self.listed(x)).collect()
    }
}

fn apply_real(t: &mut TopoSort<u8>, op: Op) {
    match op {
        Op::Insert(x) => { t.insert(x); }
        Op::Dep(p, c) => { t.insert_dep(p, c); }
        Op::Deps(p, c1, c2) => { t.insert_deps(p, [c1, c2]); }
        Op::Remove(c) => { t.remove(&c); }
    }
}

fn compare(t: &TopoSort<u8>, m: &Model, hist: &[Op]) -> Option<String> {
    let ready = m.ready();
    let offered: Option<BTreeSet<u8>> = t.peek_all().ok().map(|v| v.into_iter().copied().collect());
    let cyc = !m.pending.is_empty() && ready.is_empty();
    if t.len() != m.pending.len() {
        return Some(format!("after {:?}: len() = {} but {} items are pending", hist, t.len(), m.pending.len()));
    }
    if t.in_cycle() != cyc {
        return Some(format!("after {:?}: in_cycle() = {} but the pending items {:?} with ready set {:?} say {}", hist, t.in_cycle(), m.pending, ready, cyc));
    }
    match offered {
        None if !cyc => Some(format!("after {:?}: peek_all() reports a cycle, ready items are {:?}", hist, ready)),
        Some(o) if cyc && !o.is_empty() => Some(format!("after {:?}: peek_all() offers {:?} inside a cycle", hist, o)),
        Some(o) if !cyc && o != ready => Some(format!("after {:?}: peek_all() offers {:?}, the items whose dependencies have all completed are {:?}", hist, o, ready)),
        _ => None,
    }
}

fn dfs(t: &TopoSort<u8>, m: &Model, hist: &mut Vec<Op>, depth: usize, ops: &[Op], count: &mut u64) -> Option<String> {
    if depth == 0 { return None; }
    for &op in ops {
        if !m.allowed(op) { continue; }
        let mut t2 = t.clone();
        let mut m2 = m.clone();
        let r = std::panic::catch_unwind(std::panic::AssertUnwindSafe(|| { apply_real(&mut t2, op); }));
        hist.push(op);
        *count += 1;
        if r.is_err() {
            return Some(format!("after {:?}: the operation panicked", hist));
        }
        m2.apply(op);
        if let Some(e) = compare(&t2, &m2, hist) { return Some(e); }
        if let Some(e) = dfs(&t2, &m2, hist, depth - 1, ops, count) { return Some(e); }
        hist.pop();
    }
    None
}

fn main() {
    let depth: usize = std::env::args().nth(1).and_then(|s| s.parse().ok()).unwrap_or(5);
    let mut ops = Vec::new();
    for x in 0..N { ops.push(Op::Insert(x)); ops.push(Op::Remove(x)); }
    for p in 0..N { for c in 0..N { if p != c { ops.push(Op::Dep(p, c)); } } }
    for p in 0..N { for c1 in 0..N { for c2 in 0..N { if p != c1 && p != c2 { ops.push(Op::Deps(p, c1, c2)); } } } }
    std::panic::set_hook(Box::new(|_| {}));
    let mut count = 0u64;
    let r = dfs(&TopoSort::new(), &Model::default(), &mut Vec::new(), depth, &ops, &mut count);
    if let Some(e) = r {
        println!("MISMATCH {}", e);
        println!("SUMMARY items={} depth={} histories={} mismatches=1", N, depth, count);
        std::process::exit(1);
    }
    println!("SUMMARY items={} depth={} histories={} mismatches=0", N, depth, count);
}
