// Bounded stand-in for the tree-shape clause of C24 through the public API of the real lexer,
// parser and ast crates: every chain `o0 OP o1 OP o2 ...` of at most N binary operators (all 18
// of them) over a set of operands (plain, prefixed, postfixed) is parsed as a REPL line and the
// tree is compared with the one the precedence table of the property statement dictates
// (`||` < `&&` < comparisons < `+ - | ~` < `* / % & << >>`, all left-associative, prefix and
// postfix operators binding tighter).  BOUNDED -- not a proof.
use ast::{AstNode, AstToken, Expr, Stmt};

const OPS: [(&str, u8); 18] = [
    ("||", 1), ("&&", 2), ("<", 3), ("<=", 3), (">", 3), (">=", 3), ("==", 3), ("!=", 3),
    ("+", 4), ("-", 4), ("|", 4), ("~", 4), ("*", 5), ("/", 5), ("%", 5), ("&", 5), ("<<", 5), (">>", 5),
];

fn show(e: Expr, tree: &syntax::SyntaxTree) -> String {
    match e {
        Expr::Binary(b) => {
            let l = b.lhs(tree).map(|x| show(x, tree)).unwrap_or("?".into());
            let r = b.rhs(tree).map(|x| show(x, tree)).unwrap_or("?".into());
            let o = b.op(tree).map(|o| o.text(tree).to_string()).unwrap_or("?".into());
            format!("({} {} {})", l, o, r)
        }
        other => other.text(tree).trim().to_string(),
    }
}

fn parse(src: &str) -> Result<String, String> {
    let tokens = lexer::lex(src);
    let parse = parser::parse_repl_line(&tokens, src);
    if !parse.errors().is_empty() {
        return Err(format!("syntax errors: {:?}", parse.errors()));
    }
    let tree = parse.into_syntax_tree();
    let root = ast::Root::cast(tree.root(), &tree).ok_or("no root")?;
    let stmt = root.stmts(&tree).next().ok_or("no statement")?;
    match stmt {
        Stmt::Expr(e) => Ok(show(e.expr(&tree).ok_or("no expression")?, &tree)),
        _ => Err("not an expression statement".into()),
    }
}

// the reference: precedence climbing over the table of the statement
fn reference(operands: &[String], ops: &[usize]) -> String {
    fn climb(operands: &[String], ops: &[usize], pos: &mut usize, min_level: u8) -> String {
        let mut lhs = operands[*pos].clone();
        while *pos < ops.len() {
            let (text, level) = OPS[ops[*pos]];
            if level < min_level { break; }
            *pos += 1;
            // left-associative: the right operand only takes operators that bind tighter
            let rhs = climb(operands, ops, pos, level + 1);
            lhs = format!("({} {} {})", lhs, text, rhs);
        }
        lhs
    }
    let mut pos = 0;
    climb(operands, ops, &mut pos, 0)
}

fn main() {
    let n: usize = std::env::args().nth(1).and_then(|s| s.parse().ok()).unwrap_or(3);
    let operand_sets: Vec<Vec<&str>> = vec![
        vec!["a", "b", "c", "d", "e"],
        vec!["-a", "!b", "c.d", "e[0]", "f()"],
        vec!["a.try", "^b", "c^", "1", "(x + y)"],
        vec!["i32.(a)", "^mut b", "~c", "+d", "e.f.g"],
    ];
    // an operand this tree does not accept on its own says nothing about precedence
    let operand_sets: Vec<Vec<&str>> = operand_sets.into_iter().map(|set| set.into_iter().map(|o| {
        if parse(o).is_ok() { o } else { println!("SKIPPED operand `{}` (does not parse on its own)", o); "z" }
    }).collect()).collect();
    let mut runs = 0u64;
    for k in 1..=n {
        let total = OPS.len().pow(k as u32);
        for code in 0..total {
            let mut ops = Vec::new();
            let mut c = code;
            for _ in 0..k { ops.push(c % OPS.len()); c /= OPS.len(); }
            for (si, set) in operand_sets.iter().enumerate() {
                if si > 0 && k > 2 { continue; }       // decorated operands only for short chains
                let operands: Vec<String> = set.iter().take(k + 1).map(|s| s.to_string()).collect();
                let mut src = operands[0].clone();
                for (i, &o) in ops.iter().enumerate() { src.push_str(&format!(" {} {}", OPS[o].0, operands[i + 1])); }
                runs += 1;
                let want = reference(&operands, &ops);
                match parse(&src) {
                    Ok(got) if got == want => {}
                    Ok(got) => {
                        println!("MISMATCH `{}` parses as {} but the precedence table dictates {}", src, got, want);
                        println!("SUMMARY operators={} max_chain={} runs={} mismatches=1", OPS.len(), n, runs);
                        std::process::exit(1);
                    }
                    Err(e) => {
                        println!("MISMATCH `{}` does not parse as an expression: {}", src, e);
                        println!("SUMMARY operators={} max_chain={} runs={} mismatches=1", OPS.len(), n, runs);
                        std::process::exit(1);
                    }
                }
            }
        }
    }
    println!("SUMMARY operators={} max_chain={} runs={} mismatches=0", OPS.len(), n, runs);
}
