// Bounded stand-in for C27 on the REAL text of `add_part` (and whatever functions of mangle.rs
// it calls), compiled by the ordinary toolchain: every part text of at most MAXLEN symbols over
// the alphabet below is encoded, and
//   (1) two different texts must never give the same encoding, and
//   (2) no encoding followed by another encoding may equal a third encoding followed by a
//       fourth unless the pairs are equal (unique decodability of two consecutive parts).
// This is a bounded check, NOT a proof.
use std::collections::HashMap;

const ALPHABET: [&str; 6] = ["1", "_", "a", "f", "-", "0"];

fn enc(text: &str) -> String {
    let mut s = String::new();
    let part = MangledPart { kind: MangledPartKind::FileOrFolder, text: text.into() };
    add_part(&mut s, &part);
    s
}

fn main() {
    let maxlen: usize = std::env::args().nth(1).and_then(|s| s.parse().ok()).unwrap_or(4);
    let mut texts: Vec<String> = vec![String::new()];
    let mut frontier: Vec<String> = vec![String::new()];
    for _ in 0..maxlen {
        let mut next = Vec::new();
        for t in &frontier {
            for a in ALPHABET {
                let mut n = t.clone();
                n.push_str(a);
                next.push(n);
            }
        }
        texts.extend(next.iter().cloned());
        frontier = next;
    }
    let mut seen: HashMap<String, String> = HashMap::new();
    let mut encs: Vec<(String, String)> = Vec::new();
    for t in &texts {
        let e = enc(t);
        if let Some(prev) = seen.get(&e) {
            println!("MISMATCH parts {:?} and {:?} are both written {:?}", prev, t, e);
            println!("SUMMARY texts={} pairs=0 maxlen={} mismatches=1", texts.len(), maxlen);
            std::process::exit(1);
        }
        seen.insert(e.clone(), t.clone());
        encs.push((t.clone(), e));
    }
    // pairs: limit to texts of length <= 2 to keep it quadratic-small
    let short: Vec<&(String, String)> = encs.iter().filter(|(t, _)| t.chars().count() <= 2).collect();
    let mut pairs: HashMap<String, (String, String)> = HashMap::new();
    let mut npairs = 0u64;
    for (t1, e1) in short.iter().map(|p| (&p.0, &p.1)) {
        for (t2, e2) in short.iter().map(|p| (&p.0, &p.1)) {
            npairs += 1;
            let cat = format!("{}{}", e1, e2);
            if let Some((p1, p2)) = pairs.get(&cat) {
                if p1 != t1 || p2 != t2 {
                    println!("MISMATCH part lists [{:?}, {:?}] and [{:?}, {:?}] are both written {:?}", p1, p2, t1, t2, cat);
                    println!("SUMMARY texts={} pairs={} maxlen={} mismatches=1", texts.len(), npairs, maxlen);
                    std::process::exit(1);
                }
            }
            pairs.insert(cat, (t1.clone(), t2.clone()));
        }
    }
    println!("SUMMARY texts={} pairs={} maxlen={} mismatches=0", texts.len(), npairs, maxlen);
}
