// Bounded stand-in for C27 on the REAL text of `create_mangled_for_file` (and the functions of
// mangle.rs it calls), compiled by the ordinary toolchain with a stand-in for
// `FileName::get_components` that hands over a given (module name, path pieces) pair:
// every descriptor = (optional module name, <= MAXPATH path pieces, 1..2 final parts) over the
// small alphabets below is mangled, and two different descriptors must never get the same name.
// This is a bounded check, NOT a proof.
use std::collections::HashMap;

const NAMES: [&str; 6] = ["a", "b", "ab", "1", "_1", "m"];
const TEXTS: [&str; 3] = ["a", "1", "ab"];

fn kinds() -> Vec<MangledPartKind> {
    vec![MangledPartKind::Name, MangledPartKind::GenericID, MangledPartKind::Lambda, MangledPartKind::Comptime, MangledPartKind::InternalData]
}

fn main() {
    let maxpath: usize = std::env::args().nth(1).and_then(|s| s.parse().ok()).unwrap_or(2);
    let mut paths: Vec<Vec<String>> = vec![vec![]];
    let mut frontier: Vec<Vec<String>> = vec![vec![]];
    for _ in 0..maxpath {
        let mut next = Vec::new();
        for p in &frontier {
            for n in NAMES {
                let mut q = p.clone();
                q.push(n.to_string());
                next.push(q);
            }
        }
        paths.extend(next.iter().cloned());
        frontier = next;
    }
    let mut mods: Vec<Option<String>> = vec![None];
    for n in NAMES { mods.push(Some(n.to_string())); }
    let mut singles: Vec<(usize, &str)> = Vec::new();
    for k in 0..kinds().len() { for t in TEXTS { singles.push((k, t)); } }
    let mut finals: Vec<Vec<(usize, &str)>> = Vec::new();
    for s in &singles { finals.push(vec![*s]); }
    for s in &singles { for t in &singles { finals.push(vec![*s, *t]); } }
    let interner = Interner;
    let mod_dir = std::path::Path::new("/");
    let mut seen: HashMap<String, String> = HashMap::new();
    let mut n = 0u64;
    for m in &mods {
        for p in &paths {
            for f in &finals {
                n += 1;
                let parts: Vec<MangledPart> = f.iter().map(|(k, t)| MangledPart { kind: kinds()[*k], text: (*t).into() }).collect();
                let desc = format!("module {:?}, path {:?}, parts {:?}", m, p, f.iter().map(|(k, t)| format!("{}:{}", kinds()[*k].to_code(), t)).collect::<Vec<_>>());
                let name = create_mangled_for_file(FileName(m.clone(), p.clone()), mod_dir, &interner, &parts);
                if let Some(prev) = seen.get(&name) {
                    println!("MISMATCH the entities [{}] and [{}] both get the symbol name {:?}", prev, desc, name);
                    println!("SUMMARY descriptors={} maxpath={} mismatches=1", n, maxpath);
                    std::process::exit(1);
                }
                seen.insert(name, desc);
            }
        }
    }
    println!("SUMMARY descriptors={} maxpath={} mismatches=0", n, maxpath);
}
