// Bounded stand-in for the call-site clause of C09 ("an integer literal used at an integer type
// is accepted if and only if its value fits that type") through the public API of the real
// front end (lexer, parser, hir, hir_ty): every integer type x every boundary value of the
// property's quantifier x a set of contexts in which the literal meets its type is type-checked
// and the IntTooBigForType diagnostic must appear exactly when the value does not fit.
// BOUNDED -- not a proof.
use std::path::Path;

use ast::AstNode;
use hir::common::FileName;
use uid_gen::UIDGenerator;
use hir_ty::{InferenceCtx, InferenceResult, TyDiagnosticKind};
use interner::Interner;
use la_arena::Arena;

fn too_big(src: &str) -> Result<bool, String> { diag_present(src, false) }

/// does the checker report IntTooBigForType (index = false) / IndexOutOfBounds (index = true)?
fn diag_present(src: &str, want_index: bool) -> Result<bool, String> {
    let mut interner = Interner::default();
    let mut world_index = hir::WorldIndex::default();
    let mut uid_gen = UIDGenerator::default();
    let mut world_bodies = hir::WorldBodies::default();
    let module = FileName(interner.intern("main.capy"));
    let tokens = lexer::lex(src);
    let parse = parser::parse_source_file(&tokens, src);
    if !parse.errors().is_empty() {
        return Err(format!("syntax errors: {:?}", parse.errors()));
    }
    let tree = parse.into_syntax_tree();
    let root = ast::Root::cast(tree.root(), &tree).unwrap();
    let (index, d) = hir::index(root, &tree, &mut interner);
    if !d.is_empty() {
        return Err("indexing diagnostics".into());
    }
    let (bodies, d) = hir::lower(root, &tree, Path::new("main"), &index, &mut uid_gen, &mut interner, Path::new(""), true);
    if !d.is_empty() {
        return Err(format!("lowering diagnostics: {}", d.len()));
    }
    world_index.add_file(module, index);
    world_bodies.add_file(module, bodies);
    let mut generic_values = Arena::new();
    let InferenceResult { diagnostics, .. } = InferenceCtx::new(&world_index, &world_bodies, &interner, &mut generic_values, |_, _| {
        panic!("no comptime block in these programs")
    })
    .finish(None, true);
    let n = diagnostics.iter().filter(|d| if want_index { matches!(d.kind, TyDiagnosticKind::IndexOutOfBounds { .. }) } else { matches!(d.kind, TyDiagnosticKind::IntTooBigForType { .. }) }).count();
    let other = diagnostics.len() - n;
    if other != 0 {
        return Err(format!("{} other diagnostics: {:?}", other, diagnostics.iter().map(|d| format!("{:?}", d.kind)).collect::<Vec<_>>()));
    }
    Ok(n > 0)
}

/// C25, rendering clause: the `file:line:col` header of a rendered diagnostic.  Every text of at
/// most N symbols over {a, newline, tab, space} and every offset in it: a synthetic syntax error at that
/// offset is rendered by the real diagnostics crate and the header must name line = newlines
/// before the offset + 1 and column = bytes since the start of that line + 1.
fn render_mode(thorough: bool) {
    use text_size::{TextRange, TextSize};
    std::panic::set_hook(Box::new(|_| {}));
    let n = if thorough { 7 } else { 5 };
    let alphabet = ["a", "\n", "\t", " "];
    let interner = Interner::default();
    let mut texts: Vec<String> = vec![String::new()];
    let mut frontier = vec![String::new()];
    for _ in 0..n {
        let mut next = vec![];
        for t in &frontier { for a in alphabet { let mut x = t.clone(); x.push_str(a); next.push(x); } }
        texts.extend(next.iter().cloned());
        frontier = next;
    }
    let mut runs = 0u64;
    for text in &texts {
        let index = line_index::LineIndex::new(text);
        for off in 0..text.len() {
            // a range that covers a line break is not something the front end reports (the snippet
            // printer slices the line without its terminator)
            if text.as_bytes()[off] == b'\n' { continue; }
            runs += 1;
            let err = parser::SyntaxError {
                expected_syntax: parser::ExpectedSyntax::Named("thing"),
                kind: parser::SyntaxErrorKind::UnexpectedToken { found: syntax::TokenKind::Ident, range: TextRange::new(TextSize::from(off as u32), TextSize::from(off as u32 + 1)) },
            };
            let lines = diagnostics::Diagnostic::from_syntax(err).display("f.capy", text, Path::new(""), &interner, &index, false);
            let header = lines.iter().find(|l| l.contains("--> at ")).cloned().unwrap_or_default();
            let line = text[..off].matches('\n').count() + 1;
            let col = off - text[..off].rfind('\n').map(|p| p + 1).unwrap_or(0) + 1;
            let want = format!(":{}:{}", line, col);
            if !header.trim_end().ends_with(&want) {
                println!("MISMATCH text {:?} offset {}: the diagnostic header is {:?}, the position is line {} column {}", text, off, header.trim(), line, col);
                println!("SUMMARY mode=render max_len={} texts={} runs={} mismatches=1", n, texts.len(), runs);
                std::process::exit(1);
            }
            // the same position reported with an EMPTY range (what `MissingArg` does): the header
            // still names the position where the range starts.  Offsets where the byte before is a
            // line break are left out (the snippet printer of the pinned tree panics there), and so
            // is offset 0 (the inclusive end underflows).
            if off > 0 && text.as_bytes()[off - 1] != b'\n' {
                let err = parser::SyntaxError {
                    expected_syntax: parser::ExpectedSyntax::Named("thing"),
                    kind: parser::SyntaxErrorKind::UnexpectedToken { found: syntax::TokenKind::Ident, range: TextRange::empty(TextSize::from(off as u32)) },
                };
                let shown = std::panic::catch_unwind(std::panic::AssertUnwindSafe(|| {
                    diagnostics::Diagnostic::from_syntax(err).display("f.capy", text, Path::new(""), &interner, &index, false)
                }));
                if let Ok(lines) = shown {
                    runs += 1;
                    let header = lines.iter().find(|l| l.contains("--> at ")).cloned().unwrap_or_default();
                    if !header.trim_end().ends_with(&want) {
                        println!("MISMATCH text {:?} empty range at offset {}: the diagnostic header is {:?}, the position is line {} column {}", text, off, header.trim(), line, col);
                        println!("SUMMARY mode=render max_len={} texts={} runs={} mismatches=1", n, texts.len(), runs);
                        std::process::exit(1);
                    }
                }
            }
        }
    }
    println!("SUMMARY mode=render max_len={} texts={} runs={} mismatches=0", n, texts.len(), runs);
}

/// does the checker accept the program (no diagnostic of any kind)?
fn accepted(src: &str) -> Result<bool, String> {
    match diag_present(src, false) {
        Ok(false) => Ok(true),
        Ok(true) => Ok(false),
        Err(e) if e.contains("other diagnostics") => Ok(false),
        Err(e) => Err(e),
    }
}

/// C11, checker half: "accepted only if it names only variants of that type, names each at most
/// once, and either names all of them or has a default arm" -- every sequence of at most N arms
/// over the variants of an enum (plus a name that is no variant), with and without a default arm
fn switch_mode(thorough: bool) {
    let names = ["A", "B", "C", "Z"];          // Z is not a variant
    let max_arms = if thorough { 5 } else { 4 };
    let scrutinees: Vec<(&str, &str)> = vec![
        ("enum", "E :: enum { A, B: i32, C: str };\nmain :: () { e : E = E.A; switch x in e { {ARMS} } }"),
        ("distinct enum", "E :: enum { A, B: i32, C: str };\nD :: distinct E;\nmain :: () { e : D = D.(E.A); switch x in e { {ARMS} } }"),
    ];
    let mut runs = 0u64;
    for (sname, tmpl) in &scrutinees {
        for k in 0..=max_arms {
            let total = names.len().pow(k as u32);
            for code in 0..total {
                let mut arms = Vec::new();
                let mut c = code;
                for _ in 0..k { arms.push(names[c % names.len()]); c /= names.len(); }
                for default in [false, true] {
                    let mut text: Vec<String> = arms.iter().map(|n| format!(".{} => {{}}", n)).collect();
                    if default { text.push("_ => {}".to_string()); }
                    let src = tmpl.replace("{ARMS}", &text.join(", "));
                    runs += 1;
                    let only_variants = arms.iter().all(|n| *n != "Z");
                    let mut sorted = arms.clone(); sorted.sort(); sorted.dedup();
                    let no_dups = sorted.len() == arms.len();
                    let covers = ["A", "B", "C"].iter().all(|v| arms.contains(v));
                    let expect_ok = only_variants && no_dups && (covers || default);
                    let src2 = src.clone();
                    match std::thread::spawn(move || accepted(&src2)).join() {
                        Ok(Ok(got)) => {
                            if got != expect_ok {
                                println!("MISMATCH {}: switch with arms [{}]{} is {} (program: {})", sname, arms.join(", "), if default { " and a default arm" } else { "" },
                                         if got { "accepted although it must be rejected" } else { "rejected although it names each variant at most once and covers the type" }, src.replace('\n', " "));
                                println!("SUMMARY mode=switch scrutinees={} max_arms={} runs={} mismatches=1", scrutinees.len(), max_arms, runs);
                                std::process::exit(1);
                            }
                        }
                        Ok(Err(e)) => { if k == 0 && !default { println!("SKIPPED scrutinee `{}`: {}", sname, e); } }
                        Err(_) => {
                            println!("MISMATCH {}: the checker panicked on: {}", sname, src.replace('\n', " "));
                            println!("SUMMARY mode=switch scrutinees={} max_arms={} runs={} mismatches=1", scrutinees.len(), max_arms, runs);
                            std::process::exit(1);
                        }
                    }
                }
            }
        }
    }
    println!("SUMMARY mode=switch scrutinees={} max_arms={} runs={} mismatches=0", scrutinees.len(), max_arms, runs);
}

/// C10, last clause: "a literal index that is out of range for a fixed-size array is rejected
/// at compile time" -- every array length x literal index x way of reaching the array
fn index_mode(thorough: bool) {
    let lens: Vec<u64> = if thorough { vec![1, 2, 3, 5, 8, 255, 256, 65536] } else { vec![1, 2, 5, 256] };
    let contexts: Vec<(&str, &str)> = vec![
        ("local array", "main :: () { a : [{N}]i32 = {INIT}; x := a[{I}]; }"),
        ("through a pointer", "main :: () { a : [{N}]i32 = {INIT}; p := ^a; x := p[{I}]; }"),
        ("store", "main :: () { a : [{N}]i32 = {INIT}; a[{I}] = 1; }"),
        ("nested array", "main :: () { a : [2][{N}]i32 = {INIT2}; x := a[1][{I}]; }"),
        ("struct field", "S :: struct { a: [{N}]i32 };\nmain :: () { s := S.{ a = {INIT} }; x := s.a[{I}]; }"),
        ("pointer to pointer", "main :: () { a : [{N}]i32 = {INIT}; p := ^a; q := ^p; x := q[{I}]; }"),
    ];
    let mut runs = 0u64;
    for (cname, tmpl) in &contexts {
        for &n in &lens {
            let mut idxs: Vec<u64> = vec![0, n.saturating_sub(1), n, n + 1, n + 4];
            idxs.dedup();
            for i in idxs {
                // array literals are only written out for small lengths
                if n > 8 { continue; }
                let init = format!(".[{}]", vec!["0"; n as usize].join(", "));
                let init2 = format!(".[{}, {}]", init, init);
                let src = tmpl.replace("{N}", &n.to_string()).replace("{INIT2}", &init2).replace("{INIT}", &init).replace("{I}", &i.to_string());
                runs += 1;
                let expect_rejected = i >= n;
                let src2 = src.clone();
                match std::thread::spawn(move || diag_present(&src2, true)).join() {
                    Ok(Ok(got)) => {
                        if got != expect_rejected {
                            println!("MISMATCH context `{}`: literal index {} into an array of {} is {} (program: {})", cname, i, n,
                                     if got { "rejected although it is in range" } else { "accepted although it is out of range" }, src.replace('\n', " "));
                            println!("SUMMARY mode=index contexts={} lengths={} runs={} mismatches=1", contexts.len(), lens.len(), runs);
                            std::process::exit(1);
                        }
                    }
                    Ok(Err(e)) => { if i == 0 { println!("SKIPPED context `{}` for length {}: {}", cname, n, e); } }
                    Err(_) => {
                        println!("MISMATCH context `{}`: the checker panicked on: {}", cname, src.replace('\n', " "));
                        println!("SUMMARY mode=index contexts={} lengths={} runs={} mismatches=1", contexts.len(), lens.len(), runs);
                        std::process::exit(1);
                    }
                }
            }
        }
    }
    println!("SUMMARY mode=index contexts={} lengths={} runs={} mismatches=0", contexts.len(), lens.len(), runs);
}

fn main() {
    if std::env::args().nth(1).map(|s| s == "render").unwrap_or(false) {
        render_mode(std::env::args().nth(2).map(|s| s == "thorough").unwrap_or(false));
        return;
    }
    std::panic::set_hook(Box::new(|_| {}));
    if std::env::args().nth(1).map(|s| s == "switch").unwrap_or(false) {
        switch_mode(std::env::args().nth(2).map(|s| s == "thorough").unwrap_or(false));
        return;
    }
    if std::env::args().nth(1).map(|s| s == "index").unwrap_or(false) {
        index_mode(std::env::args().nth(2).map(|s| s == "thorough").unwrap_or(false));
        return;
    }
    let thorough = std::env::args().nth(1).map(|s| s == "thorough").unwrap_or(false);
    // (name, largest value of the type, capped at u64::MAX -- the literal domain)
    let types: [(&str, u128); 12] = [
        ("i8", i8::MAX as u128), ("i16", i16::MAX as u128), ("i32", i32::MAX as u128), ("i64", i64::MAX as u128),
        ("i128", u64::MAX as u128), ("isize", i64::MAX as u128),
        ("u8", u8::MAX as u128), ("u16", u16::MAX as u128), ("u32", u32::MAX as u128), ("u64", u64::MAX as u128),
        ("u128", u64::MAX as u128), ("usize", u64::MAX as u128),
    ];
    let mut values: Vec<u128> = vec![0, 1];
    for (_, max) in types {
        for v in [max.saturating_sub(1), max, max + 1] {
            if v <= u64::MAX as u128 { values.push(v); }
        }
    }
    values.extend([1u128 << 31, 1u128 << 32, 1u128 << 63]);
    values.sort();
    values.dedup();
    // contexts: how the literal meets the type.  {T} = type, {V} = literal
    let mut contexts: Vec<(&str, &str)> = vec![
        ("annotated local", "main :: () { x : {T} = {V}; }"),
        ("unary plus", "main :: () { x : {T} = +{V}; }"),
        ("unary plus via a weakly typed local", "main :: () { w := +{V}; x : {T} = w; }"),
        ("optional", "main :: () { x : ?{T} = {V}; }"),
        ("distinct", "D :: distinct {T};\nmain :: () { x : D = {V}; }"),
        ("via a weakly typed local", "main :: () { x := {V}; y : {T} = x; }"),
        ("array element", "main :: () { x : [2]{T} = .[{V}, 0]; }"),
        ("function argument", "f :: (a: {T}) {}\nmain :: () { f({V}); }"),
        ("return value", "f :: () -> {T} { {V} }\nmain :: () { f(); }"),
        ("struct field", "S :: struct { a: {T} };\nmain :: () { s := S.{ a = {V} }; }"),
        ("assignment", "main :: () { x : {T} = 0; x = {V}; }"),
        ("parenthesised", "main :: () { x : {T} = ({V}); }"),
        ("block tail", "main :: () { x : {T} = { {V} }; }"),
    ];
    if thorough {
        contexts.extend([
            ("optional of distinct", "D :: distinct {T};\nmain :: () { x : ?D = {V}; }"),
            ("weak local used twice", "main :: () { x := {V}; y : {T} = x; z : {T} = x; }"),
            ("if branches", "main :: () { x : {T} = if true { {V} } else { 0 }; }"),
            ("global", "g : {T} : {V};\nmain :: () { y := g; }"),
            ("slice from array literal", "main :: () { x : []{T} = .[{V}]; }"),
        ]);
    }
    let mut runs = 0u64;
    for (cname, tmpl) in &contexts {
        for (tname, max) in types {
            for &v in &values {
                for spelling in [format!("{}", v), with_separators(v), format!("{:#x}", v)] {
                    if !thorough && spelling != format!("{}", v) { continue; }
                    let src = tmpl.replace("{T}", tname).replace("{V}", &spelling);
                    runs += 1;
                    let expect_rejected = v > max;
                    // a fresh thread per program: the front end keeps thread-local tables
                    let src2 = src.clone();
                    match std::thread::spawn(move || too_big(&src2)).join() {
                        Ok(Ok(got)) => {
                            if got != expect_rejected {
                                println!("MISMATCH context `{}`: literal {} at type {} is {} but {} (program: {})", cname, spelling, tname,
                                         if got { "rejected" } else { "accepted" }, if expect_rejected { "does not fit" } else { "fits" }, src.replace('\n', " "));
                                println!("SUMMARY contexts={} types={} values={} runs={} mismatches=1", contexts.len(), types.len(), values.len(), runs);
                                std::process::exit(1);
                            }
                        }
                        Ok(Err(e)) => {
                            // a context this tree does not accept at all is not a verdict on literals
                            if v == 0 { println!("SKIPPED context `{}` at {}: {}", cname, tname, e); }
                        }
                        Err(_) => {
                            println!("MISMATCH context `{}`: the checker panicked on: {}", cname, src.replace('\n', " "));
                            println!("SUMMARY contexts={} types={} values={} runs={} mismatches=1", contexts.len(), types.len(), values.len(), runs);
                            std::process::exit(1);
                        }
                    }
                }
            }
        }
    }
    // exponent spellings at the boundaries: m e1 with m = floor(MAX / 10) fits, (m + 1) e1 does not
    // (a literal beyond the u64 domain is rejected when it is lowered; that counts as rejected)
    for (tname, max) in types {
        for (m, fits) in [(max / 10, true), (max / 10 + 1, false)] {
            if !fits && max >= u64::MAX as u128 && tname != "u64" && tname != "usize" { continue; }   // i128 / u128 hold every u64 literal
            for spelling in [format!("{}e1", m), format!("{}E1", m), format!("{}_e1", m)] {
                let src = format!("main :: () {{ x : {} = {}; }}", tname, spelling);
                runs += 1;
                let src2 = src.clone();
                let got = match std::thread::spawn(move || too_big(&src2)).join() {
                    Ok(Ok(g)) => g,
                    Ok(Err(e)) if e.contains("lowering diagnostics") => true,
                    Ok(Err(e)) => { println!("SKIPPED exponent spelling {}: {}", spelling, e); continue; }
                    Err(_) => { println!("MISMATCH the front end panicked on: {}", src); std::process::exit(1); }
                };
                if got == fits {
                    println!("MISMATCH literal {} (= {}0) at type {} is {} but {} (program: {})", spelling, m, tname,
                             if got { "rejected" } else { "accepted" }, if fits { "fits" } else { "does not fit" }, src);
                    println!("SUMMARY contexts={} types={} values={} runs={} mismatches=1", contexts.len(), types.len(), values.len(), runs);
                    std::process::exit(1);
                }
            }
        }
    }
    println!("SUMMARY contexts={} types={} values={} runs={} mismatches=0", contexts.len(), types.len(), values.len(), runs);
}

fn with_separators(v: u128) -> String {
    let s = format!("{}", v);
    let mut out = String::new();
    for (i, c) in s.chars().enumerate() {
        if i > 0 && (s.len() - i) % 3 == 0 { out.push('_'); }
        out.push(c);
    }
    out
}
