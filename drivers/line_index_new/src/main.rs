//! Bounded stand-in for the part of C25 that is outside the verifier's reach:
//! `LineIndex::new` (an iterator chain over `str::match_indices`).  Exhaustive enumeration
//! of the property's own quantifier -- every string of at most MAXLEN symbols over
//! {a, \n, \r, \t, é} and every byte offset on a char boundary in it -- against the REAL
//! line_index crate of the tree under check.  This is a bounded check, NOT a proof.
use line_index::LineIndex;
use text_size::TextSize;

const ALPHABET: [&str; 5] = ["a", "\n", "\r", "\t", "é"];

fn main() {
    let maxlen: usize = std::env::args().nth(1).and_then(|s| s.parse().ok()).unwrap_or(6);
    let mut strings: u64 = 0;
    let mut offsets: u64 = 0;
    let mut nontrivial: u64 = 0;
    let mut idx = vec![0usize; 0];
    // enumerate all strings of length 0..=maxlen (in symbols)
    for len in 0..=maxlen {
        idx.clear();
        idx.resize(len, 0);
        loop {
            let mut text = String::new();
            for &i in &idx {
                text.push_str(ALPHABET[i]);
            }
            strings += 1;
            let has_nl = text.contains('\n');
            let has_multi = text.contains('é');
            if has_nl && has_multi {
                nontrivial += 1;
            }
            let li = LineIndex::new(&text);
            let bytes = text.as_bytes();
            for off in 0..=bytes.len() {
                // diagnostics only ever carry offsets on char boundaries
                if !text.is_char_boundary(off) {
                    continue;
                }
                offsets += 1;
                let want_line = bytes[..off].iter().filter(|&&b| b == b'\n').count() as u32;
                let start = bytes[..off].iter().rposition(|&b| b == b'\n').map(|p| p + 1).unwrap_or(0);
                let want_col = (off - start) as u32;
                let (l, c) = li.line_col(TextSize::from(off as u32));
                if l.0 != want_line || c.0 != want_col {
                    println!("MISMATCH text={:?} offset={} got=({},{}) want=({},{})", text, off, l.0, c.0, want_line, want_col);
                    println!("SUMMARY strings={} offsets={} nontrivial={} maxlen={} mismatches=1", strings, offsets, nontrivial, maxlen);
                    std::process::exit(1);
                }
            }
            // next index vector (odometer)
            let mut k = len;
            let mut done = true;
            while k > 0 {
                k -= 1;
                idx[k] += 1;
                if idx[k] < ALPHABET.len() {
                    done = false;
                    break;
                }
                idx[k] = 0;
            }
            if done {
                break;
            }
        }
    }
    println!("SUMMARY strings={} offsets={} nontrivial={} maxlen={} mismatches=0", strings, offsets, nontrivial, maxlen);
}
